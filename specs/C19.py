"""C19 - messaging delivers until acknowledged, to the right consumers, in offset order.

Part A: MessageQueue (state partition pending / in flight / acknowledged / dead, delivery, redelivery, DLQ hand-over).
Part B: DeadLetterQueue.  Part C: Topic.  Part D: EventLog.  Part E: ConsumerGroup and assignment strategies.
Part F: OutboxRelay / IdempotencyStore.
Extension: ConsumerGroup membership (join/leave/poll/commit request generators, Join/Leave segments, rebalance result also for an
empty group), EventLog._apply_retention, gated clauses for fixes/C19_redelivery-timer-double-delivers-after-poll.diff, and three
native end-to-end stand-ins (group membership, queue redelivery path, log reads) under triage/c19_*.py.
See DESIGN.md section 3-C19 for the clauses.
"""
from pyvc.spec import *

F_MQ = "happysimulator/components/messaging/message_queue.py"
F_DLQ = "happysimulator/components/messaging/dlq.py"
F_TOPIC = "happysimulator/components/messaging/topic.py"
F_LOG = "happysimulator/components/streaming/event_log.py"
F_CG = "happysimulator/components/streaming/consumer_group.py"

# ---------------------------------------------------------------------------- ghost statements
# (declared before the repo modules are imported)
# ghost accounting of the four message states: g_issued = every id publish ever handed out,
# g_acked / g_dead = ids that left the queue by acknowledgement / by dead-lettering (or discard);
# g_seq = publish sequence number of a message (ghost), g_next_seq = the queue's publish counter.
ghost(F_MQ, "MessageQueue.publish", "message_id = str(uuid.uuid4())",
      "_c19_fresh_id(self, message_id)")
ghost(F_MQ, "MessageQueue.publish", "msg = Message(",
      "msg.g_seq = self.g_next_seq; self.g_next_seq = self.g_next_seq + 1")
ghost(F_MQ, "MessageQueue.publish", "self._messages_published += 1",
      "self.g_issued.add(message_id)")
ghost(F_MQ, "MessageQueue.acknowledge", "self._messages.pop(message_id, None)",
      "self.g_acked.add(message_id)")
ghost(F_MQ, "MessageQueue.reject", "self._messages.pop(message_id, None)",
      "self.g_dead.add(message_id)")

ghost(F_MQ, "MessageQueue.handle_event", "message_id = event.context.get('message_id')",
      "message_id = _c19_opt_str('message_id')")

# DeadLetterQueue._cleanup_expired: while self._messages and self._message_times  (drops an expired prefix)
loop(F_DLQ, "DeadLetterQueue._cleanup_expired", 1,
     modifies=[("DeadLetterQueue", "_messages"), ("DeadLetterQueue", "_message_times"), ("DeadLetterQueue", "_messages_discarded")],
     types={"msg_time": lambda: TIME, "age": lambda: Real, "now": lambda: TIME, "now_seconds": lambda: Real},
     inv=[("parallel", lambda L: slen(L.self._messages) == slen(L.self._message_times)),
          ("suffix-of-entry", lambda L: _is_suffix(L.self._messages, L.old(L.self)._messages)
              & _is_suffix(L.self._message_times, L.old(L.self)._message_times)),
          ("dropped-are-counted", lambda L: L.self._messages_discarded - L.old(L.self)._messages_discarded
              == slen(L.old(L.self)._messages) - slen(L.self._messages))])


def _is_suffix(now, old):
    a, b = seq_term(now), seq_term(old)
    return mk_bool(z3.And(z3.Length(a) <= z3.Length(b), a == z3.Extract(b, z3.Length(b) - z3.Length(a), z3.Length(a))))


# Topic.publish_sync: for subscription in self._subscriptions.values()   (delivery_events is mutated in place: typed)
loop(F_TOPIC, "Topic.publish_sync", 1,
     modifies=[("Subscription", "messages_received"), ("Topic", "_messages_delivered")]
     + [("Event", f) for f in ("time", "event_type", "daemon", "target", "on_complete", "_sort_index", "_id", "_cancelled", "context")],
     types={"delivery_events": lambda: Seq(Ref(Event)), "delivery_event": lambda: Ref(Event)},
     inv=[("one-delivery-per-active-subscription-so-far", lambda L: _sync_inv(L)),
          ("events-are-deliveries-stamped-now", lambda L: _sync_events(L, L.delivery_events))])

# ConsumerGroup.handle_event: loop 2 = Commit: for pid, offset in offsets.items()
loop(F_CG, "ConsumerGroup.handle_event", 2, modifies=[("ConsumerGroup", "_committed_offsets")],
     types={"pid": lambda: Int, "offset": lambda: Int},
     inv=[("committed-never-backwards-and-only-this-consumer", lambda L: _commit_inv(L))])
ghost(F_CG, "ConsumerGroup.handle_event", None, "event = _c19_typed_event(event)", where="entry")

# EventLog._apply_retention (SizeRetention branch): for partition in self._partitions
loop(F_LOG, "EventLog._apply_retention", 1, modifies=[("Partition", "records"), ("Partition", "high_watermark")],
     types={"partition": lambda: Ref(Partition), "excess": lambda: Int, "total_expired": lambda: Int},
     inv=[("visited-partitions-trimmed-to-their-newest-records-others-untouched", lambda L: _retention_inv(L))])

from specs.common import *  # noqa: E402,F401
from pyvc import ctx as _ctx  # noqa: E402
from pyvc.heap import Box  # noqa: E402
from pyvc.sym import SymStr  # noqa: E402

import happysimulator.components.messaging.message_queue as _mq_mod  # noqa: E402
from happysimulator.components.messaging.message_queue import MessageQueue, Message, MessageState  # noqa: E402
from happysimulator.components.messaging.dlq import DeadLetterQueue  # noqa: E402

PROPERTY = {
    "id": "C19",
    "level": "proof",
    "task_timeout": 900,      # generous: the whole check takes ~1 min on an idle 16-core box, far more under contention
    "trusted": ["heap typing of the fields declared in specs/C19.py and specs/common.py",
                "uuid.uuid4(): message ids are opaque strings, fresh w.r.t. every id the queue has issued before "
                "(ghost set g_issued) - DESIGN 3-C19 'reach'",
                "UDeque model (specs/C19.py) of a deque that is kept duplicate free: membership set + rank per element; "
                "append/appendleft of an element already present is an obligation at the call site, never assumed"],
    "assumptions": COMMON_ASSUMPTIONS + [
        "uuid4 message ids never collide with an id issued earlier by the same queue (freshness of uuid4)",
        "reject(id) is only called for a message that was delivered at least once (a consumer rejects what it received)",
        "event context entries have the type their handler expects (A-typing for Event.context): 'message_id' is a str or "
        "absent; the typed value is re-bound by a ghost statement right after the context read",
    ],
}


# ---------------------------------------------------------------------------- helper types
class EnumTy(T.Ty):
    """a field holding a member of a Python Enum: Int index of the member"""

    def __init__(self, enum):
        self.enum = enum
        self.members = list(enum)
        self.name = f"Enum({enum.__name__})"

    def sort(self):
        return z3.IntSort()

    def assume_wf(self, term):
        _ctx.cur().assume(z3.And(term >= 0, term < len(self.members)))

    def wrap(self, term, loc=None):
        term = z3.simplify(term)
        if z3.is_int_value(term):
            return self.members[term.as_long()]
        k = _ctx.cur().choose([term == i for i in range(len(self.members))], site="enum:" + self.name)
        return self.members[k]

    def unwrap(self, v):
        if isinstance(v, self.enum):
            return z3.IntVal(self.members.index(v))
        raise OutOfReach(f"{type(v).__name__} stored where {self.name} is declared")

    def concretize(self, model, term):
        v = model.eval(term, model_completion=True).as_long()
        return str(self.members[min(max(v, 0), len(self.members) - 1)])


class UDeque(T.Ty):
    """A deque of strings that the owner keeps duplicate free (the pending queue of message ids).
    Model: dom (membership), rank (position key: smaller = nearer the front), size, and the window
    [lo, hi) of ranks handed out.  append gives rank hi, appendleft rank lo-1; adding an element that
    is already present would create a duplicate, which this model cannot hold - it is therefore an
    OBLIGATION at the call site (`unique:` ...), not an assumption.  q[0] / popleft() return a witness
    of minimal rank.  The facts `ranks in window` and `ranks distinct` are class invariants of the owner."""
    _dt = None

    def __init__(self, label="deque"):
        self.label = label
        self.name = "UDeque(Str)"
        if UDeque._dt is None:
            d = z3.Datatype("UDeque_Str")
            ks = z3.StringSort()
            d.declare("mk", ("dom", z3.ArraySort(ks, z3.BoolSort())), ("rank", z3.ArraySort(ks, z3.IntSort())),
                      ("size", z3.IntSort()), ("lo", z3.IntSort()), ("hi", z3.IntSort()))
            UDeque._dt = d.create()
        self.dt = UDeque._dt

    def sort(self):
        return self.dt

    def assume_wf(self, term):
        c = _ctx.cur()
        dt = self.dt
        c.assume(z3.And(dt.size(term) >= 0, dt.lo(term) <= dt.hi(term), dt.size(term) <= dt.hi(term) - dt.lo(term)))
        c.assume((dt.size(term) == 0) == (dt.dom(term) == z3.K(z3.StringSort(), z3.BoolVal(False))))

    def empty(self):
        ks = z3.StringSort()
        return self.dt.mk(z3.K(ks, z3.BoolVal(False)), z3.K(ks, z3.IntVal(0)), z3.IntVal(0), z3.IntVal(0), z3.IntVal(0))

    def wrap(self, term, loc=None):
        return UDequeProxy(loc if loc is not None else Box(term), self)

    def unwrap(self, v):
        if isinstance(v, UDequeProxy):
            return v._loc.get()
        if type(v).__name__ == "deque" or isinstance(v, (list, tuple)):
            p = UDequeProxy(Box(self.empty()), self)
            for x in v:
                p.append(x)
            return p._loc.get()
        raise OutOfReach(f"{type(v).__name__} stored where {self.name} is declared")

    def concretize(self, model, term):
        v = model.eval(term, model_completion=True)
        return {"__udeque__": str(model.eval(self.dt.dom(v), model_completion=True))[:300],
                "rank": str(model.eval(self.dt.rank(v), model_completion=True))[:300],
                "size": str(model.eval(self.dt.size(v), model_completion=True))}


class UDequeProxy:
    def __init__(self, loc, ty):
        self._loc, self._ty = loc, ty

    @property
    def term(self):
        return self._loc.get()

    def _k(self, k):
        kt = Str.unwrap(k)
        c = _ctx.cur()
        if c.spec_mode == 0 and not z3.is_var(kt):
            c.note_term(kt)
        return kt

    # -- raw views for clauses
    def has(self, k):
        return mk_bool(z3.Select(self._ty.dt.dom(self.term), Str.unwrap(k)))

    def rank(self, k):
        return mk_num(z3.Select(self._ty.dt.rank(self.term), Str.unwrap(k)))

    @property
    def lo(self):
        return mk_num(self._ty.dt.lo(self.term))

    @property
    def hi(self):
        return mk_num(self._ty.dt.hi(self.term))

    def __sym_contains__(self, k):
        return z3.Select(self._ty.dt.dom(self.term), Str.unwrap(k))

    def __contains__(self, k):
        return _ctx.cur().branch(z3.Select(self._ty.dt.dom(self.term), self._k(k)))

    def __sym_len__(self):
        self._ty.assume_wf(self.term)
        return mk_num(self._ty.dt.size(self.term))

    def __len__(self):
        t = z3.simplify(self._ty.dt.size(self.term))
        if z3.is_int_value(t):
            return t.as_long()
        raise OutOfReach("len() of symbolic deque through the C API")

    def __bool__(self):
        self._ty.assume_wf(self.term)
        return _ctx.cur().branch(self._ty.dt.size(self.term) != 0)

    def _add(self, k, left):
        c = _ctx.cur()
        kt = self._k(k)
        m = self.term
        dt = self._ty.dt
        c.oblige(f"unique:{self._ty.label}.{'appendleft' if left else 'append'}-keeps-duplicate-free",
                 mk_bool(z3.Not(z3.Select(dt.dom(m), kt))), kind="callsite")
        r = dt.lo(m) - 1 if left else dt.hi(m)
        self._loc.set(z3.simplify(dt.mk(z3.Store(dt.dom(m), kt, z3.BoolVal(True)), z3.Store(dt.rank(m), kt, r),
                                        dt.size(m) + 1, r if left else dt.lo(m), dt.hi(m) if left else r + 1)))

    def append(self, k):
        self._add(k, False)

    def appendleft(self, k):
        self._add(k, True)

    def remove(self, k):
        c = _ctx.cur()
        kt = self._k(k)
        m = self.term
        dt = self._ty.dt
        if not c.branch(z3.Select(dt.dom(m), kt), site="remove"):
            raise ValueError("deque.remove(x): x not in deque (symbolic)")
        self._loc.set(z3.simplify(dt.mk(z3.Store(dt.dom(m), kt, z3.BoolVal(False)), dt.rank(m), dt.size(m) - 1,
                                        dt.lo(m), dt.hi(m))))

    def _head(self):
        c = _ctx.cur()
        self._ty.assume_wf(self.term)
        m = self.term
        dt = self._ty.dt
        if not c.branch(dt.size(m) > 0, site="idx"):
            raise IndexError("deque index out of range (symbolic)")
        h = c.fresh("head", z3.StringSort())
        c.assume(z3.Select(dt.dom(m), h))
        dom, rank = dt.dom(m), dt.rank(m)
        c.assume_value(forall(Str, lambda k: mk_bool(z3.Implies(z3.Select(dom, k.t), z3.Select(rank, h) <= z3.Select(rank, k.t)))))
        c.note_term(h)
        return h

    def __getitem__(self, i):
        if isinstance(i, int) and not isinstance(i, bool) and i == 0:
            return Str.wrap(self._head())
        raise OutOfReach("UDeque: only q[0] is modelled")

    def popleft(self):
        h = Str.wrap(self._head())
        self.remove(h)
        return h

    def __iter__(self):
        raise OutOfReach("iteration over a UDeque")

    __hash__ = None

    def __repr__(self):
        return f"UDeque({self.term})"


STATE = EnumTy(MessageState)
PENDING = UDeque("pending")


def state_is(msg, member):
    return mk_bool(field_term(msg, "state") == STATE.unwrap(member))


# ============================================================================ A. MessageQueue
MSGMAP = Map(Str, Ref(Message))
IDSET = Set(Str)

cls(Message, fields={"id": Str, "payload": Ref(Event), "created_at": TIME, "state": STATE, "delivery_count": Int,
                     "last_delivered_at": Opt(TIME), "consumer": OptRef(Entity)},
    ghost={"g_seq": Int},
    inv=[("count-nonneg", lambda o: o.delivery_count >= 0)])
cls(DeadLetterQueue, fields={"_capacity": Opt(Int), "_retention_period": Opt(Real), "_messages": Seq(Ref(Message)),
                             "_message_times": Seq(TIME), "_messages_received": Int, "_messages_reprocessed": Int,
                             "_messages_discarded": Int})


def mref(d, k):
    """raw reference stored under key k of a Map(Str, Ref(Message)) (no fork)"""
    kt = k.t if hasattr(k, "t") else z3.StringVal(k)
    return z3.Select(MSGMAP.dt.val(d.term), kt)


def msg_at(d, k):
    return ObjProxy(mref(d, k), Message, getattr(d._loc, "frozen", None))


def m_count(d, k):
    return mk_num(field_term(msg_at(d, k), "delivery_count"))


def m_seq(d, k):
    return mk_num(field_term(msg_at(d, k), "g_seq"))


def pend(o, k):
    return o._pending_queue.has(k)


class QV:
    """raw z3 views of a MessageQueue in the state `o` looks at (captured once per clause, so quantifier
    bodies are pure term builders: cheap to instantiate and fixed to that state)"""

    def __init__(self, o):
        c = _ctx.cur()
        fz = o._frozen
        ref = o._ref

        def fld(owner, name, ty):
            return z3.Select(c.heap.array((owner, name), ty, fz), ref)

        def arr(owner, name, ty):
            return c.heap.array((owner, name), ty, fz)
        m, f, p = fld("MessageQueue", "_messages", MSGMAP), fld("MessageQueue", "_in_flight", MSGMAP), \
            fld("MessageQueue", "_pending_queue", PENDING)
        self.M, self.Mv = MSGMAP.dt.dom(m), MSGMAP.dt.val(m)
        self.F, self.Fv = MSGMAP.dt.dom(f), MSGMAP.dt.val(f)
        self.P, self.R = PENDING.dt.dom(p), PENDING.dt.rank(p)
        self.lo, self.hi, self.psize = PENDING.dt.lo(p), PENDING.dt.hi(p), PENDING.dt.size(p)
        self.issued = IDSET.dt.dom(fld("MessageQueue", "g_issued", IDSET))
        self.acked = IDSET.dt.dom(fld("MessageQueue", "g_acked", IDSET))
        self.dead = IDSET.dt.dom(fld("MessageQueue", "g_dead", IDSET))
        self.sched = IDSET.dt.dom(fld("MessageQueue", "_redelivery_scheduled", IDSET))
        self.next_seq = fld("MessageQueue", "g_next_seq", Int)
        self.A_id, self.A_cnt, self.A_seq = arr("Message", "id", Str), arr("Message", "delivery_count", Int), \
            arr("Message", "g_seq", Int)

    def cnt(self, k):
        return self.A_cnt[self.Mv[k]]

    def seq(self, k):
        return self.A_seq[self.Mv[k]]


def _kt(k):
    return k.t if hasattr(k, "t") else z3.StringVal(k)


def _inv_partition(o):
    v = QV(o)
    return forall(Str, lambda k: mk_bool(z3.And(
        z3.Implies(v.P[k.t], z3.And(v.M[k.t], z3.Not(v.F[k.t]))),                       # pending: live, not in flight
        z3.Implies(v.F[k.t], z3.And(v.M[k.t], v.Fv[k.t] == v.Mv[k.t])),                 # in flight: live, same object
        z3.Implies(v.M[k.t], z3.Or(v.P[k.t], v.F[k.t])))))                              # live: pending or in flight


def _inv_fields(o):
    v = QV(o)
    alloc = _ctx.cur().heap.alloc       # typing: stored references denote allocated objects
    return mk_bool(v.lo <= v.hi) & forall(Str, lambda k: mk_bool(z3.And(
        z3.Implies(v.M[k.t], z3.And(v.Mv[k.t] >= 1, v.Mv[k.t] <= alloc)),
        z3.Implies(v.M[k.t], z3.And(v.A_id[v.Mv[k.t]] == k.t, v.cnt(k.t) >= 0, v.seq(k.t) < v.next_seq)),
        z3.Implies(v.F[k.t], v.cnt(k.t) >= 1),                                          # in flight => delivered at least once
        z3.Implies(v.P[k.t], z3.And(v.lo <= v.R[k.t], v.R[k.t] < v.hi)))))              # pending ranks inside the window


def _inv_accounting(o):
    v = QV(o)
    return forall(Str, lambda k: mk_bool(z3.And(
        v.issued[k.t] == z3.Or(v.M[k.t], v.acked[k.t], v.dead[k.t]),
        z3.Implies(z3.Or(v.acked[k.t], v.dead[k.t]), z3.Not(v.M[k.t])),
        z3.Not(z3.And(v.acked[k.t], v.dead[k.t])))))


def _inv_order(o):
    v = QV(o)
    return forall(Str, lambda a: forall(Str, lambda b: mk_bool(z3.And(
        z3.Implies(z3.And(v.M[a.t], v.M[b.t], a.t != b.t), v.seq(a.t) != v.seq(b.t)),
        z3.Implies(z3.And(v.P[a.t], v.P[b.t], v.cnt(a.t) == 0, v.cnt(b.t) == 0, v.seq(a.t) < v.seq(b.t)),
                   v.R[a.t] < v.R[b.t])))))


def _src_has(func, text):
    """source test for clauses that need a repair from /verif/fixes (until it is applied the registered check stays green)"""
    import inspect
    try:
        return text in inspect.getsource(func)
    except (OSError, TypeError):
        return False


# fixes/C19_redelivery-timer-double-delivers-after-poll.diff: a delivery clears the message's pending redelivery request and
# the redelivery timer skips a message that a poll already redelivered.  Without it ONE visibility timeout followed by a poll
# gives TWO redeliveries (the second while the message is in flight at another consumer): triage/c19_redelivery_double.py
C19_TIMER_FIX = _src_has(MessageQueue._deliver_message, "_redelivery_scheduled.discard")


def _inv_scheduled(o):
    v = QV(o)
    return forall(Str, lambda k: mk_bool(z3.Implies(v.sched[k.t], v.P[k.t])))


MQ_INV = [
    # `messages` keys = pending (+) in_flight (disjoint; the pending deque is duplicate free by its type)
    ("state-partition:live=pending+in-flight", _inv_partition),
    ("live-messages:keyed-by-id,counts,ranks-in-window", _inv_fields),
    # the four states partition the issued ids: issued = live + acknowledged + dead
    ("issued=live+acked+dead", _inv_accounting),
    # first deliveries follow publish order: never-delivered messages sit in the pending queue in publish order
    ("undelivered-pending-in-publish-order", _inv_order),
    ("limits", lambda o: (o._max_redeliveries >= 0) & (o._redelivery_delay > 0)),
    ("counters-nonneg", lambda o: (o._consumer_index >= 0) & (o._messages_published >= 0)),
]
if C19_TIMER_FIX:
    # a redelivery request waits for its timer only while the message is pending: an in-flight message never carries a stale
    # request flag, so a consumer's redelivery request for it cannot be swallowed as `already scheduled`
    MQ_INV.append(("redelivery-request-waits-only-for-a-pending-message", _inv_scheduled))

cls(MessageQueue, fields={
    "_delivery_latency": Real, "_redelivery_delay": Real, "_max_redeliveries": Int, "_capacity": Opt(Int),
    "_dead_letter_queue": OptRef(DeadLetterQueue), "_messages": MSGMAP, "_pending_queue": PENDING,
    "_in_flight": MSGMAP, "_consumers": Seq(Ref(Entity)), "_consumer_index": Int, "_redelivery_scheduled": IDSET,
    "_messages_published": Int, "_messages_delivered": Int, "_messages_acknowledged": Int, "_messages_rejected": Int,
    "_messages_redelivered": Int, "_messages_dead_lettered": Int, "_delivery_latencies": Seq(Real)},
    ghost={"g_issued": IDSET, "g_acked": IDSET, "g_dead": IDSET, "g_next_seq": Int},
    const=["_delivery_latency", "_redelivery_delay", "_max_redeliveries", "_capacity", "_dead_letter_queue"],
    inv=MQ_INV)


def _fresh_id(q, mid):
    """trusted: uuid4 returns an id this queue never issued"""
    assume(Not(contains(q.g_issued, mid)))


_mq_mod._c19_fresh_id = _fresh_id


class _UuidShim:
    @staticmethod
    def uuid4():
        if not _ctx.active():
            import uuid
            return uuid.uuid4()
        v = Str.fresh("uuid4")
        _ctx.cur().ghost_args["c19_uuid"] = v
        return v


_mq_mod.uuid = _UuidShim


class _TruthyStr(SymStr):
    """a symbolic str known to be non-empty (truth test without a string-length constraint)"""
    __slots__ = ()

    def __bool__(self):
        return True


def _opt_str(name):
    """context value typed `str | None`: None stands for absent and for the empty string (the handlers treat
    both alike: `if message_id:`), otherwise an arbitrary non-empty string"""
    c = _ctx.cur()
    if c.branch(c.fresh(name + "_absent", z3.BoolSort()), site="ctx:" + name):
        return None
    return _TruthyStr(c.fresh(name, z3.StringSort()))


_mq_mod._c19_opt_str = _opt_str


def last_uuid():
    """the id the uuid4 shim handed out on this path (ghost)"""
    return _ctx.cur().ghost_args.get("c19_uuid")

MSG_FRAME = ("_messages", "_pending_queue", "_in_flight", "g_issued", "g_acked", "g_dead")

fn(MessageQueue, "subscribe", args={"consumer": Ref(Entity)}, ensures=[
    ("subscribed", lambda s: contains(s.self._consumers, s.consumer)),
    ("others-kept", lambda s: forall(Ref(Entity), lambda e: implies(
        contains(s.old(s.self)._consumers, e), contains(s.self._consumers, e)))),
    ("nobody-else-added", lambda s: forall(Ref(Entity), lambda e: implies(
        contains(s.self._consumers, e), contains(s.old(s.self)._consumers, e) | same(e, s.consumer)))),
    ("messages-untouched", lambda s: unchanged(s, s.self, *MSG_FRAME))])

def picked_round_robin(q_old, q_new, consumer):
    """consumer is q.consumers[w] with w = (index before the call) mod (number of consumers): a subscribed
    consumer (explicit position witness instead of a Contains term - cheaper for the solver)"""
    sq = seq_term(q_new._consumers)
    n = z3.Length(sq)
    idx = num(q_old._consumer_index)
    w = idx - n * z3.If(n > 0, idx / n, (-idx) / (-n))       # Python's idx % n, as the code computes it
    return mk_bool(z3.And(n > 0, w >= 0, w < n, sq[w] == consumer._ref))


NEXT_CONSUMER = [
    ("none-iff-no-consumers", lambda s: iff(s.result is None, slen(s.self._consumers) == 0)),
    ("is-a-subscribed-consumer-round-robin", lambda s: True if s.result is None else
        picked_round_robin(s.old(s.self), s.self, s.result)),
    ("index-advances", lambda s: s.self._consumer_index == s.old(s.self)._consumer_index + (0 if s.result is None else 1)),
    ("messages-untouched", lambda s: unchanged(s, s.self, "_consumers", *MSG_FRAME))]
fn(MessageQueue, "_get_next_consumer", returns=OptRef(Entity), modifies=["_consumer_index"], ensures=NEXT_CONSUMER)


# ---- acknowledge / reject / schedule_redelivery -------------------------------------------
def _others_untouched(s, mid):
    """every other id keeps its place: liveness, object, pending rank, in-flight status, accounting"""
    o, n = QV(s.old(s.self)), QV(s.self)
    m = _kt(mid)
    return forall(Str, lambda k: mk_bool(z3.Implies(k.t != m, z3.And(
        n.M[k.t] == o.M[k.t], n.Mv[k.t] == o.Mv[k.t], n.F[k.t] == o.F[k.t], n.P[k.t] == o.P[k.t],
        n.R[k.t] == o.R[k.t], n.acked[k.t] == o.acked[k.t], n.dead[k.t] == o.dead[k.t]))))


fn(MessageQueue, "acknowledge", args={"message_id": Str}, ensures=[
    ("live-message-becomes-acknowledged", lambda s: implies(
        contains(s.old(s.self)._messages, s.message_id), contains(s.self.g_acked, s.message_id))),
    ("gone-from-every-queue", lambda s: Not(contains(s.self._messages, s.message_id))
        & Not(contains(s.self._in_flight, s.message_id)) & Not(pend(s.self, s.message_id))),
    ("unknown-id-is-a-no-op", lambda s: implies(
        Not(contains(s.old(s.self)._messages, s.message_id)), unchanged(s, s.self))),
    ("counted-once", lambda s: s.self._messages_acknowledged == s.old(s.self)._messages_acknowledged
        + ite(contains(s.old(s.self)._messages, s.message_id), 1, 0)),
    ("others-untouched", lambda s: _others_untouched(s, s.message_id)),
    ("no-redelivery-left-scheduled", lambda s: Not(contains(s.self._redelivery_scheduled, s.message_id))
        | Not(contains(s.old(s.self)._messages, s.message_id)))])


# ---- the dead-letter queue (callee of reject) -----------------------------------------------
cls(DeadLetterQueue, inv=[
    ("parallel-deques", lambda o: slen(o._messages) == slen(o._message_times)),
    ("capacity-shape", lambda o: True if o._capacity is None else o._capacity >= 0),
    ("counters-nonneg", lambda o: (o._messages_received >= 0) & (o._messages_discarded >= 0) & (o._messages_reprocessed >= 0))])


def _last_is(sq, obj):
    t = seq_term(sq)
    return mk_bool(z3.And(z3.Length(t) >= 1, t[z3.Length(t) - 1] == obj._ref))


def _dlq_received(s, dlq, message):
    """`message` was handed to the DLQ exactly once: it is the newest entry, the entries before it are a
    suffix of the old content (retention/capacity only ever drop the oldest)"""
    old = s.old(dlq)
    t, t0 = seq_term(dlq._messages), seq_term(old._messages)
    kept = z3.Length(t) - 1
    return _last_is(dlq._messages, message) & mk_bool(z3.And(
        kept <= z3.Length(t0), z3.Extract(t, 0, kept) == z3.Extract(t0, z3.Length(t0) - kept, kept))) \
        & (dlq._messages_received == old._messages_received + 1)


DLQ_ADD = dict(args={"message": Ref(Message)}, returns=Bool,
               modifies=["_messages", "_message_times", "_messages_received", "_messages_discarded"],
               ensures=[
    ("accepted", lambda s: s.result == True),  # noqa: E712
    ("deques-stay-parallel", lambda s: slen(s.self._messages) == slen(s.self._message_times)),
    ("received-exactly-once-as-newest", lambda s: _dlq_received(s, s.self, s.message)),
    ("stamped-now", lambda s: mk_bool(seq_term(s.self._message_times)[z3.Length(seq_term(s.self._message_times)) - 1]
                                      == TIME.unwrap(s.self._clock._current_time))),
    ("within-capacity", lambda s: True if s.self._capacity is None else
        implies(s.self._capacity >= 1, slen(s.self._messages) <= s.self._capacity) | (slen(s.old(s.self)._messages) > s.self._capacity)),
    ("discards-counted", lambda s: s.self._messages_discarded - s.old(s.self)._messages_discarded
        == slen(s.old(s.self)._messages) + 1 - slen(s.self._messages)),
    ("message-itself-untouched", lambda s: unchanged(s, s.message))])
fn(DeadLetterQueue, "add_message", **DLQ_ADD)

fn(DeadLetterQueue, "_cleanup_expired", ensures=[
    ("drops-only-an-oldest-prefix", lambda s: _is_suffix(s.self._messages, s.old(s.self)._messages)
        & _is_suffix(s.self._message_times, s.old(s.self)._message_times)),
    ("dropped-are-counted", lambda s: s.self._messages_discarded - s.old(s.self)._messages_discarded
        == slen(s.old(s.self)._messages) - slen(s.self._messages)),
    ("no-retention-no-effect", lambda s: True if s.self._retention_period is not None else unchanged(s, s.self))])

fn(DeadLetterQueue, "pop", ensures=[
    ("empty-gives-none", lambda s: implies(slen(s.old(s.self)._messages) == 0, (s.result is None) and unchanged(s, s.self))),
    ("returns-oldest", lambda s: implies(slen(s.old(s.self)._messages) > 0, (s.result is not None) and mk_bool(
        seq_term(s.old(s.self)._messages) == z3.Concat(z3.Unit(s.result._ref), seq_term(s.self._messages))))),
    ("times-follow", lambda s: implies(slen(s.old(s.self)._messages) > 0, mk_bool(
        seq_term(s.self._message_times) == z3.Extract(seq_term(s.old(s.self)._message_times), 1,
                                                      z3.Length(seq_term(s.old(s.self)._message_times)) - 1))))])


# ---- reject / schedule_redelivery -------------------------------------------------------------
def _dead_lettered(s, mid):
    """the message left the queue as `dead`; when a DLQ is configured it received the message exactly once"""
    o, n = s.old(s.self), s.self
    msg = msg_at(o._messages, mid)
    ok = contains(n.g_dead, mid) & Not(contains(n._messages, mid)) & Not(contains(n._in_flight, mid)) & Not(pend(n, mid))
    dlq = n._dead_letter_queue
    if dlq is None:
        return ok & (n._messages_dead_lettered == o._messages_dead_lettered)
    return ok & _dlq_received(s, dlq, msg) & (n._messages_dead_lettered == o._messages_dead_lettered + 1)


def _requeued_at_tail(s, mid):
    o, n = s.old(s.self), s.self
    return (pend(n, mid) & contains(n._messages, mid) & Not(contains(n._in_flight, mid))
            & mk_bool(mref(n._messages, mid) == mref(o._messages, mid))
            & forall(Str, lambda k: implies(pend(n, k) & (k != mid), n._pending_queue.rank(k) < n._pending_queue.rank(mid)))
            & Not(contains(n.g_dead, mid)))


def _reject_post(s):
    o = s.old(s.self)
    mid = s.message_id
    live = contains(o._messages, mid)
    again = s.requeue & (m_count(o._messages, mid) < o._max_redeliveries)
    return (implies(live & again, _requeued_at_tail(s, mid))
            & implies(live & Not(again), _dead_lettered(s, mid)))


def _delivered_once(s):
    return implies(contains(s.self._messages, s.message_id), m_count(s.self._messages, s.message_id) >= 1)


def _dlq_focus(s):
    d = s.self._dead_letter_queue
    return [] if d is None else [d]


fn(MessageQueue, "reject", args={"message_id": Str, "requeue": Bool},
   requires=[("only-received-messages-are-rejected", _delivered_once)],
   uses=[(DeadLetterQueue, "add_message")], focus=_dlq_focus,
   ensures=[
    ("requeued-below-the-limit-else-dead-lettered-once", _reject_post),
    ("unknown-id-is-a-no-op", lambda s: implies(Not(contains(s.old(s.self)._messages, s.message_id)), unchanged(s, s.self))),
    ("acknowledged-stays-acknowledged", lambda s: implies(contains(s.old(s.self).g_acked, s.message_id), unchanged(s, s.self))),
    ("counted-once", lambda s: s.self._messages_rejected == s.old(s.self)._messages_rejected
        + ite(contains(s.old(s.self)._messages, s.message_id), 1, 0)),
    ("others-untouched", lambda s: _others_untouched(s, s.message_id))])


def ctx_val(e, key):
    """raw value stored under `key` in an event's context"""
    m = field_term(e, "context")
    mt = Map(Str, Any)
    return z3.Select(mt.dt.val(m), z3.StringVal(key)), z3.Select(mt.dt.dom(m), z3.StringVal(key))


def ctx_is(e, key, value):
    v, has = ctx_val(e, key)
    return mk_bool(z3.And(has, v == Any.unwrap(value)))


def _redelivery_post(s):
    o, n = s.old(s.self), s.self
    mid = s.message_id
    flying = contains(o._in_flight, mid)
    sched = contains(o._redelivery_scheduled, mid)
    if s.result is None:
        # nothing scheduled: not in flight / already scheduled (state untouched) or limit reached (dead-lettered)
        exhausted = flying & Not(sched) & (m_count(o._messages, mid) >= o._max_redeliveries)
        return implies(Not(exhausted), unchanged(s, s.self)) & implies(exhausted, _dead_lettered(s, mid))
    e = s.result
    return (flying & Not(sched) & (m_count(o._messages, mid) < o._max_redeliveries)
            & same(e.target, s.self) & (e.event_type == "message_redelivery") & ctx_is(e, "message_id", mid)
            & (ns(e.time) >= now_ns(s.self)) & Not(e._cancelled)
            & contains(n._redelivery_scheduled, mid)
            # back at the FRONT of the pending queue, same message object, no longer in flight
            & pend(n, mid) & Not(contains(n._in_flight, mid)) & contains(n._messages, mid)
            & mk_bool(mref(n._messages, mid) == mref(o._messages, mid))
            & forall(Str, lambda k: implies(pend(n, k) & (k != mid), n._pending_queue.rank(mid) < n._pending_queue.rank(k))))


fn(MessageQueue, "schedule_redelivery", args={"message_id": Str},
   uses=[(DeadLetterQueue, "add_message")], focus=_dlq_focus,
   ensures=[
    ("redelivery-below-the-limit-else-dead-lettered-once", _redelivery_post),
    ("acknowledged-is-never-rescheduled", lambda s: implies(
        contains(s.old(s.self).g_acked, s.message_id), (s.result is None) and unchanged(s, s.self))),
    ("others-untouched", lambda s: _others_untouched(s, s.message_id))]
   + ([("every-requested-redelivery-of-an-in-flight-message-below-the-limit-is-scheduled", lambda s: True if s.result is not None
        else Not(contains(s.old(s.self)._in_flight, s.message_id)
                 & (m_count(s.old(s.self)._messages, s.message_id) < s.old(s.self)._max_redeliveries)))] if C19_TIMER_FIX else []))


# ---- publish / deliver / poll / handle_event (generators) -------------------------------------
def _published_at_tail(s, y):
    o, n = QV(s.old(s.self)), QV(s.self)
    mid = last_uuid()
    if mid is None:
        return False
    k0 = mid.t
    s._c19_new_id = mid
    msg = ObjProxy(n.Mv[k0], Message)
    return (mk_bool(z3.And(z3.Not(o.issued[k0]), n.issued[k0], n.M[k0], n.P[k0], z3.Not(n.F[k0]),
                           n.cnt(k0) == 0, n.seq(k0) == o.next_seq, n.next_seq == o.next_seq + 1))
            & mk_bool(field_term(msg, "payload") == s.message._ref)
            & forall(Str, lambda k: mk_bool(z3.Implies(z3.And(n.P[k.t], k.t != k0), n.R[k.t] < n.R[k0]))))


fn(MessageQueue, "publish", args={"message": Ref(Event)},
   yields=Yields(at_yield=[
       ("delay-nonneg", lambda s, y: y >= 0),
       ("new-message-is-live-pending-at-the-tail-never-delivered", _published_at_tail),
       ("others-untouched", lambda s, y: _others_untouched(s, last_uuid())),
       ("published-counted", lambda s, y: s.self._messages_published == s.old(s.self)._messages_published + 1),
       ("capacity-respected", lambda s, y: True if s.self._capacity is None else slen(s.old(s.self)._messages) < s.self._capacity)]),
   ensures=[("returns-the-new-id", lambda s: s.result == s._c19_new_id)],
   raises={RuntimeError: [
       ("only-when-full", lambda s: False if s.self._capacity is None else slen(s.old(s.self)._messages) >= s.self._capacity),
       ("nothing-published", lambda s: unchanged(s, s.self))]})


def _decided(s, y, mid):
    """the delivery decision (the atomic segment before the latency): the message becomes in flight at a
    subscribed consumer picked round-robin; its delivery count goes up by one"""
    o, n = QV(s.old(s.self)), QV(s.self)
    k0 = _kt(mid)
    msg = ObjProxy(n.Mv[k0], Message)
    s._c19_consumer = field_term(msg, "consumer")
    s._c19_now = now_ns(s.self)
    cons = ObjProxy(field_term(msg, "consumer"), Entity)
    return (mk_bool(z3.And(o.M[k0], z3.Not(o.acked[k0]), z3.Not(o.dead[k0]), n.M[k0], n.F[k0], z3.Not(n.P[k0]),
                           n.Mv[k0] == o.Mv[k0], n.Fv[k0] == n.Mv[k0], n.cnt(k0) == o.cnt(k0) + 1,
                           field_term(msg, "consumer") != 0))
            & picked_round_robin(s.old(s.self), s.self, cons)
            & mk_bool(field_term(msg, "last_delivered_at") == Opt(TIME).unwrap(s.self._clock._current_time)))


def _delivery_event(s, mid=None):
    """the returned delivery: addressed to the consumer chosen at the decision, stamped with the clock at the
    hand-over (an event stamped earlier than `now` is discarded by the engine: C07), carrying the id"""
    e = s.result
    if e is None:
        return True
    ok = (mk_bool(field_term(e, "target") == s._c19_consumer) & (e.event_type == "message_delivery")
          & (ns(e.time) == now_ns(s.self)) & Not(e._cancelled))
    if mid is not None:
        ok = ok & ctx_is(e, "message_id", mid)
    return ok


DELIVER_STATS = ("counts-first-delivery-or-redelivery", lambda s, y:
                 (s.self._messages_delivered + s.self._messages_redelivered
                  == s.old(s.self)._messages_delivered + s.old(s.self)._messages_redelivered + 1))

fn(MessageQueue, "_deliver_message", args={"message_id": Str},
   uses=[(MessageQueue, "_get_next_consumer")],
   yields=Yields(at_yield=[
       ("latency-is-the-configured-one", lambda s, y: y == s.self._delivery_latency),
       ("in-flight-at-a-subscribed-consumer", lambda s, y: _decided(s, y, s.message_id)),
       ("others-untouched", lambda s, y: _others_untouched(s, s.message_id)),
       DELIVER_STATS]),
   ensures=[
    ("none-iff-not-live-or-no-consumer", lambda s: iff(s.result is None,
        Not(contains(s.old(s.self)._messages, s.message_id)) | (slen(s.old(s.self)._consumers) == 0))),
    ("no-delivery-no-effect", lambda s: True if s.result is not None else unchanged(s, s.self, "_consumers", *MSG_FRAME)),
    ("acknowledged-is-never-delivered-again", lambda s: implies(contains(s.old(s.self).g_acked, s.message_id), s.result is None)),
    ("dead-lettered-is-never-delivered-again", lambda s: implies(contains(s.old(s.self).g_dead, s.message_id), s.result is None)),
    ("delivery-reaches-the-chosen-consumer-stamped-now", lambda s: _delivery_event(s, s.message_id))])


def _newly_in_flight(o, n, d):
    return z3.And(n.F[d], z3.Or(z3.Not(o.F[d]), n.cnt(d) != o.cnt(d)))


def _poll_first_delivery_order(s, y):
    o, n = QV(s.old(s.self)), QV(s.self)
    return forall(Str, lambda d: forall(Str, lambda k: mk_bool(z3.Implies(
        z3.And(_newly_in_flight(o, n, d.t), n.cnt(d.t) == 1, n.M[k.t], n.cnt(k.t) == 0), n.seq(d.t) < n.seq(k.t)))))


def _poll_takes_head(s, y):
    o, n = QV(s.old(s.self)), QV(s.self)
    return forall(Str, lambda d: forall(Str, lambda k: mk_bool(z3.Implies(
        z3.And(_newly_in_flight(o, n, d.t), o.P[k.t]), z3.And(o.P[d.t], o.R[d.t] <= o.R[k.t])))))


def _poll_one(s, y):
    o, n = QV(s.old(s.self)), QV(s.self)
    return forall(Str, lambda d: forall(Str, lambda k: mk_bool(z3.Implies(
        z3.And(_newly_in_flight(o, n, d.t), _newly_in_flight(o, n, k.t)), d.t == k.t))))


def _poll_decided(s, y):
    """whatever became in flight did so at a subscribed consumer (round robin), was live and unacknowledged"""
    o, n = QV(s.old(s.self)), QV(s.self)

    def body(d):
        msg = ObjProxy(n.Mv[d.t], Message)
        cons = ObjProxy(field_term(msg, "consumer"), Entity)
        return implies(mk_bool(_newly_in_flight(o, n, d.t)),
                       mk_bool(z3.And(o.M[d.t], z3.Not(o.acked[d.t]), z3.Not(n.P[d.t]), n.cnt(d.t) == o.cnt(d.t) + 1))
                       & picked_round_robin(s.old(s.self), s.self, cons))
    return forall(Str, body)


def _stash_consumer(s, y):
    """remember (ghost) the consumer of the message that became in flight in this segment"""
    o, n = QV(s.old(s.self)), QV(s.self)
    c = _ctx.cur()
    d = c.fresh("c19_delivered", z3.StringSort())
    c.note_term(d)
    s._c19_consumer = z3.If(_newly_in_flight(o, n, d), field_term(ObjProxy(n.Mv[d], Message), "consumer"), z3.IntVal(-1))
    s._c19_d = d
    return True


fn(MessageQueue, "poll",
   yields=Yields(at_yield=[
       ("first-delivery-follows-publish-order", _poll_first_delivery_order),
       ("delivers-the-head-of-the-pending-queue", _poll_takes_head),
       ("at-most-one-message-per-poll", _poll_one),
       ("in-flight-at-a-subscribed-consumer-live-unacknowledged", _poll_decided),
       ("nothing-pending-or-no-consumer-delivers-nothing", lambda s, y: implies(
           (slen(s.old(s.self)._pending_queue) == 0) | (slen(s.old(s.self)._consumers) == 0),
           unchanged(s, s.self, "_consumers", *MSG_FRAME)))]),
   ensures=[
    ("none-iff-nothing-pending-or-no-consumer", lambda s: iff(s.result is None,
        (slen(s.old(s.self)._pending_queue) == 0) | (slen(s.old(s.self)._consumers) == 0))),
    ("delivery-stamped-now-type-ok", lambda s: True if s.result is None else
        (s.result.event_type == "message_delivery") & (ns(s.result.time) == now_ns(s.self)) & Not(s.result._cancelled))])


def _handle_result_shape(s):
    r = s.result
    if len(r) == 0:
        return True
    if len(r) != 1:
        return False
    e = r[0]
    return (e.event_type == "message_delivery") & (ns(e.time) == now_ns(s.self)) & Not(e._cancelled)


def _nothing_acked_is_delivered(s, y):
    o, n = QV(s.old(s.self)), QV(s.self)
    return forall(Str, lambda d: mk_bool(z3.Implies(_newly_in_flight(o, n, d.t), z3.And(
        o.M[d.t], z3.Not(o.acked[d.t]), z3.Not(o.dead[d.t]), n.cnt(d.t) == o.cnt(d.t) + 1))))


def _only_pending_is_delivered(s, y):
    o, n = QV(s.old(s.self)), QV(s.self)
    return forall(Str, lambda d: mk_bool(z3.Implies(_newly_in_flight(o, n, d.t), z3.And(o.P[d.t], z3.Not(o.F[d.t])))))


fn(MessageQueue, "handle_event", args={"event": Ref(Event)},
   yields=Yields(at_yield=[
       ("only-live-unacknowledged-messages-are-delivered", _nothing_acked_is_delivered),
       ("at-most-one-message-per-event", _poll_one)]
       # a message is handed to ONE consumer at a time: neither a poll nor the redelivery timer delivers a message that is
       # in flight (needs fixes/C19_redelivery-timer-double-delivers-after-poll.diff)
       + ([("only-a-pending-message-is-delivered-never-one-in-flight", _only_pending_is_delivered)] if C19_TIMER_FIX else [])),
   ensures=[
    ("at-most-one-delivery-stamped-now", _handle_result_shape),
    ("other-events-ignored", lambda s: implies(
        (s.old(s.event).event_type != "poll") & (s.old(s.event).event_type != "message_redelivery"),
        (len(s.result) == 0) and unchanged(s, s.self)))])


# ============================================================================ C. Topic
import happysimulator.components.messaging.topic as _topic_mod  # noqa: E402
from happysimulator.components.messaging.topic import Topic, Subscription  # noqa: E402

PROPERTY["assumptions"] += [
    "Topic: message retention/replay (set_retain_messages) and the max_subscribers limit are not configured "
    "(_retain_messages is False, _max_subscribers is None): the bounded deque(maxlen) history and the generator-expression "
    "subscriber count are outside the modelled fragment",
]

SUBMAP = Map(Ref(Entity), Ref(Subscription), ordered=True)
cls(Subscription, fields={"subscriber": Ref(Entity), "subscribed_at": TIME, "messages_received": Int, "active": Bool})


class TV:
    """raw views of a Topic in the state `o` looks at"""

    def __init__(self, o):
        c = _ctx.cur()
        fz = o._frozen
        m = z3.Select(c.heap.array(("Topic", "_subscriptions"), SUBMAP, fz), o._ref)
        self.D, self.V, self.K = SUBMAP.dt.dom(m), SUBMAP.dt.val(m), SUBMAP.dt.keys(m)
        self.n = z3.Length(self.K)
        self.size = SUBMAP.dt.size(m)
        self.A_sub = c.heap.array(("Subscription", "subscriber"), Ref(Entity), fz)
        self.A_act = c.heap.array(("Subscription", "active"), Bool, fz)
        self.A_rcv = c.heap.array(("Subscription", "messages_received"), Int, fz)
        self.delivered = z3.Select(c.heap.array(("Topic", "_messages_delivered"), Int, fz), o._ref)

    def sub(self, j):
        """the subscription object of the j-th key"""
        return self.V[self.K[j]]


def _topic_inv(o):
    v = TV(o)
    alloc = _ctx.cur().heap.alloc
    return (mk_bool(v.n == v.size)
            & forall(Int, lambda j: mk_bool(z3.Implies(z3.And(j.t >= 0, j.t < v.n), z3.And(
                v.D[v.K[j.t]], v.sub(j.t) >= 1, v.sub(j.t) <= alloc, v.A_sub[v.sub(j.t)] == v.K[j.t]))))
            & forall(Int, lambda a: forall(Int, lambda b: mk_bool(z3.Implies(
                z3.And(a.t >= 0, a.t < b.t, b.t < v.n), v.K[a.t] != v.K[b.t]))))
            & forall(Int, lambda e: mk_bool(z3.Implies(v.D[e.t], z3.And(
                v.V[e.t] >= 1, v.V[e.t] <= alloc, v.A_sub[v.V[e.t]] == e.t)))))


cls(Topic, fields={"_delivery_latency": Real, "_max_subscribers": Opt(Int), "_subscriptions": SUBMAP,
                   "_message_history": Seq(Ref(Event)), "_retain_messages": Bool, "_messages_published": Int,
                   "_messages_delivered": Int, "_subscribers_added": Int, "_subscribers_removed": Int,
                   "_delivery_latencies": Seq(Real)},
    const=["_delivery_latency", "_max_subscribers"],
    inv=[("subscriptions-keyed-by-their-subscriber-keys-distinct", _topic_inv),
         ("latency-nonneg", lambda o: o._delivery_latency >= 0)])

TOPIC_CFG = [("no-retention", lambda s: Not(s.self._retain_messages)), ("no-subscriber-limit", lambda s: s.self._max_subscribers is None)]


def _other_subs_same(s, who):
    o, n = TV(s.old(s.self)), TV(s.self)
    return forall(Int, lambda e: mk_bool(z3.Implies(z3.And(e.t != who._ref, o.D[e.t]), z3.And(
        n.D[e.t], n.V[e.t] == o.V[e.t], n.A_act[n.V[e.t]] == o.A_act[o.V[e.t]], n.A_rcv[n.V[e.t]] == o.A_rcv[o.V[e.t]]))))


fn(Topic, "subscribe", args={"subscriber": Ref(Entity), "replay_history": Bool}, requires=TOPIC_CFG, ensures=[
    ("subscribed-and-active", lambda s: mk_bool(z3.And(
        TV(s.self).D[s.subscriber._ref], TV(s.self).A_act[TV(s.self).V[s.subscriber._ref]]))),
    ("other-subscriptions-untouched", lambda s: _other_subs_same(s, s.subscriber)),
    ("nobody-else-subscribed", lambda s: forall(Int, lambda e: mk_bool(z3.Implies(
        z3.And(TV(s.self).D[e.t], e.t != s.subscriber._ref), TV(s.old(s.self)).D[e.t])))),
    ("no-replay-without-retention", lambda s: len(s.result) == 0)])

fn(Topic, "unsubscribe", args={"subscriber": Ref(Entity)}, ensures=[
    ("no-longer-active", lambda s: mk_bool(z3.Implies(
        TV(s.self).D[s.subscriber._ref], z3.Not(TV(s.self).A_act[TV(s.self).V[s.subscriber._ref]])))),
    ("other-subscriptions-untouched", lambda s: _other_subs_same(s, s.subscriber)),
    ("keys-kept", lambda s: mk_bool(TV(s.self).D == TV(s.old(s.self)).D))])


def _lst(x):
    """z3 sequence of a list local that is a Python list before the loop cut and a SymList afterwards"""
    if isinstance(x, SymList):
        return x.term
    return Seq(Ref(Event)).unwrap(x)


def _sync_inv(L):
    o, n = TV(L.old(L.self)), TV(L.self)
    i = num(L.i)
    evs = _lst(L.delivery_events)
    return (forall(Int, lambda j: mk_bool(z3.Implies(z3.And(j.t >= 0, j.t < n.n), n.A_rcv[n.sub(j.t)] == o.A_rcv[n.sub(j.t)]
                                                     + z3.If(z3.And(j.t < i, n.A_act[n.sub(j.t)]), 1, 0))))
            & mk_bool(z3.Length(evs) == n.delivered - o.delivered))


def _sync_events(L_or_s, events, topic=None):
    """every emitted event is a topic delivery stamped `now`, addressed to an ACTIVE subscriber"""
    me = topic if topic is not None else L_or_s.self
    n = TV(me)
    c = _ctx.cur()
    evs = _lst(events)
    A_t, A_ty = c.heap.array(("Event", "time"), TIME), c.heap.array(("Event", "event_type"), Str)
    A_tg, A_c = c.heap.array(("Event", "target"), Ref(Entity)), c.heap.array(("Event", "_cancelled"), Bool)
    now = TIME.unwrap(me._clock._current_time)
    return forall(Int, lambda m: mk_bool(z3.Implies(z3.And(m.t >= 0, m.t < z3.Length(evs)), z3.And(
        A_t[evs[m.t]] == now, A_ty[evs[m.t]] == z3.StringVal("topic_message"), z3.Not(A_c[evs[m.t]]),
        n.D[A_tg[evs[m.t]]], n.A_act[n.V[A_tg[evs[m.t]]]]))))


def _sync_post(s):
    o, n = TV(s.old(s.self)), TV(s.self)
    return forall(Int, lambda j: mk_bool(z3.Implies(z3.And(j.t >= 0, j.t < n.n), n.A_rcv[n.sub(j.t)] == o.A_rcv[n.sub(j.t)]
                                                    + z3.If(n.A_act[n.sub(j.t)], 1, 0))))


fn(Topic, "publish_sync", args={"message": Ref(Event)}, requires=TOPIC_CFG, ensures=[
    ("every-active-subscription-receives-exactly-once", _sync_post),
    ("one-event-per-delivery", lambda s: slen(s.result) == s.self._messages_delivered - s.old(s.self)._messages_delivered),
    ("events-reach-active-subscribers-stamped-now", lambda s: _sync_events(s, s.result)),
    ("published-counted", lambda s: s.self._messages_published == s.old(s.self)._messages_published + 1),
    ("subscriptions-kept", lambda s: unchanged(s, s.self, "_subscriptions"))])


# ============================================================================ D. EventLog
import happysimulator.components.streaming.event_log as _log_mod  # noqa: E402
from happysimulator.components.streaming.event_log import EventLog, Partition, Record, SizeRetention  # noqa: E402
from happysimulator.components.datastore.sharded_store import HashSharding  # noqa: E402
from pyvc.extern import _uf  # noqa: E402

PROPERTY["trusted"] += ["hashlib.md5: deterministic function of its input (uninterpreted), pyvc/extern.py",
                        "definition part_of(key, n) := md5(key) % n (a fresh function symbol, introduced while proving "
                        "EventLog._get_partition_for_key and used opaquely by its callers)"]
PROPERTY["assumptions"] += [
    "EventLog: the sharding strategy is the default HashSharding; the retention policy is None or a SizeRetention "
    "(TimeRetention filters with a conditional comprehension, outside the modelled fragment)",
]

RECORD = valueclass("Record", [Record], [("offset", Int), ("key", Str), ("value", Any), ("timestamp", Real), ("partition", Int)])


def _partition_offsets(p):
    """offsets within a partition are gap free and increasing between the retention low mark and the high watermark"""
    c = _ctx.cur()
    fz = p._frozen
    recs = z3.Select(c.heap.array(("Partition", "records"), Seq(RECORD), fz), p._ref)
    hw = z3.Select(c.heap.array(("Partition", "high_watermark"), Int, fz), p._ref)
    pid = z3.Select(c.heap.array(("Partition", "id"), Int, fz), p._ref)
    R = RECORD.dt
    low = hw - z3.Length(recs)
    return mk_bool(low >= 0) & forall(Int, lambda j: mk_bool(z3.Implies(
        z3.And(j.t >= 0, j.t < z3.Length(recs)), z3.And(R.offset(recs[j.t]) == low + j.t, R.partition(recs[j.t]) == pid))))


cls(Partition, fields={"id": Int, "records": Seq(RECORD), "high_watermark": Int},
    inv=[("offsets-gap-free-from-low-mark-to-high-watermark", _partition_offsets)])
cls(HashSharding, fields={})
cls(SizeRetention, fields={"_max_records": Int}, inv=[("positive", lambda o: o._max_records >= 1)])


class LV:
    """raw views of an EventLog in the state `o` looks at"""

    def __init__(self, o):
        c = _ctx.cur()
        fz = o._frozen
        self.parts = z3.Select(c.heap.array(("EventLog", "_partitions"), Seq(Ref(Partition)), fz), o._ref)
        self.n = z3.Select(c.heap.array(("EventLog", "_num_partitions"), Int, fz), o._ref)
        self.A_id = c.heap.array(("Partition", "id"), Int, fz)
        self.A_rec = c.heap.array(("Partition", "records"), Seq(RECORD), fz)
        self.A_hw = c.heap.array(("Partition", "high_watermark"), Int, fz)

    def rec(self, i):
        return self.A_rec[self.parts[i]]

    def hw(self, i):
        return self.A_hw[self.parts[i]]

    def low(self, i):
        """retention low mark of partition i: offset of its oldest retained record"""
        return self.hw(i) - z3.Length(self.rec(i))


def _log_shape(o):
    v = LV(o)
    alloc = _ctx.cur().heap.alloc
    return mk_bool(z3.And(z3.Length(v.parts) == v.n, v.n >= 1)) & forall(Int, lambda i: mk_bool(z3.Implies(
        z3.And(i.t >= 0, i.t < v.n), z3.And(v.parts[i.t] >= 1, v.parts[i.t] <= alloc, v.A_id[v.parts[i.t]] == i.t,
                                            v.low(i.t) >= 0))))


cls(EventLog, fields={"_num_partitions": Int, "_sharding": Ref(HashSharding), "_retention_policy": OptRef(SizeRetention),
                      "_append_latency": Real, "_read_latency": Real, "_retention_check_interval": Real,
                      "_partitions": Seq(Ref(Partition)), "_retention_scheduled": Bool, "_records_appended": Int,
                      "_records_read": Int, "_records_expired": Int, "_per_partition_appends": Map(Int, Int),
                      "_append_latencies": Seq(Real)},
    const=["_num_partitions", "_sharding", "_retention_policy", "_partitions"],
    inv=[("one-partition-object-per-id", _log_shape)])


def _part_focus(pid_of):
    """the partition object the call works on is a focus object: its invariant (gap-free offsets) is assumed at
    entry and is an obligation at exit; the other partitions are framed (`others unchanged` clauses)"""
    def f(s):
        return [ObjProxy(LV(s.self).parts[pid_of(s)], Partition)]
    return f


def key_hash(key):
    """the uninterpreted md5 value the hashlib shim uses (a function of the key only)"""
    return _uf("hash_md5", z3.StringSort(), z3.IntSort())(_kt(key))


def shard_of(key, n):
    h = key_hash(key)
    nn = num(n)
    return h - nn * z3.If(nn > 0, h / nn, (-h) / (-nn))          # Python's h % n as the code computes it


def part_of(key, n):
    """partition of a key: an opaque function of (key, number of partitions), DEFINED as md5(key) % n by the
    definitional precondition of _get_partition_for_key (conservative: part_of occurs nowhere else unconstrained).
    Callers reason with the opaque symbol, which keeps their obligations linear."""
    return _uf("c19_part_of", z3.StringSort(), z3.IntSort(), z3.IntSort())(_kt(key), num(n))


fn(EventLog, "_get_partition_for_key", args={"key": Str}, returns=Int, modifies=[],
   setup=lambda s: (assume(mk_bool(part_of(s.key, s.self._num_partitions) == shard_of(s.key, s.self._num_partitions))), [])[1],
   ensures=[
    ("in-range", lambda s: (s.result >= 0) & (s.result < s.self._num_partitions)),
    ("function-of-key-and-partition-count-only", lambda s: mk_bool(num(s.result) == part_of(s.key, s.self._num_partitions))),
    ("pure", lambda s: unchanged(s, s.self))])


def _append_post(s):
    o, n = LV(s.old(s.self)), LV(s.self)
    r = RECORD.unwrap(s.result)
    R = RECORD.dt
    pid = part_of(s.key, s.self._num_partitions)
    return (mk_bool(z3.And(R.offset(r) == o.hw(pid), n.hw(pid) == o.hw(pid) + 1,
                           n.rec(pid) == z3.Concat(o.rec(pid), z3.Unit(r)),
                           R.partition(r) == pid, R.key(r) == _kt(s.key), R.value(r) == s.value.t))
            & forall(Int, lambda i: mk_bool(z3.Implies(z3.And(i.t >= 0, i.t < n.n, i.t != pid),
                                                       z3.And(n.rec(i.t) == o.rec(i.t), n.hw(i.t) == o.hw(i.t))))))


fn(EventLog, "_do_append", args={"key": Str, "value": Any},
   focus=_part_focus(lambda s: part_of(s.key, s.self._num_partitions)), uses=[(EventLog, "_get_partition_for_key")],
   ensures=[
    ("appended-at-the-high-watermark-of-the-keys-partition", _append_post),
    ("counted", lambda s: s.self._records_appended == s.old(s.self)._records_appended + 1)])


def _vmin(a, b):
    return z3.If(a <= b, a, b)


# (EventLog._do_read and the Poll branch of ConsumerGroup.handle_event - offset order for readers - are covered by the bounded
#  stand-in `log-reads-in-offset-order-each-record-to-one-member`: a loop invariant over the re-boxed Record values took z3
#  minutes per obligation, far beyond the budget of this check)
# ---- retention: only the oldest records of a partition go; offsets already handed out are never reused ----------------
def _retained(new_recs, old_recs, keep_max):
    """new == the newest min(len(old), keep_max) records of old (a suffix: only a prefix was dropped)"""
    keep = _vmin(z3.Length(old_recs), keep_max)
    return z3.And(z3.Length(new_recs) == keep, new_recs == z3.Extract(old_recs, z3.Length(old_recs) - keep, keep))


def _retention_inv(L):
    o, n = LV(L.old(L.self)), LV(L.self)
    mx = field_term(L.self._retention_policy, "_max_records")
    i = num(L.i)
    return (forall(Int, lambda j: mk_bool(z3.Implies(z3.And(j.t >= 0, j.t < n.n), z3.And(n.hw(j.t) == o.hw(j.t), z3.If(
        j.t < i, _retained(n.rec(j.t), o.rec(j.t), mx), n.rec(j.t) == o.rec(j.t))))))
        & (L.total_expired >= 0))


def _retention_post(s):
    o, n = LV(s.old(s.self)), LV(s.self)
    pol = s.self._retention_policy
    if pol is None:
        return unchanged(s, s.self) & forall(Int, lambda j: mk_bool(z3.Implies(z3.And(j.t >= 0, j.t < n.n), n.rec(j.t) == o.rec(j.t))))
    mx = field_term(pol, "_max_records")
    return forall(Int, lambda j: mk_bool(z3.Implies(z3.And(j.t >= 0, j.t < n.n), z3.And(
        _retained(n.rec(j.t), o.rec(j.t), mx), n.hw(j.t) == o.hw(j.t)))))


fn(EventLog, "_apply_retention", returns=Int,
   focus=lambda s: [] if s.self._retention_policy is None else [s.self._retention_policy], ensures=[
    ("every-partition-keeps-its-newest-records-only-a-prefix-is-dropped-high-watermark-kept", _retention_post),
    ("expired-counted", lambda s: (s.result >= 0) & (s.self._records_expired == s.old(s.self)._records_expired + s.result)),
    ("appends-untouched", lambda s: unchanged(s, s.self, "_records_appended", "_per_partition_appends", "_retention_scheduled"))])


def _lemma_retention_keeps_offsets():
    """dropping a prefix of a gap-free run that ends at the high watermark leaves a gap-free run ending at the same high
    watermark: the Partition invariant survives retention, and a later append continues at the old high watermark"""
    off0, off1 = z3.Function("r_off0", z3.IntSort(), z3.IntSort()), z3.Function("r_off1", z3.IntSort(), z3.IntSort())
    hw, n0, keep, j = z3.Ints("r_hw r_n0 r_keep r_j")
    assume(z3.And(n0 >= 0, keep >= 0, keep <= n0, hw - n0 >= 0))
    assume(z3.ForAll([j], z3.Implies(z3.And(j >= 0, j < n0), off0(j) == hw - n0 + j)))            # invariant before
    assume(z3.ForAll([j], z3.Implies(z3.And(j >= 0, j < keep), off1(j) == off0(n0 - keep + j))))  # suffix of length keep
    a = z3.Int("r_a")
    oblige("kept-records-are-gap-free-up-to-the-same-high-watermark",
           z3.And(hw - keep >= 0, z3.Implies(z3.And(a >= 0, a < keep), off1(a) == hw - keep + a)))


lemma("retention-preserves-gap-free-offsets", _lemma_retention_keeps_offsets)



# ============================================================================ E. ConsumerGroup
import happysimulator.components.streaming.consumer_group as _cg_mod  # noqa: E402
from happysimulator.components.streaming.consumer_group import (ConsumerGroup, RangeAssignment, RoundRobinAssignment,  # noqa: E402
                                                                StickyAssignment)

PROPERTY["assumptions"] += [
    "ConsumerGroup: event context entries have the types the handler expects (consumer_name: str, consumer_entity: Entity, "
    "offsets: dict[int, int], reply_future: a SimFuture whose resolve() does not touch the group); the handler runs on a typed "
    "view of the event (ghost statement at entry)",
    "ConsumerGroup._rebalance relies on the PartitionAssignment interface contract `assign returns a partition of the "
    "partitions over exactly the given consumers` (stub_of RangeAssignment.assign); the three shipped strategies are checked "
    "against it by the bounded stand-in `assignment-strategies-partition` (exhaustive up to 7 partitions x 5 consumers), not proved",
    "list(range(n)) is the sequence 0..n-1 and sorted(d.keys()) a duplicate-free sequence with exactly the keys of d "
    "(models patched into consumer_group's globals by specs/C19.py)",
    "the Poll branch of ConsumerGroup.handle_event and EventLog._do_read are not under a deductive contract (requires event_type "
    "!= 'Poll'); they are exercised by the bounded stand-ins `log-reads-in-offset-order-each-record-to-one-member` and "
    "`group-membership-changes-leave-no-partition-unowned` only",
    "MessageQueue.unsubscribe is covered by the bounded stand-in `queue-redelivery-path-end-to-end` only (list.remove over a "
    "symbolic sequence: IndexOf/Extract goals that z3 does not decide within the budget)",
    "EventLog._apply_retention is proved for SizeRetention (and no policy); the high-watermark/offset consequences follow by the "
    "lemma retention-preserves-gap-free-offsets from the per-partition suffix clause (the Partition objects are not focus objects there)",
    "PartitionAssignment interface contract, second half: the keys of the result are exactly the given consumers also for an "
    "EMPTY consumer list (nobody left => nobody owns anything); checked for the three shipped strategies by the same bounded stand-in",
    "ConsumerGroup.join/leave/poll/commit: the SimFuture() they create is replaced by an identity-only stand-in while they are "
    "verified (SimFuture itself is under contract in C02); the value the engine sends back at `yield reply` is arbitrary",
]

OFFSETS = Map(Int, Int)
ASSIGN = Map(Str, Seq(Int))
cls(RangeAssignment, fields={})
cls(ConsumerGroup, fields={"_event_log": Ref(EventLog), "_strategy": Ref(RangeAssignment), "_rebalance_delay": Real,
                           "_poll_latency": Real, "_session_timeout": Opt(Real), "_consumers": Map(Str, Ref(Entity), ordered=True),
                           "_assignments": ASSIGN, "_committed_offsets": Map(Str, OFFSETS), "_generation": Int,
                           "_joins": Int, "_leaves": Int, "_rebalances": Int, "_polls": Int, "_commits": Int,
                           "_records_polled": Int},
    const=["_event_log", "_strategy", "_rebalance_delay", "_poll_latency"],
    guarantee=[("generation-never-decreases", lambda old, new: new._generation >= old._generation)])


def _is_partition(assign_term, n_parts, members_dom):
    """`assign` maps exactly the members to lists that together hold every partition 0..n-1 exactly once"""
    A = ASSIGN.dt
    dom, val = A.dom(assign_term), A.val(assign_term)
    c, c2 = z3.String("pc"), z3.String("pc2")
    p, i, j = z3.Int("pp"), z3.Int("pi"), z3.Int("pj")
    owner = _uf("c19_owner", ASSIGN.sort(), z3.IntSort(), z3.StringSort())
    return z3.And(
        # exactly the members have an entry (pointwise; `members_dom`: z3 String term -> Bool term)
        z3.ForAll([c2], z3.Select(dom, c2) == members_dom(c2)),
        # every partition has an owner that is a member and lists it
        z3.ForAll([p], z3.Implies(z3.And(p >= 0, p < n_parts), z3.And(
            z3.Select(dom, owner(assign_term, p)), z3.Contains(z3.Select(val, owner(assign_term, p)), z3.Unit(p))))),
        # only valid partitions are listed, and only by their one owner, once
        z3.ForAll([c, i], z3.Implies(z3.And(z3.Select(dom, c), i >= 0, i < z3.Length(z3.Select(val, c))), z3.And(
            z3.Select(val, c)[i] >= 0, z3.Select(val, c)[i] < n_parts, owner(assign_term, z3.Select(val, c)[i]) == c))),
        z3.ForAll([c, i, j], z3.Implies(z3.And(z3.Select(dom, c), i >= 0, i < j, j < z3.Length(z3.Select(val, c))),
                                         z3.Select(val, c)[i] != z3.Select(val, c)[j])))


def _assign_contract(s):
    parts, cons = seq_term(s.partitions), seq_term(s.consumers)
    A = ASSIGN.dt
    k = z3.String("ak")

    def members(x):
        return z3.Contains(cons, z3.Unit(x))
    n = z3.Length(parts)
    # (keys == consumers also for an empty consumer list: nobody owns anything)
    return mk_bool(z3.And(z3.ForAll([k], z3.Select(A.dom(s.result.term), k) == members(k)),
                          z3.Implies(z3.Length(cons) > 0, _is_partition(s.result.term, n, members))))


stub_of(RangeAssignment, "assign", args={"partitions": Seq(Int), "consumers": Seq(Str)}, returns=ASSIGN, modifies=[],
        requires=[("partitions-are-0..n-1", lambda s: forall(Int, lambda i: mk_bool(z3.Implies(
            z3.And(i.t >= 0, i.t < z3.Length(seq_term(s.partitions))), seq_term(s.partitions)[i.t] == i.t))))],
        ensures=[("result-is-a-partition-of-the-partitions-over-the-consumers", _assign_contract)])


def _cg_list(x=()):
    """list(range(n)) with symbolic n: the sequence 0..n-1 (model)"""
    if _ctx.active() and type(x).__name__ == "_SymRange":
        c = _ctx.cur()
        n = num(x.hi)
        out = c.fresh("range_list", z3.SeqSort(z3.IntSort()))
        c.assume(z3.Length(out) == z3.If(n > 0, n, 0))
        i = z3.Int("rl_i")
        c.assume(z3.ForAll([i], z3.Implies(z3.And(i >= 0, i < z3.Length(out)), out[i] == i)))
        return SymList(Box(out), Int)
    return _cg_rt_list(x)


def _cg_sorted(x, **kw):
    """sorted(d.keys()) over a symbolic dict: a duplicate-free sequence holding exactly the keys (model)"""
    if _ctx.active() and isinstance(x, SymList) and not kw and not z3.is_int_value(z3.simplify(x._len())):
        c = _ctx.cur()
        out = c.fresh("sorted_keys", z3.SeqSort(z3.StringSort()))
        k = z3.String("sk_k")
        c.assume(z3.Length(out) == x._len())
        c.assume(z3.ForAll([k], z3.Contains(out, z3.Unit(k)) == z3.Contains(x.term, z3.Unit(k))))
        return SymList(Box(out), Str)
    return _cg_rt_sorted(x, **kw)


_cg_rt_list, _cg_rt_sorted = _cg_mod.list, _cg_mod.sorted
_cg_mod.list, _cg_mod.sorted = _cg_list, _cg_sorted


class _Reply:
    """stand-in for a SimFuture taken from an event context: records the resolved value (ghost)"""

    def resolve(self, value=None):
        _ctx.cur().ghost_args["c19_reply"] = value


class _TypedCtx:
    def __init__(self):
        self.vals = {}

    def get(self, key, default=None):
        if key not in self.vals:
            ty = {"consumer_name": Str, "consumer_entity": Ref(Entity), "offsets": OFFSETS, "max_records": Int}.get(key)
            if key == "reply_future":
                self.vals[key] = _Reply()
            elif ty is None:
                raise OutOfReach(f"untyped context key {key}")
            else:
                self.vals[key] = ty.fresh("ctx_" + key)
        return self.vals[key]


class _TypedEvent:
    def __init__(self, ev):
        self._ev = ev
        self.context = _TypedCtx()

    @property
    def event_type(self):
        return self._ev.event_type


def _typed_event(ev):
    te = _TypedEvent(ev)
    _ctx.cur().ghost_args["c19_event"] = te
    return te


_cg_mod._c19_typed_event = _typed_event


def cg_ctx(key):
    """the typed context value the handler read on this path (ghost)"""
    te = _ctx.cur().ghost_args.get("c19_event")
    return None if te is None else te.context.vals.get(key)


def committed_view(cg, c, p):
    """committed offset of (consumer c, partition p); 0 when nothing was committed (what consumer_lag / Poll read)"""
    ctx = _ctx.cur()
    outer = z3.Select(ctx.heap.array(("ConsumerGroup", "_committed_offsets"), Map(Str, OFFSETS), cg._frozen), cg._ref)
    M = Map(Str, OFFSETS).dt
    inner = z3.Select(M.val(outer), c)
    return z3.If(z3.And(z3.Select(M.dom(outer), c), z3.Select(OFFSETS.dt.dom(inner), p)), z3.Select(OFFSETS.dt.val(inner), p), 0)


def _vmax(a, b):
    return z3.If(a >= b, a, b)


def _commit_inv(L):
    me, old = L.self, L.old(L.self)
    name = L.consumer_name.t if hasattr(L.consumer_name, "t") else z3.StringVal(L.consumer_name)
    offs = L.offsets.term
    visited = L.visited.arr
    outer = z3.Select(_ctx.cur().heap.array(("ConsumerGroup", "_committed_offsets"), Map(Str, OFFSETS)), me._ref)
    return (mk_bool(z3.Select(Map(Str, OFFSETS).dt.dom(outer), name))
            & forall(Str, lambda c: forall(Int, lambda p: mk_bool(z3.And(
                committed_view(me, c.t, p.t) >= committed_view(old, c.t, p.t),
                z3.Implies(c.t != name, committed_view(me, c.t, p.t) == committed_view(old, c.t, p.t)),
                z3.Implies(z3.And(c.t == name, z3.Select(visited, p.t)), committed_view(me, c.t, p.t) == _vmax(
                    committed_view(old, c.t, p.t), z3.Select(OFFSETS.dt.val(offs), p.t))),
                z3.Implies(z3.And(c.t == name, z3.Not(z3.Select(visited, p.t))),
                           committed_view(me, c.t, p.t) == committed_view(old, c.t, p.t)))))))


def _commit_post(s):
    if s.old(s.event).event_type != "Commit":
        return True
    name, offs = cg_ctx("consumer_name"), cg_ctx("offsets")
    me, old = s.self, s.old(s.self)
    return forall(Str, lambda c: forall(Int, lambda p: mk_bool(z3.And(
        committed_view(me, c.t, p.t) >= committed_view(old, c.t, p.t),                        # never backwards
        z3.Implies(c.t != name.t, committed_view(me, c.t, p.t) == committed_view(old, c.t, p.t)),
        z3.Implies(z3.And(c.t == name.t, z3.Select(OFFSETS.dt.dom(offs.term), p.t)),            # forward commits take effect
                   committed_view(me, c.t, p.t) == _vmax(committed_view(old, c.t, p.t), z3.Select(OFFSETS.dt.val(offs.term), p.t)))))))


def _members_dom(cg):
    m = z3.Select(_ctx.cur().heap.array(("ConsumerGroup", "_consumers"), Map(Str, Ref(Entity), ordered=True), cg._frozen), cg._ref)
    return Map(Str, Ref(Entity), ordered=True).dt.dom(m)


def _cg_wf(s):
    """dict bookkeeping of the ordered members map: its key sequence lists exactly its keys (model fact)"""
    mt = Map(Str, Ref(Entity), ordered=True)
    m = z3.Select(_ctx.cur().heap.array(("ConsumerGroup", "_consumers"), mt), s.self._ref)
    k = z3.String("wf_k")
    return mk_bool(z3.ForAll([k], z3.Select(mt.dt.dom(m), k) == z3.Contains(mt.dt.keys(m), z3.Unit(k))))


def _rebalanced(s, before):
    """after a rebalance every partition belongs to exactly one CURRENT member; the generation went up"""
    me = s.self
    a = z3.Select(_ctx.cur().heap.array(("ConsumerGroup", "_assignments"), ASSIGN), me._ref)
    n = z3.Select(_ctx.cur().heap.array(("EventLog", "_num_partitions"), Int), me._event_log._ref)
    nonempty = slen(me._consumers) > 0
    md = _members_dom(me)
    return ((me._generation == before._generation + 1)
            # only CURRENT members own anything (also when nobody is left): a member that left owns nothing
            & forall(Str, lambda k: mk_bool(z3.Select(ASSIGN.dt.dom(a), k.t) == z3.Select(md, k.t)))
            & mk_bool(z3.Implies(to_z3_bool(nonempty), _is_partition(a, z3.If(n > 0, n, 0), lambda k: z3.Select(md, k)))))


fn(ConsumerGroup, "_rebalance", uses=[(RangeAssignment, "assign")], modifies=["_generation", "_assignments", "_rebalances"],
   requires=[("members-map-bookkeeping", _cg_wf)],
   ensures=[
    ("generation-strictly-increases-and-every-partition-has-exactly-one-current-member", lambda s: _rebalanced(s, s.old(s.self))),
    ("counted", lambda s: s.self._rebalances == s.old(s.self)._rebalances + 1),
    ("members-and-offsets-untouched", lambda s: unchanged(s, s.self, "_consumers", "_committed_offsets"))])

def _membership_step(s, y):
    """the atomic segment before the rebalance delay: a Join makes exactly this consumer a member (with the given entity),
    a Leave removes exactly this consumer - and a member that left owns nothing from that instant on; every other member
    and every other assignment entry is untouched"""
    kind = s.old(s.event).event_type
    if kind not in ("Join", "Leave"):
        return True
    name = cg_ctx("consumer_name")
    MT = Map(Str, Ref(Entity), ordered=True).dt
    h = _ctx.cur().heap

    def maps(o):
        return (z3.Select(h.array(("ConsumerGroup", "_consumers"), Map(Str, Ref(Entity), ordered=True), o._frozen), o._ref),
                z3.Select(h.array(("ConsumerGroup", "_assignments"), ASSIGN, o._frozen), o._ref))
    (c1, a1), (c0, a0) = maps(s.self), maps(s.old(s.self))
    others = forall(Str, lambda k: mk_bool(z3.Implies(k.t != name.t, z3.And(
        z3.Select(MT.dom(c1), k.t) == z3.Select(MT.dom(c0), k.t),
        z3.Implies(z3.Select(MT.dom(c0), k.t), z3.Select(MT.val(c1), k.t) == z3.Select(MT.val(c0), k.t)),
        z3.Select(ASSIGN.dt.dom(a1), k.t) == z3.Select(ASSIGN.dt.dom(a0), k.t),
        z3.Select(ASSIGN.dt.val(a1), k.t) == z3.Select(ASSIGN.dt.val(a0), k.t)))))
    if kind == "Join":
        ent = cg_ctx("consumer_entity")
        return (others & mk_bool(z3.And(z3.Select(MT.dom(c1), name.t), z3.Select(MT.val(c1), name.t) == ent._ref))
                & unchanged(s, s.self, "_assignments") & (s.self._joins == s.old(s.self)._joins + 1))
    return (others & mk_bool(z3.And(z3.Not(z3.Select(MT.dom(c1), name.t)), z3.Not(z3.Select(ASSIGN.dt.dom(a1), name.t))))
            & (s.self._leaves == s.old(s.self)._leaves + 1))


fn(ConsumerGroup, "handle_event", args={"event": Ref(Event)}, uses=[(ConsumerGroup, "_rebalance")],
   requires=[("not-poll", lambda s: s.event.event_type != "Poll"), ("members-map-bookkeeping", _cg_wf)],
   yields=Yields(
       at_yield=[("delay-is-the-configured-rebalance-delay", lambda s, y: y == s.self._rebalance_delay),
                 ("join-adds-leave-removes-exactly-this-member-and-a-leaver-owns-nothing", _membership_step),
                 ("committed-untouched-by-join-leave", lambda s, y: forall(Str, lambda c: forall(Int, lambda p: mk_bool(
                     committed_view(s.self, c.t, p.t) == committed_view(s.old(s.self), c.t, p.t)))))],
       rely=[lambda s, b, y: _cg_wf(s)]),
   ensures=[
    ("commit-never-moves-an-offset-backwards", _commit_post),
    ("join-leave-rebalance-for-the-current-members", lambda s: True if s.old(s.event).event_type not in ("Join", "Leave")
        else _rebalanced(s, s.pre(s.self))),
    ("join-replies-with-the-members-assignment", lambda s: True if s.old(s.event).event_type != "Join" else _join_reply(s)),
    ("no-follow-up-events", lambda s: s.result is None)])


def _join_reply(s):
    rep = _ctx.cur().ghost_args.get("c19_reply")
    name = cg_ctx("consumer_name")
    a = s.self._assignments
    if isinstance(rep, list):
        return Not(contains(a, name)) if not rep else False
    return contains(a, name) & mk_bool(rep.term == z3.Select(ASSIGN.dt.val(a.term), name.t))


# ---- the public request generators join / leave / poll / commit ----------------------------------------------
# Each hands ONE request event to the group (stamped now, so the engine does not discard it - C07), carrying exactly the
# caller's arguments and the future it then waits on; the group's state is not touched by the request itself.
class _ApiFuture:
    """stand-in for the SimFuture() a request generator creates (identity only; SimFuture itself is under contract in C02)"""


_RealSimFuture = _cg_mod.SimFuture


def _new_future():
    if not _ctx.active():
        return _RealSimFuture()
    f = _ApiFuture()
    _ctx.cur().ghost_args["c19_future"] = f
    return f


_cg_mod.SimFuture = _new_future


_CG_STATE = (("_consumers", Map(Str, Ref(Entity), ordered=True)), ("_assignments", ASSIGN), ("_committed_offsets", Map(Str, OFFSETS)),
             ("_generation", Int), ("_joins", Int), ("_leaves", Int), ("_rebalances", Int), ("_polls", Int), ("_commits", Int),
             ("_records_polled", Int))


def _cg_same(now, view):
    """the group's mutable state equals the one in `view` (an s.pre / s.old view)"""
    h = _ctx.cur().heap
    return mk_bool(z3.And(*[z3.Select(h.array(("ConsumerGroup", f), ty), now._ref)
                            == z3.Select(h.array(("ConsumerGroup", f), ty, view._frozen), now._ref) for f, ty in _CG_STATE]))


def _request(kind, keys, reply=True):
    def clause(s, y):
        fut = _ctx.cur().ghost_args.get("c19_future")
        if isinstance(y, tuple):
            if len(y) != 2 or len(y[1]) != 1 or getattr(s, "_c19_requested", False):
                return False
            s._c19_requested = True
            e = y[1][0]
            ok = ((y[0] == 0.0) & same(e.target, s.self) & (e.event_type == kind) & (ns(e.time) == now_ns(s.self))
                  & Not(e._cancelled) & unchanged(s, s.self))
            for key in keys:
                ok = ok & ctx_is(e, key, getattr(s, key))
            if reply:
                ok = ok & ctx_is(e, "reply_future", fut)
            return ok
        # the second yield: wait for the reply of THIS request (the group as the other processes left it: s.pre)
        return reply and getattr(s, "_c19_requested", False) and (y is fut) and _cg_same(s.self, s.pre(s.self))
    return ("one-request-event-to-the-group-stamped-now-with-the-callers-arguments-then-wait-for-its-reply", clause)


def _sent_reply(ty):
    def resume(s, y):
        if isinstance(y, tuple):
            return None
        s._c19_sent = ty.fresh("reply_value")
        return s._c19_sent
    return resume


_REQUESTED = ("request-was-sent", lambda s: getattr(s, "_c19_requested", False))
fn(ConsumerGroup, "join", args={"consumer_name": Str, "consumer_entity": Ref(Entity)},
   yields=Yields(at_yield=[_request("Join", ("consumer_name", "consumer_entity"))], resume=_sent_reply(Seq(Int))),
   ensures=[_REQUESTED, ("returns-the-assignment-the-group-replied", lambda s: mk_bool(s.result.term == s._c19_sent.term))])
fn(ConsumerGroup, "leave", args={"consumer_name": Str},
   yields=Yields(at_yield=[_request("Leave", ("consumer_name",))], resume=_sent_reply(Any)), ensures=[_REQUESTED])
fn(ConsumerGroup, "poll", args={"consumer_name": Str, "max_records": Int},
   yields=Yields(at_yield=[_request("Poll", ("consumer_name", "max_records"))], resume=_sent_reply(Seq(RECORD))),
   ensures=[_REQUESTED, ("returns-the-records-the-group-replied", lambda s: mk_bool(s.result.term == s._c19_sent.term))])
fn(ConsumerGroup, "commit", args={"consumer_name": Str, "offsets": OFFSETS},
   yields=Yields(at_yield=[_request("Commit", ("consumer_name", "offsets"), reply=False)]), ensures=[_REQUESTED])



# ============================================================================ F. OutboxRelay / IdempotencyStore
import happysimulator.components.microservice.idempotency_store as _is_mod  # noqa: E402
from happysimulator.components.microservice.idempotency_store import IdempotencyStore, _CachedResponse  # noqa: E402
from happysimulator.components.microservice.outbox_relay import OutboxRelay, OutboxEntry  # noqa: E402

PROPERTY["assumptions"] += [
    "IdempotencyStore._forward is used through an ASSUMED contract (it records the key as in flight and emits the forwarded "
    "request; its `{**event.context}` dict unpacking is outside the modelled fragment); the key extractor is an arbitrary "
    "side-effect-free function returning a str or None",
    "OutboxRelay._handle_poll (conditional comprehension + yield in loop) is not under contract; the stale relay stamp found "
    "there is repaired by fixes/C07_outbox-relay-stamp.diff (property C07)",
]

cls(_CachedResponse, fields={"key": Str, "cached_at": TIME, "ttl": Real})
CACHE = Map(Str, Ref(_CachedResponse), ordered=True)
cls(IdempotencyStore, fields={"_target": Ref(Entity), "_key_extractor": Fn(Opt(Str), "key_extractor"), "_ttl": Real,
                              "_max_entries": Int, "_cleanup_interval": Real, "_cache": CACHE, "_in_flight": Set(Str),
                              "_total_requests": Int, "_cache_hits": Int, "_cache_misses": Int, "_entries_expired": Int,
                              "_entries_stored": Int},
    const=["_target", "_key_extractor", "_ttl", "_max_entries", "_cleanup_interval"],
    inv=[("config", lambda o: (o._max_entries >= 1) & (o._ttl > 0))])


def _fwd_key(s):
    """the key handed to _forward on this path (ghost call trace), or the marker 'no-call'"""
    for qn, vals, res in _ctx.cur().ghost_args.get("trace", []):
        if qn == "IdempotencyStore._forward":
            return vals["key"]
    return "no-call"


stub_of(IdempotencyStore, "_forward", args={"event": Ref(Event), "key": Opt(Str)}, returns=Seq(Ref(Event)),
        modifies=["_in_flight"], ensures=[
    lambda s: slen(s.result) >= 1,
    lambda s: unchanged(s, s.self, "_in_flight") if s.key is None else mk_bool(
        Set(Str).dt.dom(s.self._in_flight.term) == z3.Store(Set(Str).dt.dom(s.old(s.self)._in_flight.term), _kt(s.key), True))])


def _request_post(s):
    o, n = s.old(s.self), s.self
    k = _fwd_key(s)
    if isinstance(k, str) and k == "no-call":
        # suppressed duplicate: nothing forwarded, nothing changes but the hit counter
        return (s.result is None) and (unchanged(s, n, "_in_flight", "_cache") & (n._cache_hits == o._cache_hits + 1))
    if k is None:
        return s.result is not None                      # requests without a key are always forwarded
    # forwarded with a key: it was neither cached nor in flight, and is in flight now
    return (s.result is not None) and (Not(contains(o._cache, k)) & Not(contains(o._in_flight, k)) & contains(n._in_flight, k)
                                       & (n._cache_misses == o._cache_misses + 1))


fn(IdempotencyStore, "_handle_request", args={"event": Ref(Event)}, uses=[(IdempotencyStore, "_forward")], ensures=[
    ("a-key-is-forwarded-at-most-once-while-in-flight-or-cached", _request_post),
    ("counted", lambda s: s.self._total_requests == s.old(s.self)._total_requests + 1),
    ("cache-untouched", lambda s: unchanged(s, s.self, "_cache"))])


# ---- outbox: entries are numbered in write order, appended once, unrelayed ---------------------
cls(OutboxEntry, fields={"entry_id": Int, "payload": Map(Str, Any), "written_at": TIME, "relayed": Bool})
cls(OutboxRelay, fields={"_downstream": Ref(Entity), "_poll_interval": Real, "_batch_size": Int, "_relay_latency": Real,
                         "_entries": Seq(Ref(OutboxEntry)), "_next_entry_id": Int, "_poll_scheduled": Bool,
                         "_entries_written": Int, "_entries_relayed": Int, "_relay_failures": Int, "_poll_cycles": Int,
                         "_relay_lag_sum": Real, "_relay_lag_max": Real},
    const=["_downstream", "_poll_interval", "_batch_size", "_relay_latency"],
    inv=[("config", lambda o: (o._poll_interval > 0) & (o._batch_size >= 1) & (o._relay_latency >= 0))])


def _outbox_write_post(s):
    o, n = s.old(s.self), s.self
    t, t0 = seq_term(n._entries), seq_term(o._entries)
    last = ObjProxy(t[z3.Length(t) - 1], OutboxEntry)
    return (mk_bool(z3.And(z3.Length(t) == z3.Length(t0) + 1, z3.Extract(t, 0, z3.Length(t0)) == t0))
            & (s.result == o._next_entry_id + 1) & (n._next_entry_id == o._next_entry_id + 1)
            & mk_bool(field_term(last, "entry_id") == num(s.result)) & Not(mk_bool(field_term(last, "relayed")))
            & (n._entries_written == o._entries_written + 1))


fn(OutboxRelay, "write", args={"payload": Map(Str, Any)}, ensures=[
    ("appended-once-in-write-order-with-the-next-id-unrelayed", _outbox_write_post)])

fn(OutboxRelay, "_schedule_poll", ensures=[
    ("one-poll-in-the-future-addressed-to-self", lambda s: same(s.result.target, s.self) & (ns(s.result.time) >= now_ns(s.self))
        & s.result.daemon & Not(s.result._cancelled)),
    ("marked-scheduled", lambda s: s.self._poll_scheduled == True),  # noqa: E712
    ("entries-untouched", lambda s: unchanged(s, s.self, "_entries", "_next_entry_id"))])


# ============================================================================ bounded stand-ins (native, labelled bounded)
# They run the REAL code in a fresh plain CPython process (no PyVC loader, no proxies) against the tree under check.
_NATIVE_TOPIC = r"""
import sys, json, logging
sys.path.insert(0, sys.argv[1])
logging.disable(logging.CRITICAL)
from happysimulator import Simulation, Instant, Event, Entity
from happysimulator.components.messaging.topic import Topic

class Sink(Entity):
    def __init__(self, name):
        super().__init__(name)
        self.got = 0
    def handle_event(self, e):
        if e.event_type == "topic_message":
            self.got += 1

evals, viol = 0, []
for latency in (0.0, 0.01):
    for n in range(0, 5):
        for inactive in range(0, n + 1):
            subs = [Sink(f"s{i}") for i in range(n)]
            t = Topic("t", delivery_latency=latency)
            for x in subs:
                t.subscribe(x)
            for x in subs[:inactive]:
                t.unsubscribe(x)
            sim = Simulation(entities=subs + [t], end_time=Instant.from_seconds(5))
            sim.schedule(Event(time=Instant.from_seconds(0.5), event_type="publish", target=t,
                               context={"payload": Event(time=Instant.from_seconds(0.5), event_type="m", target=t)}))
            sim.run()
            evals += 1
            want = [0] * inactive + [1] * (n - inactive)
            got = [x.got for x in subs]
            if got != want:
                viol.append({"case": f"latency={latency} subscribers={n} unsubscribed={inactive}", "received": got, "expected": want})
print(json.dumps({"evaluations": evals, "violations": viol[:3]}))
"""

_NATIVE_ASSIGN = r"""
import sys, json, itertools
sys.path.insert(0, sys.argv[1])
from happysimulator.components.streaming.consumer_group import RangeAssignment, RoundRobinAssignment, StickyAssignment
evals, viol = 0, []
names = ["a", "b", "c", "d", "e"]

def check(kind, res, parts, cons):
    flat = sorted(p for v in res.values() for p in v)
    ok = sorted(res) == sorted(cons) and flat == sorted(parts)          # a partition of `parts` over exactly `cons`
    if ok and kind == "range":
        sizes = [len(res[c]) for c in sorted(cons)]
        ok = max(sizes) - min(sizes) <= 1 and all(v == list(range(v[0], v[0] + len(v))) for v in res.values() if v)
    if ok and kind in ("roundrobin", "sticky-fresh"):
        sizes = [len(v) for v in res.values()]
        ok = max(sizes) - min(sizes) <= 1
    return ok

for n in range(0, 8):
    parts = list(range(n))
    for kind, strat in (("range", RangeAssignment()), ("roundrobin", RoundRobinAssignment()), ("sticky", StickyAssignment())):
        evals += 1
        if strat.assign(list(parts), []) != {}:            # nobody left: nobody owns anything
            viol.append({"case": f"{kind} partitions={n} consumers=[]", "result": strat.assign(list(parts), [])})
    for k in range(1, 6):
        for cons in itertools.combinations(names, k):
            cons = list(cons)
            for kind, strat in (("range", RangeAssignment()), ("roundrobin", RoundRobinAssignment()), ("sticky-fresh", StickyAssignment())):
                res = strat.assign(list(parts), list(reversed(cons)))
                evals += 1
                if not check(kind, res, parts, cons):
                    viol.append({"case": f"{kind} partitions={n} consumers={cons}", "result": res})
for n in (1, 3, 6):                                # sticky across membership changes (join / leave orders)
    for seq in itertools.permutations(["a", "b", "c"], 3):
        st = StickyAssignment()
        members = []
        for step in list(seq) + ["-" + seq[0], "-" + seq[1]]:
            if step.startswith("-"):
                members.remove(step[1:])
            else:
                members.append(step)
            res = st.assign(list(range(n)), list(members))
            evals += 1
            if members and not check("sticky", res, list(range(n)), members):
                viol.append({"case": f"sticky partitions={n} steps={seq} at={step}", "result": res})
print(json.dumps({"evaluations": evals, "violations": viol[:3]}))
"""


def _run_native(script):
    import json
    import subprocess
    out = subprocess.run(["/venv/bin/python", "-c", script, _ctx.REPO], capture_output=True, text=True, timeout=240)
    if out.returncode != 0:
        raise RuntimeError("native stand-in failed: " + out.stderr[-600:])
    return json.loads(out.stdout.strip().splitlines()[-1])


PROPERTY["bounded"] = [
    {"name": "topic-publish-reaches-every-active-subscriber-once",
     "bound": "native run of Topic.publish under the engine: 0..4 subscribers, any prefix unsubscribed, delivery_latency in {0, 0.01}",
     "fn": lambda seed, tier: _run_native(_NATIVE_TOPIC)},
    {"name": "assignment-strategies-partition",
     "bound": "Range/RoundRobin/Sticky.assign: 0..7 partitions x every non-empty subset of 5 consumers; Sticky over all join orders of 3 members then two leaves",
     "fn": lambda seed, tier: _run_native(_NATIVE_ASSIGN)},
    # membership changes end to end (representation independent: it observes group.assignments / consumers / generation
    # only, so a change that adds fields to ConsumerGroup - outside the declared heap typing - is still decided here)
    {"name": "group-membership-changes-leave-no-partition-unowned",
     "bound": "native Simulation, public join/leave/poll API, rebalance_delay 0.5: `join a` then every 3-operation sequence over "
              "{join,leave} x {a,b} with gaps 0.2 s / 1.0 s (inside / outside the delay; includes Leave then Join of the same "
              "member within the delay) + three 3-member schedules; Range/RoundRobin/Sticky; 1 and 4 partitions; checked 0.01 s "
              "after every rebalance instant and at quiescence; then every appended record is polled by exactly one member in offset order",
     "fn": lambda seed, tier: run_native_script("triage/c19_group_membership.py")},
    # the queue's visibility-timeout / redelivery path end to end (delivery events really pass through the engine)
    {"name": "queue-redelivery-path-end-to-end",
     "bound": "native Simulation: 1-2 consumers x behaviours {ack, reject, drop, timeout->schedule_redelivery, late ack}, 1 or 3 messages, "
              "max_redeliveries {0,1,3}, with/without DLQ, latency {0, 0.01}, redelivery_delay {0.3, 2.0} (timer before / after the next "
              "poll), optional unsubscribe; polls every 0.5 s for 30 s; four-state accounting at quiescence, nothing after ack / "
              "unsubscribe, publish order, redelivery limit" + ("; strict: no delivery while in flight elsewhere" if C19_TIMER_FIX else ""),
     "fn": lambda seed, tier: run_native_script("triage/c19_queue_e2e.py", *(["--strict"] if C19_TIMER_FIX else []))},
    # readers: offset order per partition, each record to exactly one member (EventLog.read/_do_read/retention sweep,
    # ConsumerGroup Poll + Commit branches through the public generators)
    {"name": "log-reads-in-offset-order-each-record-to-one-member",
     "bound": "native Simulation: log with 1-3 partitions x {no retention, SizeRetention 2 / 5}, 12 appends, every read(partition, "
              "offset -1..hw+1, max 1/2/100); group of 2 members x 1/2/4 partitions x Range/RoundRobin/Sticky x max_records 2/100 x "
              "with/without a backwards commit after each forward commit, poll+commit rounds until drained",
     "fn": lambda seed, tier: run_native_script("triage/c19_log_reads.py")},
]


# ============================================================================ glue lemmas (contracts => property statement)
def _lemma_four_states():
    """MessageQueue invariants => every published id is in exactly one of pending / in flight / acknowledged / dead"""
    S = z3.ArraySort(z3.StringSort(), z3.BoolSort())
    issued, live, pending, flying, acked, dead = [z3.Const(n, S) for n in ("issued", "live", "pending", "flying", "acked", "dead")]
    k = z3.String("k")
    assume(z3.ForAll([k], z3.And(                                   # the class invariants, as sets
        z3.Implies(pending[k], z3.And(live[k], z3.Not(flying[k]))), z3.Implies(flying[k], live[k]),
        z3.Implies(live[k], z3.Or(pending[k], flying[k])),
        issued[k] == z3.Or(live[k], acked[k], dead[k]), z3.Implies(z3.Or(acked[k], dead[k]), z3.Not(live[k])),
        z3.Not(z3.And(acked[k], dead[k])))))
    x = z3.String("x")
    states = [pending[x], flying[x], acked[x], dead[x]]
    oblige("issued-id-is-in-some-state", z3.Implies(issued[x], z3.Or(*states)))
    oblige("never-in-two-states", z3.And(*[z3.Not(z3.And(a, b)) for i, a in enumerate(states) for b in states[i + 1:]]))
    oblige("only-issued-ids-have-a-state", z3.Implies(z3.Or(*states), issued[x]))


def _lemma_never_after_ack():
    """acknowledged ids stay acknowledged and undeliverable: induction step over any later operation.  Every contract
    keeps `acked => not live` (class invariant) and none removes an id from g_acked (others-untouched / frames), and
    _deliver_message on a non-live id returns None."""
    acked0, acked1, live1 = z3.Bools("acked0 acked1 live1")
    assume(z3.Implies(acked0, acked1))          # no operation removes from g_acked
    assume(z3.Implies(acked1, z3.Not(live1)))   # invariant after the operation
    delivered = z3.Bool("delivered")
    assume(z3.Implies(delivered, live1))        # _deliver_message: a delivery needs a live id
    oblige("acked-before-implies-not-delivered-after", z3.Implies(acked0, z3.Not(delivered)))


def _lemma_commit_chain():
    """per-commit `view' == max(view, offset)` => along any sequence of commits the committed offset never decreases"""
    a, b, c = z3.Ints("v0 o1 o2")
    v1 = z3.If(a >= b, a, b)
    v2 = z3.If(v1 >= c, v1, c)
    oblige("two-commits-never-below-the-first", z3.And(v1 >= a, v2 >= v1, v2 >= a))


def _lemma_same_key_same_partition():
    f = _uf("c19_part_of", z3.StringSort(), z3.IntSort(), z3.IntSort())
    k1, k2 = z3.Strings("k1 k2")
    n = z3.Int("n")
    oblige("equal-keys-land-in-the-same-partition", z3.Implies(k1 == k2, f(k1, n) == f(k2, n)))


def _lemma_offsets_increasing():
    """Partition invariant (offset of the j-th retained record == low + j) => strictly increasing, gap free"""
    off = z3.Function("off", z3.IntSort(), z3.IntSort())
    low, n, j = z3.Ints("low n j")
    assume(z3.ForAll([j], z3.Implies(z3.And(j >= 0, j < n), off(j) == low + j)))
    a = z3.Int("a")
    oblige("consecutive-records-have-consecutive-offsets", z3.Implies(z3.And(a >= 0, a + 1 < n), off(a + 1) == off(a) + 1))
    b = z3.Int("b")
    oblige("later-record-has-larger-offset", z3.Implies(z3.And(a >= 0, a < b, b < n), off(a) < off(b)))


lemma("queue-four-state-partition", _lemma_four_states)
lemma("nothing-delivered-after-acknowledge-step", _lemma_never_after_ack)
lemma("commit-sequence-monotone", _lemma_commit_chain)
lemma("key-to-partition-is-a-function", _lemma_same_key_same_partition)
lemma("partition-offsets-increasing-gap-free", _lemma_offsets_increasing)

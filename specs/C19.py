"""C19 - messaging delivers until acknowledged, to the right consumers, in offset order.

Part A: MessageQueue (state partition pending / in flight / acknowledged / dead, delivery, redelivery, DLQ hand-over).
Part B: DeadLetterQueue.  Part C: Topic.  Part D: EventLog.  Part E: ConsumerGroup and assignment strategies.
Part F: OutboxRelay / IdempotencyStore.
See DESIGN.md section 3-C19 for the clauses.
"""
from pyvc.spec import *

F_MQ = "happysimulator/components/messaging/message_queue.py"
F_DLQ = "happysimulator/components/messaging/dlq.py"
F_TOPIC = "happysimulator/components/messaging/topic.py"
F_LOG = "happysimulator/components/streaming/event_log.py"
F_CG = "happysimulator/components/streaming/consumer_group.py"

# ---------------------------------------------------------------------------- ghost statements
# (declared before the repo modules are imported)
# ghost accounting of the four message states: g_issued = every id publish ever handed out,
# g_acked / g_dead = ids that left the queue by acknowledgement / by dead-lettering (or discard);
# g_seq = publish sequence number of a message (ghost), g_next_seq = the queue's publish counter.
ghost(F_MQ, "MessageQueue.publish", "message_id = str(uuid.uuid4())",
      "_c19_fresh_id(self, message_id)")
ghost(F_MQ, "MessageQueue.publish", "msg = Message(",
      "msg.g_seq = self.g_next_seq; self.g_next_seq = self.g_next_seq + 1")
ghost(F_MQ, "MessageQueue.publish", "self._messages_published += 1",
      "self.g_issued.add(message_id)")
ghost(F_MQ, "MessageQueue.acknowledge", "self._messages.pop(message_id, None)",
      "self.g_acked.add(message_id)")
ghost(F_MQ, "MessageQueue.reject", "self._messages.pop(message_id, None)",
      "self.g_dead.add(message_id)")

ghost(F_MQ, "MessageQueue.handle_event", "message_id = event.context.get('message_id')",
      "message_id = _c19_opt_str('message_id')")

# DeadLetterQueue._cleanup_expired: while self._messages and self._message_times  (drops an expired prefix)
loop(F_DLQ, "DeadLetterQueue._cleanup_expired", 1,
     modifies=[("DeadLetterQueue", "_messages"), ("DeadLetterQueue", "_message_times"), ("DeadLetterQueue", "_messages_discarded")],
     types={"msg_time": lambda: TIME, "age": lambda: Real, "now": lambda: TIME, "now_seconds": lambda: Real},
     inv=[("parallel", lambda L: slen(L.self._messages) == slen(L.self._message_times)),
          ("suffix-of-entry", lambda L: _is_suffix(L.self._messages, L.old(L.self)._messages)
              & _is_suffix(L.self._message_times, L.old(L.self)._message_times)),
          ("dropped-are-counted", lambda L: L.self._messages_discarded - L.old(L.self)._messages_discarded
              == slen(L.old(L.self)._messages) - slen(L.self._messages))])


def _is_suffix(now, old):
    a, b = seq_term(now), seq_term(old)
    return mk_bool(z3.And(z3.Length(a) <= z3.Length(b), a == z3.Extract(b, z3.Length(b) - z3.Length(a), z3.Length(a))))


# Topic.publish_sync: for subscription in self._subscriptions.values()   (delivery_events is mutated in place: typed)
loop(F_TOPIC, "Topic.publish_sync", 1,
     modifies=[("Subscription", "messages_received"), ("Topic", "_messages_delivered")]
     + [("Event", f) for f in ("time", "event_type", "daemon", "target", "on_complete", "_sort_index", "_id", "_cancelled", "context")],
     types={"delivery_events": lambda: Seq(Ref(Event)), "delivery_event": lambda: Ref(Event)},
     inv=[("one-delivery-per-active-subscription-so-far", lambda L: _sync_inv(L)),
          ("events-are-deliveries-stamped-now", lambda L: _sync_events(L, L.delivery_events))])

# EventLog._do_read: for rec in partition.records   (result is mutated in place: typed)
loop(F_LOG, "EventLog._do_read", 1, modifies=[],
     types={"result": lambda: Seq(RECORD), "rec": lambda: RECORD},
     inv=[("result-is-the-gap-free-run-from-the-requested-offset", lambda L: _read_inv(L))])

# ConsumerGroup.handle_event: loop 2 = Commit: for pid, offset in offsets.items()
loop(F_CG, "ConsumerGroup.handle_event", 2, modifies=[("ConsumerGroup", "_committed_offsets")],
     types={"pid": lambda: Int, "offset": lambda: Int},
     inv=[("committed-never-backwards-and-only-this-consumer", lambda L: _commit_inv(L))])
ghost(F_CG, "ConsumerGroup.handle_event", None, "event = _c19_typed_event(event)", where="entry")

from specs.common import *  # noqa: E402,F401
from pyvc import ctx as _ctx  # noqa: E402
from pyvc.heap import Box  # noqa: E402
from pyvc.sym import SymStr  # noqa: E402

import happysimulator.components.messaging.message_queue as _mq_mod  # noqa: E402
from happysimulator.components.messaging.message_queue import MessageQueue, Message, MessageState  # noqa: E402
from happysimulator.components.messaging.dlq import DeadLetterQueue  # noqa: E402

PROPERTY = {
    "id": "C19",
    "level": "proof",
    "trusted": ["heap typing of the fields declared in specs/C19.py and specs/common.py",
                "uuid.uuid4(): message ids are opaque strings, fresh w.r.t. every id the queue has issued before "
                "(ghost set g_issued) - DESIGN 3-C19 'reach'",
                "UDeque model (specs/C19.py) of a deque that is kept duplicate free: membership set + rank per element; "
                "append/appendleft of an element already present is an obligation at the call site, never assumed"],
    "assumptions": COMMON_ASSUMPTIONS + [
        "uuid4 message ids never collide with an id issued earlier by the same queue (freshness of uuid4)",
        "reject(id) is only called for a message that was delivered at least once (a consumer rejects what it received)",
        "event context entries have the type their handler expects (A-typing for Event.context): 'message_id' is a str or "
        "absent; the typed value is re-bound by a ghost statement right after the context read",
    ],
}


# ---------------------------------------------------------------------------- helper types
class EnumTy(T.Ty):
    """a field holding a member of a Python Enum: Int index of the member"""

    def __init__(self, enum):
        self.enum = enum
        self.members = list(enum)
        self.name = f"Enum({enum.__name__})"

    def sort(self):
        return z3.IntSort()

    def assume_wf(self, term):
        _ctx.cur().assume(z3.And(term >= 0, term < len(self.members)))

    def wrap(self, term, loc=None):
        term = z3.simplify(term)
        if z3.is_int_value(term):
            return self.members[term.as_long()]
        k = _ctx.cur().choose([term == i for i in range(len(self.members))], site="enum:" + self.name)
        return self.members[k]

    def unwrap(self, v):
        if isinstance(v, self.enum):
            return z3.IntVal(self.members.index(v))
        raise OutOfReach(f"{type(v).__name__} stored where {self.name} is declared")

    def concretize(self, model, term):
        v = model.eval(term, model_completion=True).as_long()
        return str(self.members[min(max(v, 0), len(self.members) - 1)])


class UDeque(T.Ty):
    """A deque of strings that the owner keeps duplicate free (the pending queue of message ids).
    Model: dom (membership), rank (position key: smaller = nearer the front), size, and the window
    [lo, hi) of ranks handed out.  append gives rank hi, appendleft rank lo-1; adding an element that
    is already present would create a duplicate, which this model cannot hold - it is therefore an
    OBLIGATION at the call site (`unique:` ...), not an assumption.  q[0] / popleft() return a witness
    of minimal rank.  The facts `ranks in window` and `ranks distinct` are class invariants of the owner."""
    _dt = None

    def __init__(self, label="deque"):
        self.label = label
        self.name = "UDeque(Str)"
        if UDeque._dt is None:
            d = z3.Datatype("UDeque_Str")
            ks = z3.StringSort()
            d.declare("mk", ("dom", z3.ArraySort(ks, z3.BoolSort())), ("rank", z3.ArraySort(ks, z3.IntSort())),
                      ("size", z3.IntSort()), ("lo", z3.IntSort()), ("hi", z3.IntSort()))
            UDeque._dt = d.create()
        self.dt = UDeque._dt

    def sort(self):
        return self.dt

    def assume_wf(self, term):
        c = _ctx.cur()
        dt = self.dt
        c.assume(z3.And(dt.size(term) >= 0, dt.lo(term) <= dt.hi(term), dt.size(term) <= dt.hi(term) - dt.lo(term)))
        c.assume((dt.size(term) == 0) == (dt.dom(term) == z3.K(z3.StringSort(), z3.BoolVal(False))))

    def empty(self):
        ks = z3.StringSort()
        return self.dt.mk(z3.K(ks, z3.BoolVal(False)), z3.K(ks, z3.IntVal(0)), z3.IntVal(0), z3.IntVal(0), z3.IntVal(0))

    def wrap(self, term, loc=None):
        return UDequeProxy(loc if loc is not None else Box(term), self)

    def unwrap(self, v):
        if isinstance(v, UDequeProxy):
            return v._loc.get()
        if type(v).__name__ == "deque" or isinstance(v, (list, tuple)):
            p = UDequeProxy(Box(self.empty()), self)
            for x in v:
                p.append(x)
            return p._loc.get()
        raise OutOfReach(f"{type(v).__name__} stored where {self.name} is declared")

    def concretize(self, model, term):
        v = model.eval(term, model_completion=True)
        return {"__udeque__": str(model.eval(self.dt.dom(v), model_completion=True))[:300],
                "rank": str(model.eval(self.dt.rank(v), model_completion=True))[:300],
                "size": str(model.eval(self.dt.size(v), model_completion=True))}


class UDequeProxy:
    def __init__(self, loc, ty):
        self._loc, self._ty = loc, ty

    @property
    def term(self):
        return self._loc.get()

    def _k(self, k):
        kt = Str.unwrap(k)
        c = _ctx.cur()
        if c.spec_mode == 0 and not z3.is_var(kt):
            c.note_term(kt)
        return kt

    # -- raw views for clauses
    def has(self, k):
        return mk_bool(z3.Select(self._ty.dt.dom(self.term), Str.unwrap(k)))

    def rank(self, k):
        return mk_num(z3.Select(self._ty.dt.rank(self.term), Str.unwrap(k)))

    @property
    def lo(self):
        return mk_num(self._ty.dt.lo(self.term))

    @property
    def hi(self):
        return mk_num(self._ty.dt.hi(self.term))

    def __sym_contains__(self, k):
        return z3.Select(self._ty.dt.dom(self.term), Str.unwrap(k))

    def __contains__(self, k):
        return _ctx.cur().branch(z3.Select(self._ty.dt.dom(self.term), self._k(k)))

    def __sym_len__(self):
        self._ty.assume_wf(self.term)
        return mk_num(self._ty.dt.size(self.term))

    def __len__(self):
        t = z3.simplify(self._ty.dt.size(self.term))
        if z3.is_int_value(t):
            return t.as_long()
        raise OutOfReach("len() of symbolic deque through the C API")

    def __bool__(self):
        self._ty.assume_wf(self.term)
        return _ctx.cur().branch(self._ty.dt.size(self.term) != 0)

    def _add(self, k, left):
        c = _ctx.cur()
        kt = self._k(k)
        m = self.term
        dt = self._ty.dt
        c.oblige(f"unique:{self._ty.label}.{'appendleft' if left else 'append'}-keeps-duplicate-free",
                 mk_bool(z3.Not(z3.Select(dt.dom(m), kt))), kind="callsite")
        r = dt.lo(m) - 1 if left else dt.hi(m)
        self._loc.set(z3.simplify(dt.mk(z3.Store(dt.dom(m), kt, z3.BoolVal(True)), z3.Store(dt.rank(m), kt, r),
                                        dt.size(m) + 1, r if left else dt.lo(m), dt.hi(m) if left else r + 1)))

    def append(self, k):
        self._add(k, False)

    def appendleft(self, k):
        self._add(k, True)

    def remove(self, k):
        c = _ctx.cur()
        kt = self._k(k)
        m = self.term
        dt = self._ty.dt
        if not c.branch(z3.Select(dt.dom(m), kt), site="remove"):
            raise ValueError("deque.remove(x): x not in deque (symbolic)")
        self._loc.set(z3.simplify(dt.mk(z3.Store(dt.dom(m), kt, z3.BoolVal(False)), dt.rank(m), dt.size(m) - 1,
                                        dt.lo(m), dt.hi(m))))

    def _head(self):
        c = _ctx.cur()
        self._ty.assume_wf(self.term)
        m = self.term
        dt = self._ty.dt
        if not c.branch(dt.size(m) > 0, site="idx"):
            raise IndexError("deque index out of range (symbolic)")
        h = c.fresh("head", z3.StringSort())
        c.assume(z3.Select(dt.dom(m), h))
        dom, rank = dt.dom(m), dt.rank(m)
        c.assume_value(forall(Str, lambda k: mk_bool(z3.Implies(z3.Select(dom, k.t), z3.Select(rank, h) <= z3.Select(rank, k.t)))))
        c.note_term(h)
        return h

    def __getitem__(self, i):
        if isinstance(i, int) and not isinstance(i, bool) and i == 0:
            return Str.wrap(self._head())
        raise OutOfReach("UDeque: only q[0] is modelled")

    def popleft(self):
        h = Str.wrap(self._head())
        self.remove(h)
        return h

    def __iter__(self):
        raise OutOfReach("iteration over a UDeque")

    __hash__ = None

    def __repr__(self):
        return f"UDeque({self.term})"


STATE = EnumTy(MessageState)
PENDING = UDeque("pending")


def state_is(msg, member):
    return mk_bool(field_term(msg, "state") == STATE.unwrap(member))


# ============================================================================ A. MessageQueue
MSGMAP = Map(Str, Ref(Message))
IDSET = Set(Str)

cls(Message, fields={"id": Str, "payload": Ref(Event), "created_at": TIME, "state": STATE, "delivery_count": Int,
                     "last_delivered_at": Opt(TIME), "consumer": OptRef(Entity)},
    ghost={"g_seq": Int},
    inv=[("count-nonneg", lambda o: o.delivery_count >= 0)])
cls(DeadLetterQueue, fields={"_capacity": Opt(Int), "_retention_period": Opt(Real), "_messages": Seq(Ref(Message)),
                             "_message_times": Seq(TIME), "_messages_received": Int, "_messages_reprocessed": Int,
                             "_messages_discarded": Int})


def mref(d, k):
    """raw reference stored under key k of a Map(Str, Ref(Message)) (no fork)"""
    kt = k.t if hasattr(k, "t") else z3.StringVal(k)
    return z3.Select(MSGMAP.dt.val(d.term), kt)


def msg_at(d, k):
    return ObjProxy(mref(d, k), Message, getattr(d._loc, "frozen", None))


def m_count(d, k):
    return mk_num(field_term(msg_at(d, k), "delivery_count"))


def m_seq(d, k):
    return mk_num(field_term(msg_at(d, k), "g_seq"))


def pend(o, k):
    return o._pending_queue.has(k)


class QV:
    """raw z3 views of a MessageQueue in the state `o` looks at (captured once per clause, so quantifier
    bodies are pure term builders: cheap to instantiate and fixed to that state)"""

    def __init__(self, o):
        c = _ctx.cur()
        fz = o._frozen
        ref = o._ref

        def fld(owner, name, ty):
            return z3.Select(c.heap.array((owner, name), ty, fz), ref)

        def arr(owner, name, ty):
            return c.heap.array((owner, name), ty, fz)
        m, f, p = fld("MessageQueue", "_messages", MSGMAP), fld("MessageQueue", "_in_flight", MSGMAP), \
            fld("MessageQueue", "_pending_queue", PENDING)
        self.M, self.Mv = MSGMAP.dt.dom(m), MSGMAP.dt.val(m)
        self.F, self.Fv = MSGMAP.dt.dom(f), MSGMAP.dt.val(f)
        self.P, self.R = PENDING.dt.dom(p), PENDING.dt.rank(p)
        self.lo, self.hi, self.psize = PENDING.dt.lo(p), PENDING.dt.hi(p), PENDING.dt.size(p)
        self.issued = IDSET.dt.dom(fld("MessageQueue", "g_issued", IDSET))
        self.acked = IDSET.dt.dom(fld("MessageQueue", "g_acked", IDSET))
        self.dead = IDSET.dt.dom(fld("MessageQueue", "g_dead", IDSET))
        self.sched = IDSET.dt.dom(fld("MessageQueue", "_redelivery_scheduled", IDSET))
        self.next_seq = fld("MessageQueue", "g_next_seq", Int)
        self.A_id, self.A_cnt, self.A_seq = arr("Message", "id", Str), arr("Message", "delivery_count", Int), \
            arr("Message", "g_seq", Int)

    def cnt(self, k):
        return self.A_cnt[self.Mv[k]]

    def seq(self, k):
        return self.A_seq[self.Mv[k]]


def _kt(k):
    return k.t if hasattr(k, "t") else z3.StringVal(k)


def _inv_partition(o):
    v = QV(o)
    return forall(Str, lambda k: mk_bool(z3.And(
        z3.Implies(v.P[k.t], z3.And(v.M[k.t], z3.Not(v.F[k.t]))),                       # pending: live, not in flight
        z3.Implies(v.F[k.t], z3.And(v.M[k.t], v.Fv[k.t] == v.Mv[k.t])),                 # in flight: live, same object
        z3.Implies(v.M[k.t], z3.Or(v.P[k.t], v.F[k.t])))))                              # live: pending or in flight


def _inv_fields(o):
    v = QV(o)
    alloc = _ctx.cur().heap.alloc       # typing: stored references denote allocated objects
    return mk_bool(v.lo <= v.hi) & forall(Str, lambda k: mk_bool(z3.And(
        z3.Implies(v.M[k.t], z3.And(v.Mv[k.t] >= 1, v.Mv[k.t] <= alloc)),
        z3.Implies(v.M[k.t], z3.And(v.A_id[v.Mv[k.t]] == k.t, v.cnt(k.t) >= 0, v.seq(k.t) < v.next_seq)),
        z3.Implies(v.F[k.t], v.cnt(k.t) >= 1),                                          # in flight => delivered at least once
        z3.Implies(v.P[k.t], z3.And(v.lo <= v.R[k.t], v.R[k.t] < v.hi)))))              # pending ranks inside the window


def _inv_accounting(o):
    v = QV(o)
    return forall(Str, lambda k: mk_bool(z3.And(
        v.issued[k.t] == z3.Or(v.M[k.t], v.acked[k.t], v.dead[k.t]),
        z3.Implies(z3.Or(v.acked[k.t], v.dead[k.t]), z3.Not(v.M[k.t])),
        z3.Not(z3.And(v.acked[k.t], v.dead[k.t])))))


def _inv_order(o):
    v = QV(o)
    return forall(Str, lambda a: forall(Str, lambda b: mk_bool(z3.And(
        z3.Implies(z3.And(v.M[a.t], v.M[b.t], a.t != b.t), v.seq(a.t) != v.seq(b.t)),
        z3.Implies(z3.And(v.P[a.t], v.P[b.t], v.cnt(a.t) == 0, v.cnt(b.t) == 0, v.seq(a.t) < v.seq(b.t)),
                   v.R[a.t] < v.R[b.t])))))


MQ_INV = [
    # `messages` keys = pending (+) in_flight (disjoint; the pending deque is duplicate free by its type)
    ("state-partition:live=pending+in-flight", _inv_partition),
    ("live-messages:keyed-by-id,counts,ranks-in-window", _inv_fields),
    # the four states partition the issued ids: issued = live + acknowledged + dead
    ("issued=live+acked+dead", _inv_accounting),
    # first deliveries follow publish order: never-delivered messages sit in the pending queue in publish order
    ("undelivered-pending-in-publish-order", _inv_order),
    ("limits", lambda o: (o._max_redeliveries >= 0) & (o._redelivery_delay > 0)),
    ("counters-nonneg", lambda o: (o._consumer_index >= 0) & (o._messages_published >= 0)),
]

cls(MessageQueue, fields={
    "_delivery_latency": Real, "_redelivery_delay": Real, "_max_redeliveries": Int, "_capacity": Opt(Int),
    "_dead_letter_queue": OptRef(DeadLetterQueue), "_messages": MSGMAP, "_pending_queue": PENDING,
    "_in_flight": MSGMAP, "_consumers": Seq(Ref(Entity)), "_consumer_index": Int, "_redelivery_scheduled": IDSET,
    "_messages_published": Int, "_messages_delivered": Int, "_messages_acknowledged": Int, "_messages_rejected": Int,
    "_messages_redelivered": Int, "_messages_dead_lettered": Int, "_delivery_latencies": Seq(Real)},
    ghost={"g_issued": IDSET, "g_acked": IDSET, "g_dead": IDSET, "g_next_seq": Int},
    const=["_delivery_latency", "_redelivery_delay", "_max_redeliveries", "_capacity", "_dead_letter_queue"],
    inv=MQ_INV)


def _fresh_id(q, mid):
    """trusted: uuid4 returns an id this queue never issued"""
    assume(Not(contains(q.g_issued, mid)))


_mq_mod._c19_fresh_id = _fresh_id


class _UuidShim:
    @staticmethod
    def uuid4():
        if not _ctx.active():
            import uuid
            return uuid.uuid4()
        v = Str.fresh("uuid4")
        _ctx.cur().ghost_args["c19_uuid"] = v
        return v


_mq_mod.uuid = _UuidShim


class _TruthyStr(SymStr):
    """a symbolic str known to be non-empty (truth test without a string-length constraint)"""
    __slots__ = ()

    def __bool__(self):
        return True


def _opt_str(name):
    """context value typed `str | None`: None stands for absent and for the empty string (the handlers treat
    both alike: `if message_id:`), otherwise an arbitrary non-empty string"""
    c = _ctx.cur()
    if c.branch(c.fresh(name + "_absent", z3.BoolSort()), site="ctx:" + name):
        return None
    return _TruthyStr(c.fresh(name, z3.StringSort()))


_mq_mod._c19_opt_str = _opt_str


def last_uuid():
    """the id the uuid4 shim handed out on this path (ghost)"""
    return _ctx.cur().ghost_args.get("c19_uuid")

MSG_FRAME = ("_messages", "_pending_queue", "_in_flight", "g_issued", "g_acked", "g_dead")

fn(MessageQueue, "subscribe", args={"consumer": Ref(Entity)}, ensures=[
    ("subscribed", lambda s: contains(s.self._consumers, s.consumer)),
    ("others-kept", lambda s: forall(Ref(Entity), lambda e: implies(
        contains(s.old(s.self)._consumers, e), contains(s.self._consumers, e)))),
    ("nobody-else-added", lambda s: forall(Ref(Entity), lambda e: implies(
        contains(s.self._consumers, e), contains(s.old(s.self)._consumers, e) | same(e, s.consumer)))),
    ("messages-untouched", lambda s: unchanged(s, s.self, *MSG_FRAME))])

def picked_round_robin(q_old, q_new, consumer):
    """consumer is q.consumers[w] with w = (index before the call) mod (number of consumers): a subscribed
    consumer (explicit position witness instead of a Contains term - cheaper for the solver)"""
    sq = seq_term(q_new._consumers)
    n = z3.Length(sq)
    idx = num(q_old._consumer_index)
    w = idx - n * z3.If(n > 0, idx / n, (-idx) / (-n))       # Python's idx % n, as the code computes it
    return mk_bool(z3.And(n > 0, w >= 0, w < n, sq[w] == consumer._ref))


NEXT_CONSUMER = [
    ("none-iff-no-consumers", lambda s: iff(s.result is None, slen(s.self._consumers) == 0)),
    ("is-a-subscribed-consumer-round-robin", lambda s: True if s.result is None else
        picked_round_robin(s.old(s.self), s.self, s.result)),
    ("index-advances", lambda s: s.self._consumer_index == s.old(s.self)._consumer_index + (0 if s.result is None else 1)),
    ("messages-untouched", lambda s: unchanged(s, s.self, "_consumers", *MSG_FRAME))]
fn(MessageQueue, "_get_next_consumer", returns=OptRef(Entity), modifies=["_consumer_index"], ensures=NEXT_CONSUMER)


# ---- acknowledge / reject / schedule_redelivery -------------------------------------------
def _others_untouched(s, mid):
    """every other id keeps its place: liveness, object, pending rank, in-flight status, accounting"""
    o, n = QV(s.old(s.self)), QV(s.self)
    m = _kt(mid)
    return forall(Str, lambda k: mk_bool(z3.Implies(k.t != m, z3.And(
        n.M[k.t] == o.M[k.t], n.Mv[k.t] == o.Mv[k.t], n.F[k.t] == o.F[k.t], n.P[k.t] == o.P[k.t],
        n.R[k.t] == o.R[k.t], n.acked[k.t] == o.acked[k.t], n.dead[k.t] == o.dead[k.t]))))


fn(MessageQueue, "acknowledge", args={"message_id": Str}, ensures=[
    ("live-message-becomes-acknowledged", lambda s: implies(
        contains(s.old(s.self)._messages, s.message_id), contains(s.self.g_acked, s.message_id))),
    ("gone-from-every-queue", lambda s: Not(contains(s.self._messages, s.message_id))
        & Not(contains(s.self._in_flight, s.message_id)) & Not(pend(s.self, s.message_id))),
    ("unknown-id-is-a-no-op", lambda s: implies(
        Not(contains(s.old(s.self)._messages, s.message_id)), unchanged(s, s.self))),
    ("counted-once", lambda s: s.self._messages_acknowledged == s.old(s.self)._messages_acknowledged
        + ite(contains(s.old(s.self)._messages, s.message_id), 1, 0)),
    ("others-untouched", lambda s: _others_untouched(s, s.message_id)),
    ("no-redelivery-left-scheduled", lambda s: Not(contains(s.self._redelivery_scheduled, s.message_id))
        | Not(contains(s.old(s.self)._messages, s.message_id)))])


# ---- the dead-letter queue (callee of reject) -----------------------------------------------
cls(DeadLetterQueue, inv=[
    ("parallel-deques", lambda o: slen(o._messages) == slen(o._message_times)),
    ("capacity-shape", lambda o: True if o._capacity is None else o._capacity >= 0),
    ("counters-nonneg", lambda o: (o._messages_received >= 0) & (o._messages_discarded >= 0) & (o._messages_reprocessed >= 0))])


def _last_is(sq, obj):
    t = seq_term(sq)
    return mk_bool(z3.And(z3.Length(t) >= 1, t[z3.Length(t) - 1] == obj._ref))


def _dlq_received(s, dlq, message):
    """`message` was handed to the DLQ exactly once: it is the newest entry, the entries before it are a
    suffix of the old content (retention/capacity only ever drop the oldest)"""
    old = s.old(dlq)
    t, t0 = seq_term(dlq._messages), seq_term(old._messages)
    kept = z3.Length(t) - 1
    return _last_is(dlq._messages, message) & mk_bool(z3.And(
        kept <= z3.Length(t0), z3.Extract(t, 0, kept) == z3.Extract(t0, z3.Length(t0) - kept, kept))) \
        & (dlq._messages_received == old._messages_received + 1)


DLQ_ADD = dict(args={"message": Ref(Message)}, returns=Bool,
               modifies=["_messages", "_message_times", "_messages_received", "_messages_discarded"],
               ensures=[
    ("accepted", lambda s: s.result == True),  # noqa: E712
    ("deques-stay-parallel", lambda s: slen(s.self._messages) == slen(s.self._message_times)),
    ("received-exactly-once-as-newest", lambda s: _dlq_received(s, s.self, s.message)),
    ("stamped-now", lambda s: mk_bool(seq_term(s.self._message_times)[z3.Length(seq_term(s.self._message_times)) - 1]
                                      == TIME.unwrap(s.self._clock._current_time))),
    ("within-capacity", lambda s: True if s.self._capacity is None else
        implies(s.self._capacity >= 1, slen(s.self._messages) <= s.self._capacity) | (slen(s.old(s.self)._messages) > s.self._capacity)),
    ("discards-counted", lambda s: s.self._messages_discarded - s.old(s.self)._messages_discarded
        == slen(s.old(s.self)._messages) + 1 - slen(s.self._messages)),
    ("message-itself-untouched", lambda s: unchanged(s, s.message))])
fn(DeadLetterQueue, "add_message", **DLQ_ADD)

fn(DeadLetterQueue, "_cleanup_expired", ensures=[
    ("drops-only-an-oldest-prefix", lambda s: _is_suffix(s.self._messages, s.old(s.self)._messages)
        & _is_suffix(s.self._message_times, s.old(s.self)._message_times)),
    ("dropped-are-counted", lambda s: s.self._messages_discarded - s.old(s.self)._messages_discarded
        == slen(s.old(s.self)._messages) - slen(s.self._messages)),
    ("no-retention-no-effect", lambda s: True if s.self._retention_period is not None else unchanged(s, s.self))])

fn(DeadLetterQueue, "pop", ensures=[
    ("empty-gives-none", lambda s: implies(slen(s.old(s.self)._messages) == 0, (s.result is None) and unchanged(s, s.self))),
    ("returns-oldest", lambda s: implies(slen(s.old(s.self)._messages) > 0, (s.result is not None) and mk_bool(
        seq_term(s.old(s.self)._messages) == z3.Concat(z3.Unit(s.result._ref), seq_term(s.self._messages))))),
    ("times-follow", lambda s: implies(slen(s.old(s.self)._messages) > 0, mk_bool(
        seq_term(s.self._message_times) == z3.Extract(seq_term(s.old(s.self)._message_times), 1,
                                                      z3.Length(seq_term(s.old(s.self)._message_times)) - 1))))])


# ---- reject / schedule_redelivery -------------------------------------------------------------
def _dead_lettered(s, mid):
    """the message left the queue as `dead`; when a DLQ is configured it received the message exactly once"""
    o, n = s.old(s.self), s.self
    msg = msg_at(o._messages, mid)
    ok = contains(n.g_dead, mid) & Not(contains(n._messages, mid)) & Not(contains(n._in_flight, mid)) & Not(pend(n, mid))
    dlq = n._dead_letter_queue
    if dlq is None:
        return ok & (n._messages_dead_lettered == o._messages_dead_lettered)
    return ok & _dlq_received(s, dlq, msg) & (n._messages_dead_lettered == o._messages_dead_lettered + 1)


def _requeued_at_tail(s, mid):
    o, n = s.old(s.self), s.self
    return (pend(n, mid) & contains(n._messages, mid) & Not(contains(n._in_flight, mid))
            & mk_bool(mref(n._messages, mid) == mref(o._messages, mid))
            & forall(Str, lambda k: implies(pend(n, k) & (k != mid), n._pending_queue.rank(k) < n._pending_queue.rank(mid)))
            & Not(contains(n.g_dead, mid)))


def _reject_post(s):
    o = s.old(s.self)
    mid = s.message_id
    live = contains(o._messages, mid)
    again = s.requeue & (m_count(o._messages, mid) < o._max_redeliveries)
    return (implies(live & again, _requeued_at_tail(s, mid))
            & implies(live & Not(again), _dead_lettered(s, mid)))


def _delivered_once(s):
    return implies(contains(s.self._messages, s.message_id), m_count(s.self._messages, s.message_id) >= 1)


def _dlq_focus(s):
    d = s.self._dead_letter_queue
    return [] if d is None else [d]


fn(MessageQueue, "reject", args={"message_id": Str, "requeue": Bool},
   requires=[("only-received-messages-are-rejected", _delivered_once)],
   uses=[(DeadLetterQueue, "add_message")], focus=_dlq_focus,
   ensures=[
    ("requeued-below-the-limit-else-dead-lettered-once", _reject_post),
    ("unknown-id-is-a-no-op", lambda s: implies(Not(contains(s.old(s.self)._messages, s.message_id)), unchanged(s, s.self))),
    ("acknowledged-stays-acknowledged", lambda s: implies(contains(s.old(s.self).g_acked, s.message_id), unchanged(s, s.self))),
    ("counted-once", lambda s: s.self._messages_rejected == s.old(s.self)._messages_rejected
        + ite(contains(s.old(s.self)._messages, s.message_id), 1, 0)),
    ("others-untouched", lambda s: _others_untouched(s, s.message_id))])


def ctx_val(e, key):
    """raw value stored under `key` in an event's context"""
    m = field_term(e, "context")
    mt = Map(Str, Any)
    return z3.Select(mt.dt.val(m), z3.StringVal(key)), z3.Select(mt.dt.dom(m), z3.StringVal(key))


def ctx_is(e, key, value):
    v, has = ctx_val(e, key)
    return mk_bool(z3.And(has, v == Any.unwrap(value)))


def _redelivery_post(s):
    o, n = s.old(s.self), s.self
    mid = s.message_id
    flying = contains(o._in_flight, mid)
    sched = contains(o._redelivery_scheduled, mid)
    if s.result is None:
        # nothing scheduled: not in flight / already scheduled (state untouched) or limit reached (dead-lettered)
        exhausted = flying & Not(sched) & (m_count(o._messages, mid) >= o._max_redeliveries)
        return implies(Not(exhausted), unchanged(s, s.self)) & implies(exhausted, _dead_lettered(s, mid))
    e = s.result
    return (flying & Not(sched) & (m_count(o._messages, mid) < o._max_redeliveries)
            & same(e.target, s.self) & (e.event_type == "message_redelivery") & ctx_is(e, "message_id", mid)
            & (ns(e.time) >= now_ns(s.self)) & Not(e._cancelled)
            & contains(n._redelivery_scheduled, mid)
            # back at the FRONT of the pending queue, same message object, no longer in flight
            & pend(n, mid) & Not(contains(n._in_flight, mid)) & contains(n._messages, mid)
            & mk_bool(mref(n._messages, mid) == mref(o._messages, mid))
            & forall(Str, lambda k: implies(pend(n, k) & (k != mid), n._pending_queue.rank(mid) < n._pending_queue.rank(k))))


fn(MessageQueue, "schedule_redelivery", args={"message_id": Str},
   uses=[(DeadLetterQueue, "add_message")], focus=_dlq_focus,
   ensures=[
    ("redelivery-below-the-limit-else-dead-lettered-once", _redelivery_post),
    ("acknowledged-is-never-rescheduled", lambda s: implies(
        contains(s.old(s.self).g_acked, s.message_id), (s.result is None) and unchanged(s, s.self))),
    ("others-untouched", lambda s: _others_untouched(s, s.message_id))])


# ---- publish / deliver / poll / handle_event (generators) -------------------------------------
def _published_at_tail(s, y):
    o, n = QV(s.old(s.self)), QV(s.self)
    mid = last_uuid()
    if mid is None:
        return False
    k0 = mid.t
    s._c19_new_id = mid
    msg = ObjProxy(n.Mv[k0], Message)
    return (mk_bool(z3.And(z3.Not(o.issued[k0]), n.issued[k0], n.M[k0], n.P[k0], z3.Not(n.F[k0]),
                           n.cnt(k0) == 0, n.seq(k0) == o.next_seq, n.next_seq == o.next_seq + 1))
            & mk_bool(field_term(msg, "payload") == s.message._ref)
            & forall(Str, lambda k: mk_bool(z3.Implies(z3.And(n.P[k.t], k.t != k0), n.R[k.t] < n.R[k0]))))


fn(MessageQueue, "publish", args={"message": Ref(Event)},
   yields=Yields(at_yield=[
       ("delay-nonneg", lambda s, y: y >= 0),
       ("new-message-is-live-pending-at-the-tail-never-delivered", _published_at_tail),
       ("others-untouched", lambda s, y: _others_untouched(s, last_uuid())),
       ("published-counted", lambda s, y: s.self._messages_published == s.old(s.self)._messages_published + 1),
       ("capacity-respected", lambda s, y: True if s.self._capacity is None else slen(s.old(s.self)._messages) < s.self._capacity)]),
   ensures=[("returns-the-new-id", lambda s: s.result == s._c19_new_id)],
   raises={RuntimeError: [
       ("only-when-full", lambda s: False if s.self._capacity is None else slen(s.old(s.self)._messages) >= s.self._capacity),
       ("nothing-published", lambda s: unchanged(s, s.self))]})


def _decided(s, y, mid):
    """the delivery decision (the atomic segment before the latency): the message becomes in flight at a
    subscribed consumer picked round-robin; its delivery count goes up by one"""
    o, n = QV(s.old(s.self)), QV(s.self)
    k0 = _kt(mid)
    msg = ObjProxy(n.Mv[k0], Message)
    s._c19_consumer = field_term(msg, "consumer")
    s._c19_now = now_ns(s.self)
    cons = ObjProxy(field_term(msg, "consumer"), Entity)
    return (mk_bool(z3.And(o.M[k0], z3.Not(o.acked[k0]), z3.Not(o.dead[k0]), n.M[k0], n.F[k0], z3.Not(n.P[k0]),
                           n.Mv[k0] == o.Mv[k0], n.Fv[k0] == n.Mv[k0], n.cnt(k0) == o.cnt(k0) + 1,
                           field_term(msg, "consumer") != 0))
            & picked_round_robin(s.old(s.self), s.self, cons)
            & mk_bool(field_term(msg, "last_delivered_at") == Opt(TIME).unwrap(s.self._clock._current_time)))


def _delivery_event(s, mid=None):
    """the returned delivery: addressed to the consumer chosen at the decision, stamped with the clock at the
    hand-over (an event stamped earlier than `now` is discarded by the engine: C07), carrying the id"""
    e = s.result
    if e is None:
        return True
    ok = (mk_bool(field_term(e, "target") == s._c19_consumer) & (e.event_type == "message_delivery")
          & (ns(e.time) == now_ns(s.self)) & Not(e._cancelled))
    if mid is not None:
        ok = ok & ctx_is(e, "message_id", mid)
    return ok


DELIVER_STATS = ("counts-first-delivery-or-redelivery", lambda s, y:
                 (s.self._messages_delivered + s.self._messages_redelivered
                  == s.old(s.self)._messages_delivered + s.old(s.self)._messages_redelivered + 1))

fn(MessageQueue, "_deliver_message", args={"message_id": Str},
   uses=[(MessageQueue, "_get_next_consumer")],
   yields=Yields(at_yield=[
       ("latency-is-the-configured-one", lambda s, y: y == s.self._delivery_latency),
       ("in-flight-at-a-subscribed-consumer", lambda s, y: _decided(s, y, s.message_id)),
       ("others-untouched", lambda s, y: _others_untouched(s, s.message_id)),
       DELIVER_STATS]),
   ensures=[
    ("none-iff-not-live-or-no-consumer", lambda s: iff(s.result is None,
        Not(contains(s.old(s.self)._messages, s.message_id)) | (slen(s.old(s.self)._consumers) == 0))),
    ("no-delivery-no-effect", lambda s: True if s.result is not None else unchanged(s, s.self, "_consumers", *MSG_FRAME)),
    ("acknowledged-is-never-delivered-again", lambda s: implies(contains(s.old(s.self).g_acked, s.message_id), s.result is None)),
    ("dead-lettered-is-never-delivered-again", lambda s: implies(contains(s.old(s.self).g_dead, s.message_id), s.result is None)),
    ("delivery-reaches-the-chosen-consumer-stamped-now", lambda s: _delivery_event(s, s.message_id))])


def _newly_in_flight(o, n, d):
    return z3.And(n.F[d], z3.Or(z3.Not(o.F[d]), n.cnt(d) != o.cnt(d)))


def _poll_first_delivery_order(s, y):
    o, n = QV(s.old(s.self)), QV(s.self)
    return forall(Str, lambda d: forall(Str, lambda k: mk_bool(z3.Implies(
        z3.And(_newly_in_flight(o, n, d.t), n.cnt(d.t) == 1, n.M[k.t], n.cnt(k.t) == 0), n.seq(d.t) < n.seq(k.t)))))


def _poll_takes_head(s, y):
    o, n = QV(s.old(s.self)), QV(s.self)
    return forall(Str, lambda d: forall(Str, lambda k: mk_bool(z3.Implies(
        z3.And(_newly_in_flight(o, n, d.t), o.P[k.t]), z3.And(o.P[d.t], o.R[d.t] <= o.R[k.t])))))


def _poll_one(s, y):
    o, n = QV(s.old(s.self)), QV(s.self)
    return forall(Str, lambda d: forall(Str, lambda k: mk_bool(z3.Implies(
        z3.And(_newly_in_flight(o, n, d.t), _newly_in_flight(o, n, k.t)), d.t == k.t))))


def _poll_decided(s, y):
    """whatever became in flight did so at a subscribed consumer (round robin), was live and unacknowledged"""
    o, n = QV(s.old(s.self)), QV(s.self)

    def body(d):
        msg = ObjProxy(n.Mv[d.t], Message)
        cons = ObjProxy(field_term(msg, "consumer"), Entity)
        return implies(mk_bool(_newly_in_flight(o, n, d.t)),
                       mk_bool(z3.And(o.M[d.t], z3.Not(o.acked[d.t]), z3.Not(n.P[d.t]), n.cnt(d.t) == o.cnt(d.t) + 1))
                       & picked_round_robin(s.old(s.self), s.self, cons))
    return forall(Str, body)


def _stash_consumer(s, y):
    """remember (ghost) the consumer of the message that became in flight in this segment"""
    o, n = QV(s.old(s.self)), QV(s.self)
    c = _ctx.cur()
    d = c.fresh("c19_delivered", z3.StringSort())
    c.note_term(d)
    s._c19_consumer = z3.If(_newly_in_flight(o, n, d), field_term(ObjProxy(n.Mv[d], Message), "consumer"), z3.IntVal(-1))
    s._c19_d = d
    return True


fn(MessageQueue, "poll",
   yields=Yields(at_yield=[
       ("first-delivery-follows-publish-order", _poll_first_delivery_order),
       ("delivers-the-head-of-the-pending-queue", _poll_takes_head),
       ("at-most-one-message-per-poll", _poll_one),
       ("in-flight-at-a-subscribed-consumer-live-unacknowledged", _poll_decided),
       ("nothing-pending-or-no-consumer-delivers-nothing", lambda s, y: implies(
           (slen(s.old(s.self)._pending_queue) == 0) | (slen(s.old(s.self)._consumers) == 0),
           unchanged(s, s.self, "_consumers", *MSG_FRAME)))]),
   ensures=[
    ("none-iff-nothing-pending-or-no-consumer", lambda s: iff(s.result is None,
        (slen(s.old(s.self)._pending_queue) == 0) | (slen(s.old(s.self)._consumers) == 0))),
    ("delivery-stamped-now-type-ok", lambda s: True if s.result is None else
        (s.result.event_type == "message_delivery") & (ns(s.result.time) == now_ns(s.self)) & Not(s.result._cancelled))])


def _handle_result_shape(s):
    r = s.result
    if len(r) == 0:
        return True
    if len(r) != 1:
        return False
    e = r[0]
    return (e.event_type == "message_delivery") & (ns(e.time) == now_ns(s.self)) & Not(e._cancelled)


def _nothing_acked_is_delivered(s, y):
    o, n = QV(s.old(s.self)), QV(s.self)
    return forall(Str, lambda d: mk_bool(z3.Implies(_newly_in_flight(o, n, d.t), z3.And(
        o.M[d.t], z3.Not(o.acked[d.t]), z3.Not(o.dead[d.t]), n.cnt(d.t) == o.cnt(d.t) + 1))))


fn(MessageQueue, "handle_event", args={"event": Ref(Event)},
   yields=Yields(at_yield=[
       ("only-live-unacknowledged-messages-are-delivered", _nothing_acked_is_delivered),
       ("at-most-one-message-per-event", _poll_one),
       ("in-flight-at-a-subscribed-consumer-live-unacknowledged", _poll_decided)]),
   ensures=[
    ("at-most-one-delivery-stamped-now", _handle_result_shape),
    ("other-events-ignored", lambda s: implies(
        (s.old(s.event).event_type != "poll") & (s.old(s.event).event_type != "message_redelivery"),
        (len(s.result) == 0) and unchanged(s, s.self)))])


# ============================================================================ C. Topic
import happysimulator.components.messaging.topic as _topic_mod  # noqa: E402
from happysimulator.components.messaging.topic import Topic, Subscription  # noqa: E402

PROPERTY["assumptions"] += [
    "Topic: message retention/replay (set_retain_messages) and the max_subscribers limit are not configured "
    "(_retain_messages is False, _max_subscribers is None): the bounded deque(maxlen) history and the generator-expression "
    "subscriber count are outside the modelled fragment",
]

SUBMAP = Map(Ref(Entity), Ref(Subscription), ordered=True)
cls(Subscription, fields={"subscriber": Ref(Entity), "subscribed_at": TIME, "messages_received": Int, "active": Bool})


class TV:
    """raw views of a Topic in the state `o` looks at"""

    def __init__(self, o):
        c = _ctx.cur()
        fz = o._frozen
        m = z3.Select(c.heap.array(("Topic", "_subscriptions"), SUBMAP, fz), o._ref)
        self.D, self.V, self.K = SUBMAP.dt.dom(m), SUBMAP.dt.val(m), SUBMAP.dt.keys(m)
        self.n = z3.Length(self.K)
        self.size = SUBMAP.dt.size(m)
        self.A_sub = c.heap.array(("Subscription", "subscriber"), Ref(Entity), fz)
        self.A_act = c.heap.array(("Subscription", "active"), Bool, fz)
        self.A_rcv = c.heap.array(("Subscription", "messages_received"), Int, fz)
        self.delivered = z3.Select(c.heap.array(("Topic", "_messages_delivered"), Int, fz), o._ref)

    def sub(self, j):
        """the subscription object of the j-th key"""
        return self.V[self.K[j]]


def _topic_inv(o):
    v = TV(o)
    alloc = _ctx.cur().heap.alloc
    return (mk_bool(v.n == v.size)
            & forall(Int, lambda j: mk_bool(z3.Implies(z3.And(j.t >= 0, j.t < v.n), z3.And(
                v.D[v.K[j.t]], v.sub(j.t) >= 1, v.sub(j.t) <= alloc, v.A_sub[v.sub(j.t)] == v.K[j.t]))))
            & forall(Int, lambda a: forall(Int, lambda b: mk_bool(z3.Implies(
                z3.And(a.t >= 0, a.t < b.t, b.t < v.n), v.K[a.t] != v.K[b.t]))))
            & forall(Int, lambda e: mk_bool(z3.Implies(v.D[e.t], z3.And(
                v.V[e.t] >= 1, v.V[e.t] <= alloc, v.A_sub[v.V[e.t]] == e.t)))))


cls(Topic, fields={"_delivery_latency": Real, "_max_subscribers": Opt(Int), "_subscriptions": SUBMAP,
                   "_message_history": Seq(Ref(Event)), "_retain_messages": Bool, "_messages_published": Int,
                   "_messages_delivered": Int, "_subscribers_added": Int, "_subscribers_removed": Int,
                   "_delivery_latencies": Seq(Real)},
    const=["_delivery_latency", "_max_subscribers"],
    inv=[("subscriptions-keyed-by-their-subscriber-keys-distinct", _topic_inv),
         ("latency-nonneg", lambda o: o._delivery_latency >= 0)])

TOPIC_CFG = [("no-retention", lambda s: Not(s.self._retain_messages)), ("no-subscriber-limit", lambda s: s.self._max_subscribers is None)]


def _other_subs_same(s, who):
    o, n = TV(s.old(s.self)), TV(s.self)
    return forall(Int, lambda e: mk_bool(z3.Implies(z3.And(e.t != who._ref, o.D[e.t]), z3.And(
        n.D[e.t], n.V[e.t] == o.V[e.t], n.A_act[n.V[e.t]] == o.A_act[o.V[e.t]], n.A_rcv[n.V[e.t]] == o.A_rcv[o.V[e.t]]))))


fn(Topic, "subscribe", args={"subscriber": Ref(Entity), "replay_history": Bool}, requires=TOPIC_CFG, ensures=[
    ("subscribed-and-active", lambda s: mk_bool(z3.And(
        TV(s.self).D[s.subscriber._ref], TV(s.self).A_act[TV(s.self).V[s.subscriber._ref]]))),
    ("other-subscriptions-untouched", lambda s: _other_subs_same(s, s.subscriber)),
    ("nobody-else-subscribed", lambda s: forall(Int, lambda e: mk_bool(z3.Implies(
        z3.And(TV(s.self).D[e.t], e.t != s.subscriber._ref), TV(s.old(s.self)).D[e.t])))),
    ("no-replay-without-retention", lambda s: len(s.result) == 0)])

fn(Topic, "unsubscribe", args={"subscriber": Ref(Entity)}, ensures=[
    ("no-longer-active", lambda s: mk_bool(z3.Implies(
        TV(s.self).D[s.subscriber._ref], z3.Not(TV(s.self).A_act[TV(s.self).V[s.subscriber._ref]])))),
    ("other-subscriptions-untouched", lambda s: _other_subs_same(s, s.subscriber)),
    ("keys-kept", lambda s: mk_bool(TV(s.self).D == TV(s.old(s.self)).D))])


def _lst(x):
    """z3 sequence of a list local that is a Python list before the loop cut and a SymList afterwards"""
    if isinstance(x, SymList):
        return x.term
    return Seq(Ref(Event)).unwrap(x)


def _sync_inv(L):
    o, n = TV(L.old(L.self)), TV(L.self)
    i = num(L.i)
    evs = _lst(L.delivery_events)
    return (forall(Int, lambda j: mk_bool(z3.Implies(z3.And(j.t >= 0, j.t < n.n), n.A_rcv[n.sub(j.t)] == o.A_rcv[n.sub(j.t)]
                                                     + z3.If(z3.And(j.t < i, n.A_act[n.sub(j.t)]), 1, 0))))
            & mk_bool(z3.Length(evs) == n.delivered - o.delivered))


def _sync_events(L_or_s, events, topic=None):
    """every emitted event is a topic delivery stamped `now`, addressed to an ACTIVE subscriber"""
    me = topic if topic is not None else L_or_s.self
    n = TV(me)
    c = _ctx.cur()
    evs = _lst(events)
    A_t, A_ty = c.heap.array(("Event", "time"), TIME), c.heap.array(("Event", "event_type"), Str)
    A_tg, A_c = c.heap.array(("Event", "target"), Ref(Entity)), c.heap.array(("Event", "_cancelled"), Bool)
    now = TIME.unwrap(me._clock._current_time)
    return forall(Int, lambda m: mk_bool(z3.Implies(z3.And(m.t >= 0, m.t < z3.Length(evs)), z3.And(
        A_t[evs[m.t]] == now, A_ty[evs[m.t]] == z3.StringVal("topic_message"), z3.Not(A_c[evs[m.t]]),
        n.D[A_tg[evs[m.t]]], n.A_act[n.V[A_tg[evs[m.t]]]]))))


def _sync_post(s):
    o, n = TV(s.old(s.self)), TV(s.self)
    return forall(Int, lambda j: mk_bool(z3.Implies(z3.And(j.t >= 0, j.t < n.n), n.A_rcv[n.sub(j.t)] == o.A_rcv[n.sub(j.t)]
                                                    + z3.If(n.A_act[n.sub(j.t)], 1, 0))))


fn(Topic, "publish_sync", args={"message": Ref(Event)}, requires=TOPIC_CFG, ensures=[
    ("every-active-subscription-receives-exactly-once", _sync_post),
    ("one-event-per-delivery", lambda s: slen(s.result) == s.self._messages_delivered - s.old(s.self)._messages_delivered),
    ("events-reach-active-subscribers-stamped-now", lambda s: _sync_events(s, s.result)),
    ("published-counted", lambda s: s.self._messages_published == s.old(s.self)._messages_published + 1),
    ("subscriptions-kept", lambda s: unchanged(s, s.self, "_subscriptions"))])


# ============================================================================ D. EventLog
import happysimulator.components.streaming.event_log as _log_mod  # noqa: E402
from happysimulator.components.streaming.event_log import EventLog, Partition, Record, SizeRetention  # noqa: E402
from happysimulator.components.datastore.sharded_store import HashSharding  # noqa: E402
from pyvc.extern import _uf  # noqa: E402

PROPERTY["trusted"] += ["hashlib.md5: deterministic function of its input (uninterpreted), pyvc/extern.py"]
PROPERTY["assumptions"] += [
    "EventLog: the sharding strategy is the default HashSharding; the retention policy is None or a SizeRetention "
    "(TimeRetention filters with a conditional comprehension, outside the modelled fragment)",
]

RECORD = valueclass("Record", [Record], [("offset", Int), ("key", Str), ("value", Any), ("timestamp", Real), ("partition", Int)])
cls(Partition, fields={"id": Int, "records": Seq(RECORD), "high_watermark": Int})
cls(HashSharding, fields={})
cls(SizeRetention, fields={"_max_records": Int}, inv=[("positive", lambda o: o._max_records >= 1)])


class LV:
    """raw views of an EventLog in the state `o` looks at"""

    def __init__(self, o):
        c = _ctx.cur()
        fz = o._frozen
        self.parts = z3.Select(c.heap.array(("EventLog", "_partitions"), Seq(Ref(Partition)), fz), o._ref)
        self.n = z3.Select(c.heap.array(("EventLog", "_num_partitions"), Int, fz), o._ref)
        self.A_id = c.heap.array(("Partition", "id"), Int, fz)
        self.A_rec = c.heap.array(("Partition", "records"), Seq(RECORD), fz)
        self.A_hw = c.heap.array(("Partition", "high_watermark"), Int, fz)

    def rec(self, i):
        return self.A_rec[self.parts[i]]

    def hw(self, i):
        return self.A_hw[self.parts[i]]

    def low(self, i):
        """retention low mark of partition i: offset of its oldest retained record"""
        return self.hw(i) - z3.Length(self.rec(i))


def _log_shape(o):
    v = LV(o)
    alloc = _ctx.cur().heap.alloc
    return mk_bool(z3.And(z3.Length(v.parts) == v.n, v.n >= 1)) & forall(Int, lambda i: mk_bool(z3.Implies(
        z3.And(i.t >= 0, i.t < v.n), z3.And(v.parts[i.t] >= 1, v.parts[i.t] <= alloc, v.A_id[v.parts[i.t]] == i.t,
                                            v.low(i.t) >= 0))))


def _log_offsets(o):
    """offsets within a partition are gap free and increasing between the retention low mark and the high watermark"""
    v = LV(o)
    R = RECORD.dt
    return forall(Int, lambda i: forall(Int, lambda j: mk_bool(z3.Implies(
        z3.And(i.t >= 0, i.t < v.n, j.t >= 0, j.t < z3.Length(v.rec(i.t))),
        z3.And(R.offset(v.rec(i.t)[j.t]) == v.low(i.t) + j.t, R.partition(v.rec(i.t)[j.t]) == i.t)))))


cls(EventLog, fields={"_num_partitions": Int, "_sharding": Ref(HashSharding), "_retention_policy": OptRef(SizeRetention),
                      "_append_latency": Real, "_read_latency": Real, "_retention_check_interval": Real,
                      "_partitions": Seq(Ref(Partition)), "_retention_scheduled": Bool, "_records_appended": Int,
                      "_records_read": Int, "_records_expired": Int, "_per_partition_appends": Map(Int, Int),
                      "_append_latencies": Seq(Real)},
    const=["_num_partitions", "_sharding", "_retention_policy", "_partitions"],
    inv=[("one-partition-object-per-id", _log_shape),
         ("offsets-gap-free-from-low-mark-to-high-watermark", _log_offsets)])


def key_hash(key):
    """the uninterpreted md5 value the hashlib shim uses (a function of the key only)"""
    return _uf("hash_md5", z3.StringSort(), z3.IntSort())(_kt(key))


def shard_of(key, n):
    h = key_hash(key)
    nn = num(n)
    return h - nn * z3.If(nn > 0, h / nn, (-h) / (-nn))          # Python's h % n as the code computes it


fn(EventLog, "_get_partition_for_key", args={"key": Str}, ensures=[
    ("in-range", lambda s: (s.result >= 0) & (s.result < s.self._num_partitions)),
    ("function-of-key-and-partition-count-only", lambda s: mk_bool(num(s.result) == shard_of(s.key, s.self._num_partitions))),
    ("pure", lambda s: unchanged(s, s.self))])


def _append_post(s):
    o, n = LV(s.old(s.self)), LV(s.self)
    r = RECORD.unwrap(s.result)
    R = RECORD.dt
    pid = shard_of(s.key, s.self._num_partitions)
    return (mk_bool(z3.And(R.offset(r) == o.hw(pid), n.hw(pid) == o.hw(pid) + 1,
                           n.rec(pid) == z3.Concat(o.rec(pid), z3.Unit(r)),
                           R.partition(r) == pid, R.key(r) == _kt(s.key), R.value(r) == s.value.t))
            & forall(Int, lambda i: mk_bool(z3.Implies(z3.And(i.t >= 0, i.t < n.n, i.t != pid),
                                                       z3.And(n.rec(i.t) == o.rec(i.t), n.hw(i.t) == o.hw(i.t))))))


fn(EventLog, "_do_append", args={"key": Str, "value": Any}, ensures=[
    ("appended-at-the-high-watermark-of-the-keys-partition", _append_post),
    ("counted", lambda s: s.self._records_appended == s.old(s.self)._records_appended + 1)])


def _read_k0(L_or_s, v, pid):
    off = num(L_or_s.offset)
    d = off - v.low(pid)
    return z3.If(d > 0, d, z3.IntVal(0))


def _read_inv(L):
    v = LV(L.self)
    pid = num(L.partition_id)
    recs = v.rec(pid)
    i = num(L.i)
    _ctx.cur().note_term(i)
    res = L.result.term if isinstance(L.result, SymList) else Seq(RECORD).unwrap(L.result)
    k0 = _read_k0(L, v, pid)
    ln = z3.If(i > k0, i - k0, z3.IntVal(0))
    return mk_bool(z3.And(res == z3.Extract(recs, k0, ln), z3.Length(res) == ln,
                          z3.Or(z3.Length(res) == 0, z3.Length(res) < num(L.max_records)),
                          seq_term(L.seq) == recs))


def _read_post(s):
    v = LV(s.self)
    if isinstance(s.result, list) and not s.result:
        res = z3.Empty(z3.SeqSort(RECORD.sort()))
    else:
        res = s.result.term
    pid = num(s.partition_id)
    in_range = z3.And(pid >= 0, pid < v.n)
    recs = v.rec(pid)
    k0 = _read_k0(s, v, pid)
    mx = num(s.max_records)
    return mk_bool(z3.And(
        z3.Implies(z3.Not(in_range), z3.Length(res) == 0),
        z3.Implies(in_range, z3.And(
            res == z3.Extract(recs, k0, z3.Length(res)),                         # the gap-free run starting at the first
            z3.Or(z3.Length(res) <= mx, z3.Length(res) == 1),                    # offset >= requested; bounded by max_records
            z3.Or(z3.Length(res) >= mx, k0 + z3.Length(res) >= z3.Length(recs))))))   # short only at the high watermark


fn(EventLog, "_do_read", args={"partition_id": Int, "offset": Int, "max_records": Int}, ensures=[
    ("returns-the-gap-free-run-from-the-requested-offset-in-offset-order", _read_post),
    ("counted", lambda s: s.self._records_read == s.old(s.self)._records_read + slen(s.result)),
    ("log-untouched", lambda s: unchanged(s, s.self, "_partitions", "_num_partitions"))])

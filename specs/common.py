"""Shared declarations: temporal value classes, Clock, Entity, Event and its queue subclasses.

Import this module only AFTER every loop()/ghost() declaration of the property spec (it imports
happysimulator).  Field types are derived from the constructors in core/{temporal,clock,entity,
event}.py; each assumption made here is listed in COMMON_ASSUMPTIONS and copied into evidence.
"""
import sys

from pyvc.spec import *

from happysimulator.core.temporal import Instant, Duration, _InfiniteInstant
from happysimulator.core.clock import Clock
from happysimulator.core.entity import Entity
from happysimulator.core.event import Event, ProcessContinuation

COMMON_ASSUMPTIONS = [
    "A-python: no monkey-patching, no reflection beyond getattr(x, literal, default); exceptions propagate normally; "
    "the simulation is single-threaded and cooperative (interleaving only at yields and between deliveries)",
    "A-float: Python floats are modelled as mathematical reals (no rounding, inf only as a distinguished capacity value)",
    "A-typing: fields hold values of the types declared in the spec files (derived from the constructors)",
    "entities are attached to a simulation (Entity._clock is not None) and the clock value and event timestamps are "
    "finite instants (Instant.Infinity is only used as an end_time)",
]

# ---- temporal ------------------------------------------------------------------------------
# TIME: a finite Instant (clock values, event timestamps); INSTANT: finite or Instant.Infinity
TIME = valueclass("Time", [Instant], [("nanoseconds", Int)])
INSTANT = valueclass("Instant", [Instant, _InfiniteInstant], [("nanoseconds", Int)])
DURATION = valueclass("Duration", [Duration], [("nanoseconds", Int)])
MAXSIZE = sys.maxsize
# typing invariant of the value class: an _InfiniteInstant always carries sys.maxsize (its __init__)
INSTANT.wf_fn = lambda dt, t: z3.And(z3.Or(dt.tag(t) == 0, dt.tag(t) == 1),
                                     z3.Implies(dt.tag(t) == 1, dt.nanoseconds(t) == MAXSIZE))


def ns(t):
    return t.nanoseconds


# ---- clock / entity ------------------------------------------------------------------------
cls(Clock, fields={"_current_time": TIME})
cls(Entity, fields={"name": Str, "_clock": Ref(Clock)}, const=["name", "_clock"])


def now_ns(entity):
    """the clock value seen by an entity, in ns (spec helper; no fork)"""
    return entity._clock._current_time.nanoseconds


# ---- events --------------------------------------------------------------------------------
HOOK = Fn(None, "hook")
cls(Event, fields={"time": TIME, "event_type": Str, "daemon": Bool, "target": Ref(Entity),
                   "on_complete": Seq(HOOK), "_sort_index": Int, "_id": Int, "_cancelled": Bool,
                   "context": Map(Str, Any)})

"""C17 - replication: acknowledged writes are where the mode promises; replicas converge.

Part A: vector-clock dominance, the conflict resolvers, the per-key merge function and its ACI lemmas.
Part B: ReplicatedStore quorum arithmetic.
See DESIGN.md section 3-C17.
"""
from pyvc.spec import *

F_ML = "happysimulator/components/replication/multi_leader.py"
F_CR = "happysimulator/components/replication/conflict_resolver.py"
F_PB = "happysimulator/components/replication/primary_backup.py"
F_CH = "happysimulator/components/replication/chain_replication.py"
F_RS = "happysimulator/components/datastore/replicated_store.py"


def view(d, k):
    """abstract value of a vector clock at node k: missing entries count as 0
    (d: symbolic dict, or a concrete dict literal such as the `{}` of `vc or {}`)"""
    if isinstance(d, dict):
        r = 0
        for kk, vv in d.items():
            r = ite(k == kk, vv, r)
        return r
    return d.get(k, 0)


# ---------------------------------------------------------------------------- loop contracts
# _vc_dominates (same text in multi_leader.py and conflict_resolver.py):  for k in all_keys: ... break
for _f in (F_ML, F_CR):
    loop(_f, "_vc_dominates", 1, inv=[
        ("no-deficit-so-far", lambda L: L.all_geq & forall(Str, lambda n: implies(
            contains(L.visited, n), view(L.a, n) >= view(L.b, n)))),
        ("any-gt-iff-seen-strict", lambda L: iff(L.any_gt, exists(Str, lambda n:
            contains(L.visited, n) & (view(L.a, n) > view(L.b, n))))),
    ])

from specs.common import *  # noqa: E402,F401

import happysimulator.components.replication.multi_leader as _ml_mod  # noqa: E402
import happysimulator.components.replication.conflict_resolver as _cr_mod  # noqa: E402

PROPERTY = {
    "id": "C17",
    "level": "proof",
    "trusted": ["heap typing of the fields declared in specs/C17.py and specs/common.py"],
    "assumptions": COMMON_ASSUMPTIONS + [
    ],
}

# ============================================================================ A. vector-clock dominance
VC = Map(Str, Int)


def dominates(a, b):
    """spec: a >= b pointwise (missing = 0) and a > b somewhere"""
    return (forall(Str, lambda n: view(a, n) >= view(b, n))
            & exists(Str, lambda n: view(a, n) > view(b, n)))


for _m in (_ml_mod.__name__, _cr_mod.__name__):
    fn(_m, "_vc_dominates", kind="function", args={"a": VC, "b": VC}, returns=Bool, label=_m.rsplit(".", 1)[1], ensures=[
        ("iff-pointwise-geq-and-somewhere-greater", lambda s: iff(s.result, dominates(s.a, s.b))),
        # the same statement in the shape callers can use without nested quantifiers
        ("true-only-if-geq-everywhere", lambda s: implies(s.result, forall(Str, lambda n: view(s.a, n) >= view(s.b, n)))),
        ("true-only-if-greater-somewhere", lambda s: implies(s.result, exists(Str, lambda n: view(s.a, n) > view(s.b, n)))),
        ("false-only-if-less-somewhere-or-nowhere-greater", lambda s: s.result | exists(Str, lambda n: view(s.a, n) < view(s.b, n))
            | forall(Str, lambda n: view(s.a, n) <= view(s.b, n)))])
DOM_CR = (_cr_mod.__name__, "_vc_dominates")
DOM_ML = (_ml_mod.__name__, "_vc_dominates")

# ============================================================================ A2. conflict resolvers
from happysimulator.components.replication.conflict_resolver import (  # noqa: E402
    VersionedValue, LastWriterWins, VectorClockMerge, ConflictResolver)

# a version of one key: value, float timestamp (HLC timestamps: see assumptions), writer, vector clock
VV = valueclass("VersionedValue", [VersionedValue],
                [("value", Any), ("timestamp", Real), ("writer_id", Str), ("vector_clock", Opt(VC))])


def lww_gt(x, y):
    """the last-writer-wins order: (timestamp, writer id) lexicographic, x strictly after y"""
    return (x.timestamp > y.timestamp) | ((x.timestamp == y.timestamp) & (y.writer_id < x.writer_id))


def vv_pair():
    return [VV.fresh("v0"), VV.fresh("v1")]


def is_obj(r, v):
    """the returned version is the object v (value classes are real instances: Python identity)"""
    return r is v


cls(LastWriterWins, fields={})
fn(LastWriterWins, "resolve", args={"key": Str, "versions": vv_pair}, ensures=[
    ("returns-one-of-the-candidates", lambda s: is_obj(s.result, s.versions[0]) or is_obj(s.result, s.versions[1])),
    ("no-candidate-is-later", lambda s: Not(lww_gt(s.versions[0], s.result)) & Not(lww_gt(s.versions[1], s.result))),
    ("later-candidate-wins", lambda s: implies(lww_gt(s.versions[1], s.versions[0]), is_obj(s.result, s.versions[1]))
        & implies(lww_gt(s.versions[0], s.versions[1]), is_obj(s.result, s.versions[0]))),
])


def vc_of(v):
    """the vector clock the code compares: `v.vector_clock or {}`"""
    return v.vector_clock if v.vector_clock is not None else {}


def cview(vc, n):
    return view(vc, n)


def vv_dominates(x, y):
    a, b = vc_of(x), vc_of(y)
    return (forall(Str, lambda n: cview(a, n) >= cview(b, n)) & exists(Str, lambda n: cview(a, n) > cview(b, n)))


cls(VectorClockMerge, fields={"_merge_fn": Opt(Fn(VV, "merge_fn"))})
fn(VectorClockMerge, "_resolve_pair", args={"key": Str, "a": VV, "b": VV}, uses=[DOM_CR],
   requires=[("default-lww-fallback", lambda s: s.self._merge_fn is None)],
   ensures=[
    ("causally-later-version-wins", lambda s: implies(vv_dominates(s.a, s.b), is_obj(s.result, s.a))
        & implies(vv_dominates(s.b, s.a), is_obj(s.result, s.b))),
    ("concurrent-falls-back-to-lww", lambda s: implies(
        Not(vv_dominates(s.a, s.b)) & Not(vv_dominates(s.b, s.a)),
        (is_obj(s.result, s.a) or is_obj(s.result, s.b))
        and (Not(lww_gt(s.a, s.result)) & Not(lww_gt(s.b, s.result))))),
])
fn(VectorClockMerge, "resolve", args={"key": Str, "versions": vv_pair}, uses=[DOM_CR],
   requires=[("default-lww-fallback", lambda s: s.self._merge_fn is None)],
   ensures=[
    ("causally-later-version-wins", lambda s: implies(vv_dominates(s.versions[0], s.versions[1]), is_obj(s.result, s.versions[0]))
        & implies(vv_dominates(s.versions[1], s.versions[0]), is_obj(s.result, s.versions[1]))),
    ("returns-one-of-the-candidates", lambda s: is_obj(s.result, s.versions[0]) or is_obj(s.result, s.versions[1])),
])

# ============================================================================ B. ReplicatedStore quorum arithmetic
from pyvc import ctx as _ctx  # noqa: E402
from pyvc.types import Ty  # noqa: E402
from happysimulator.components.datastore.replicated_store import ReplicatedStore, ConsistencyLevel  # noqa: E402
from happysimulator.components.datastore.kv_store import KVStore  # noqa: E402


class EnumTy(Ty):
    """a Python Enum stored in a field: the member's position in the enum"""

    def __init__(self, enum):
        self.enum, self.members = enum, list(enum)
        self.name = f"Enum({enum.__name__})"

    def sort(self):
        return z3.IntSort()

    def _rng(self, term):
        return z3.And(term >= 0, term < len(self.members))

    def wrap(self, term, loc=None):
        term = z3.simplify(term)
        if z3.is_int_value(term):
            return self.members[term.as_long()]
        c = _ctx.cur()
        c.assume(self._rng(term))
        return self.members[c.choose([term == i for i in range(len(self.members))], site="enum:" + self.name)]

    def unwrap(self, v):
        if isinstance(v, self.enum):
            return z3.IntVal(self.members.index(v))
        raise OutOfReach(f"{type(v).__name__} stored where {self.name} is declared")

    def assume_wf(self, term):
        _ctx.cur().assume(self._rng(term))

    def concretize(self, model, term):
        v = model.eval(term, model_completion=True).as_long()
        return self.members[v].name if 0 <= v < len(self.members) else v


LEVEL = EnumTy(ConsistencyLevel)
cls(KVStore, fields={"_read_latency": Real, "_write_latency": Real, "_delete_latency": Real, "_capacity": Opt(Int),
                     "_data": Map(Str, Any), "_insertion_order": Seq(Str), "_reads": Int, "_writes": Int, "_deletes": Int,
                     "_hits": Int, "_misses": Int, "_evictions": Int},
    const=["_read_latency", "_write_latency", "_delete_latency", "_capacity"],
    inv=[("latencies-nonneg", lambda o: (o._read_latency >= 0) & (o._write_latency >= 0) & (o._delete_latency >= 0))])
cls(ReplicatedStore, fields={"_replicas": Seq(Ref(KVStore)), "_read_consistency": LEVEL, "_write_consistency": LEVEL,
                             "_read_timeout": Real, "_write_timeout": Real, "_reads": Int, "_writes": Int,
                             "_read_successes": Int, "_read_failures": Int, "_write_successes": Int,
                             "_write_failures": Int, "_replica_timeouts": Int,
                             "_read_latencies": Seq(Real), "_write_latencies": Seq(Real)},
    const=["_replicas", "_read_consistency", "_write_consistency"],
    inv=[("at-least-one-replica", lambda o: slen(o._replicas) >= 1)])


def n_replicas(o):
    return slen(o._replicas)


def required_spec(o, level, r):
    """what the consistency level promises: ONE -> 1, QUORUM -> a strict majority, ALL -> every replica"""
    n = n_replicas(o)
    if level is ConsistencyLevel.ONE:
        return r == 1
    if level is ConsistencyLevel.QUORUM:
        return (2 * r > n) & (r <= n) & (2 * (r - 1) <= n)      # the smallest strict majority
    return r == n


fn(ReplicatedStore, "quorum_size", ensures=[
    ("smallest-strict-majority", lambda s: (2 * s.result > n_replicas(s.self)) & (2 * (s.result - 1) <= n_replicas(s.self))),
    ("pure", lambda s: unchanged(s, s.self))])
fn(ReplicatedStore, "_required_responses", args={"consistency": LEVEL}, ensures=[
    ("as-many-as-the-level-promises", lambda s: required_spec(s.self, s.consistency, s.result)),
    ("never-more-than-there-are-replicas", lambda s: (1 <= s.result) & (s.result <= n_replicas(s.self))),
    ("pure", lambda s: unchanged(s, s.self))])
fn(ReplicatedStore, "_validate_consistency", ensures=[("accepts-any-level-with-replicas", lambda s: unchanged(s, s.self))])


def _quorum_lemmas():
    # two write quorums / a read and a write quorum of the QUORUM level share a replica (pigeonhole on counts):
    # |A| + |B| > n  ==>  A and B intersect.  Here on the sizes the contract above fixes.
    n, r, w = fresh(Int, "n"), fresh(Int, "r"), fresh(Int, "w")
    assume(n >= 1)
    assume((2 * r > n) & (r <= n))
    assume((2 * w > n) & (w <= n))
    oblige("quorum-read-write-overlap", r + w > n)
    oblige("all-overlaps-anything", implies(w == n, (r >= 1) & (r + w > n)))


lemma("quorum-intersection-arithmetic", _quorum_lemmas)

"""C17 - replication: acknowledged writes are where the mode promises; replicas converge.

Part A: vector-clock dominance, the conflict resolvers.          Part B: ReplicatedStore quorum arithmetic.
Part C: message / future / store modelling.                      Part D-E: primary-backup (backup, primary).
Part F: chain replication (CRAQ dirty bookkeeping, reads).       Part G: multi-leader (per-key merge on Replicate, local write).
Part H: lemmas (merge is ACI, newest-seq-wins is order independent, ack => applied composition).
Part I: bounded native stand-in (findings/c17_replication.py).
Part J: multi-leader anti-entropy (digest, request, response handlers; exchange lemma); build_chain.
Part K: ReplicatedStore.get / put / delete (3 replicas that may fail, one task per consistency level).
Exit 0 needs fixes/C17_*.diff applied to the repo; the pinned tree violates the property (see the ghost assertions
`backup/...`, `chain/...`, the ChainNode invariants and the LeaderNode yield clauses).  See DESIGN.md section 3-C17.
"""
from pyvc.spec import *

F_ML = "happysimulator/components/replication/multi_leader.py"
F_CR = "happysimulator/components/replication/conflict_resolver.py"
F_PB = "happysimulator/components/replication/primary_backup.py"
F_CH = "happysimulator/components/replication/chain_replication.py"
F_RS = "happysimulator/components/datastore/replicated_store.py"


def view(d, k):
    """abstract value of a vector clock at node k: missing entries count as 0
    (d: symbolic dict, or a concrete dict literal such as the `{}` of `vc or {}`)"""
    if isinstance(d, dict):
        r = 0
        for kk, vv in d.items():
            r = ite(k == kk, vv, r)
        return r
    return d.get(k, 0)


# ---------------------------------------------------------------------------- loop contracts
# _vc_dominates (same text in multi_leader.py and conflict_resolver.py):  for k in all_keys: ... break
for _f in (F_ML, F_CR):
    loop(_f, "_vc_dominates", 1, inv=[
        ("no-deficit-so-far", lambda L: L.all_geq & forall(Str, lambda n: implies(
            contains(L.visited, n), view(L.a, n) >= view(L.b, n)))),
        ("any-gt-iff-seen-strict", lambda L: iff(L.any_gt, exists(Str, lambda n:
            contains(L.visited, n) & (view(L.a, n) > view(L.b, n))))),
    ])

# ---------------------------------------------------------------------------- ghost statements
# BackupNode._handle_replicate: ghost bookkeeping of the newest write received per key, and the three
# points the property speaks about (value handed to the store, acknowledgement)
ghost(F_PB, "BackupNode._handle_replicate", "ack_future: SimFuture | None = metadata.get('ack_future')",
      "_c17_backup_received(self, key, value, seq)")
ghost(F_PB, "BackupNode._handle_replicate", "yield from self._store.put(key, value)",
      "_c17_backup_put(self, key, value, seq)", where="before")
ghost(F_PB, "BackupNode._handle_replicate", "ack_future.resolve(",
      "_c17_backup_ack(self, key, value, seq)", where="before")

# PrimaryNode._handle_write: ghost assertion before every acknowledgement of the client (three textual sites)
ghost(F_PB, "PrimaryNode._handle_write", "reply_future.resolve(", "_c17_primary_reply(self, key, value, seq)", where="before*")

# ChainNode: ghost bookkeeping of (a) the newest write received per key, (b) the writes applied at this node whose
# commit at the tail this node has not observed yet (CRAQ: exactly those make a key dirty)
ghost(F_CH, "ChainNode._handle_write", "yield from self._store.put(key, value)", "_c17_chain_applied(self, key, seq)")
ghost(F_CH, "ChainNode._handle_write", "return None", "_c17_chain_head_done(self, locals())", where="before*")
ghost(F_CH, "ChainNode._handle_write", "reply_future.resolve({'status': 'ok'", "_c17_chain_reply(self, key, seq, locals().get('ack_future'))", where="before")
ghost(F_CH, "ChainNode._handle_propagate", "self._propagations_received += 1", "_c17_chain_received(self, key, value, seq)")
ghost(F_CH, "ChainNode._handle_propagate", "yield from self._store.put(", "_c17_chain_put(self, key)", where="before")
ghost(F_CH, "ChainNode._handle_propagate", "yield from self._store.put(", "_c17_chain_put_done(self, key, seq)")
ghost(F_CH, "ChainNode._handle_propagate", "events = self._build_commit_notifications(key, seq)", "_c17_chain_committed(self, key, seq)", where="before")
ghost(F_CH, "ChainNode._handle_commit_notify", "", "_c17_chain_commit_msg(self, event)", where="entry")
ghost(F_CH, "ChainNode._handle_read", "reply_future.resolve(", "_c17_chain_read_reply(self, key, value)", where="before")

# ChainNode._find_tail: while node.next_node is not None  /  _build_commit_notifications: while node is not None
loop(F_CH, "ChainNode._find_tail", 1, inv=[("walks-the-chain", lambda L: True)])
loop(F_CH, "ChainNode._build_commit_notifications", 1, types={"events": lambda: Seq(Ref(Event)), "node": lambda: OptRef(ChainNode)},
     modifies=[("Event", "time"), ("Event", "event_type"), ("Event", "daemon"), ("Event", "target"), ("Event", "on_complete"),
               ("Event", "_sort_index"), ("Event", "_id"), ("Event", "_cancelled"), ("Event", "context")],
     inv=[("every-notification-names-the-key-and-the-seq", lambda L: _all_commit_notifies(L.self, L.events, L.key, L.seq))])

# LeaderNode anti-entropy (part J).  `for key, vdata in remote_versions.items()`: the body waits for the store, so
# any other process may run inside an iteration: world havoc at the loop head, the node's wiring is the frame.
# The only invariant is a per-iteration postcondition (L.loop_phase == "step"), see _ae_iteration.
AE_KEEPS = ([("LeaderNode", f) for f in ("_store", "_network", "_resolver", "_merkle", "_vclock", "_peers")]
            + [("KVStore", f) for f in ("_read_latency", "_write_latency", "_delete_latency", "_capacity")]
            + [("Entity", "_clock"), ("Entity", "name"), ("Event", "context"), ("Event", "event_type"), ("Event", "target")])
for _q in ("LeaderNode._handle_anti_entropy_request", "LeaderNode._handle_anti_entropy_response"):
    loop(F_ML, _q, 1, modifies="world", keeps=AE_KEEPS, inv=[
        ("bounded-number-of-peers", lambda L: slen(L.self._peers) <= 3),
        ("this-key-holds-the-merge-of-own-and-received-version--recorded-before-any-store-wait", lambda L: _ae_iteration(L, 0)),
        ("no-other-key-touched--version-table-not-rewritten-after-the-wait", lambda L: _ae_iteration(L, 1)),
        ("store-receives-and-holds-the-value-of-the-recorded-version", lambda L: _ae_iteration(L, 2))])
# building the digest: `for key, vv in self._versions.items(): data_to_send[key] = {...}` (no waits, writes a local only)
for _q, _n in (("LeaderNode._handle_anti_entropy", 1), ("LeaderNode._handle_anti_entropy_request", 3)):
    loop(F_ML, _q, _n, types={"data_to_send": lambda: AEV}, inv=[
        ("digest-so-far-is-the-version-table-on-the-visited-keys", lambda L: _digest_so_far(L))])

from specs.common import *  # noqa: E402,F401

import happysimulator.components.replication.multi_leader as _ml_mod  # noqa: E402
import happysimulator.components.replication.conflict_resolver as _cr_mod  # noqa: E402

PROPERTY = {
    "id": "C17",
    "level": "proof",
    "trusted": ["heap typing of the fields declared in specs/C17.py and specs/common.py"],
    "task_timeout": 900,      # (refuting the clauses of ChainNode._handle_propagate on the unrepaired tree is slow)
    "assumptions": COMMON_ASSUMPTIONS + [
        "A-msg: event metadata of the replication protocols is a record over the keys source, destination, key, value, "
        "seq, ack_future, reply_future, timestamp, writer_id, vector_clock, root_hash with the value types of "
        "specs/C17.py; a message (Event.context / event_type / target) is not modified after it has been sent",
        "A-wf: client Write requests carry key and value, Read requests a key; Replicate / Propagate messages carry "
        "key, value and a seq >= 1, multi-leader Replicate messages are complete (as the verified senders build them)",
        "A-store (stub_of KVStore.get/put; kv_store.py is not anchored): one wait of the configured latency, then one "
        "atomic effect (put: data[key] = value, get: the current value or None); replica stores are unbounded "
        "(KVStore._capacity is None - a bounded store evicts acknowledged writes by construction)",
        "A-store-fifo: writes issued to one KVStore complete in the order they were issued (constant write latency + "
        "FIFO tie-break of the event heap, C01) - used only in the paper step from 'the store is always handed the "
        "value of the newest write' to 'the store ends with the value of the newest write'",
        "A-future (C02, stub_of SimFuture.resolve / all_of / any_of + rely at yields): a process that yields a future is "
        "resumed only after the future is resolved; an all_of future resolves only when every part has, an any_of "
        "future only when some part has; resolve() settles the future",
        "A-network: Network.send runs inlined (real code); delivery, delay and reordering of the created messages are "
        "arbitrary (every yield havocs the whole heap except the listed stable fields)",
        "A-bound: at most 3 backups per primary / 3 peers per leader (the handlers are unrolled over the list; the "
        "clauses are the same for every size, the check covers 0..3)",
        "A-chain: chain nodes are wired by build_chain (the node reached by following next_node has role TAIL; "
        "build_chain itself is verified for 2, 3 and 4 nodes, entities 'as attached'); a "
        "node that is not wired into a chain (head_node is None) answers reads from its own store",
        "A-digest (part J): an AntiEntropyRequest / AntiEntropyResponse carries 'versions', every entry of it has value, "
        "timestamp and writer_id, a request also names its source and root_hash - as the verified senders "
        "(_handle_anti_entropy, _handle_anti_entropy_request + Network.send) build them; MerkleTree.root_hash is an opaque "
        "string (stub_of, C20); random.choice returns ANY element of the list; in the two merge-loop tasks "
        "LastWriterWins.resolve is replaced by its contract of part A2 (second candidate iff strictly later) and each "
        "solver stage is limited to 10 s (every clause proves in < 0.2 s; a shorter limit can only turn a verdict into "
        "UNDECIDED, never into a pass)",
        "A-exchange: 'after a completed exchange both leaders hold the resolver's winner' is the lemma "
        "anti-entropy-exchange-leaves-both-with-the-winner over the per-iteration clauses, for an exchange during which "
        "no other handler writes the key (every store wait inside the merge loops is a world-havoc point in the proof, so "
        "the per-key clauses themselves hold under any interleaving); a responder stays silent when the Merkle digests "
        "agree (equal key->VALUE maps, C20) - version metadata may then differ while the values agree",
        "A-replicas (part K): a ReplicatedStore has 3 pairwise distinct, unbounded KVStore replicas (one task per "
        "consistency level; the quorum arithmetic for any n is part B); a replica operation either raises TimeoutError "
        "before having any effect (the failure the code catches) or behaves as the KVStore contract (stub_of "
        "KVStore.get/put/delete).  NOT covered: read-your-writes for R + W > N after a replica missed a write - replica "
        "values carry no version and get() returns the first non-None answer (open finding, triage/c17_quorum_stale_read.py)",
        "A-lww: versions carry float timestamps (HLCTimestamp timestamps are not covered) and leaders use the default "
        "LastWriterWins resolver; VectorClockMerge is verified with merge_fn=None",
        "A-ML-timestamps (hypothesis H1 of the merge lemma): a version whose vector clock dominates another's also has "
        "the later (timestamp, writer) pair, and a (timestamp, writer) pair names one version - true when causally "
        "ordered writes happen at distinct simulated instants; with zero-latency links and same-instant writes "
        "last-writer-wins and causality can disagree (not covered)",
        "A-clock/merkle: VectorClock.send/receive (contracts of specs/C18.py) and MerkleTree.update (C20) are used "
        "opaquely (stub_of with no ensures; also VectorClock.__init__ in the add_peers task); leaders are wired with "
        "add_peers (LeaderNode._vclock is not None - add_peers itself is verified to create the clock)",
        "composition: 'once all in-flight messages are delivered every replica holds the same value' is the paper step "
        "from the per-handler clauses + the lemmas of part H (each replica's per-key state is an order-independent "
        "fold over the set of messages it received); the anti-entropy handlers apply the same per-key merge in a loop "
        "(part J: per-iteration clauses + exchange lemma) and are additionally exercised end to end by the bounded check",
    ],
}

# ============================================================================ A. vector-clock dominance
VC = Map(Str, Int)


def dominates(a, b):
    """spec: a >= b pointwise (missing = 0) and a > b somewhere"""
    return (forall(Str, lambda n: view(a, n) >= view(b, n))
            & exists(Str, lambda n: view(a, n) > view(b, n)))


for _m in (_ml_mod.__name__, _cr_mod.__name__):
    fn(_m, "_vc_dominates", kind="function", args={"a": VC, "b": VC}, returns=Bool, label=_m.rsplit(".", 1)[1], ensures=[
        ("iff-pointwise-geq-and-somewhere-greater", lambda s: iff(s.result, dominates(s.a, s.b))),
        # the same statement in the shape callers can use without nested quantifiers
        ("true-only-if-geq-everywhere", lambda s: implies(s.result, forall(Str, lambda n: view(s.a, n) >= view(s.b, n)))),
        ("true-only-if-greater-somewhere", lambda s: implies(s.result, exists(Str, lambda n: view(s.a, n) > view(s.b, n)))),
        ("false-only-if-less-somewhere-or-nowhere-greater", lambda s: s.result | exists(Str, lambda n: view(s.a, n) < view(s.b, n))
            | forall(Str, lambda n: view(s.a, n) <= view(s.b, n)))])
DOM_CR = (_cr_mod.__name__, "_vc_dominates")
DOM_ML = (_ml_mod.__name__, "_vc_dominates")

# ============================================================================ A2. conflict resolvers
from happysimulator.components.replication.conflict_resolver import (  # noqa: E402
    VersionedValue, LastWriterWins, VectorClockMerge, ConflictResolver)

# a version of one key: value, float timestamp (HLC timestamps: see assumptions), writer, vector clock
VV = valueclass("VersionedValue", [VersionedValue],
                [("value", Any), ("timestamp", Real), ("writer_id", Str), ("vector_clock", Opt(VC))])


def lww_gt(x, y):
    """the last-writer-wins order: (timestamp, writer id) lexicographic, x strictly after y"""
    return (x.timestamp > y.timestamp) | ((x.timestamp == y.timestamp) & (y.writer_id < x.writer_id))


def vv_pair():
    return [VV.fresh("v0"), VV.fresh("v1")]


def is_obj(r, v):
    """the returned version is the object v (value classes are real instances: Python identity)"""
    return r is v


cls(LastWriterWins, fields={})
fn(LastWriterWins, "resolve", args={"key": Str, "versions": vv_pair}, ensures=[
    ("returns-one-of-the-candidates", lambda s: is_obj(s.result, s.versions[0]) or is_obj(s.result, s.versions[1])),
    ("no-candidate-is-later", lambda s: Not(lww_gt(s.versions[0], s.result)) & Not(lww_gt(s.versions[1], s.result))),
    ("later-candidate-wins", lambda s: implies(lww_gt(s.versions[1], s.versions[0]), is_obj(s.result, s.versions[1]))
        & implies(lww_gt(s.versions[0], s.versions[1]), is_obj(s.result, s.versions[0]))),
    # (the handlers pass [stored, incoming]: on a tie the stored version stays - no needless store write)
    ("tie-keeps-the-first-candidate", lambda s: implies(Not(lww_gt(s.versions[1], s.versions[0])), is_obj(s.result, s.versions[0]))),
])


def _lww_by_contract():
    """LastWriterWins.resolve replaced by its contract above (two candidates: the second iff it is strictly later) -
    one fork instead of the tuple comparisons of max(); used by the anti-entropy tasks (part J)"""
    saved = []

    def resolve(self, key, versions):
        v0, v1 = versions
        return v1 if _ctx.cur().branch(to_z3_bool(lww_gt(v1, v0)), site="lww-resolve") else v0

    def setup(s):
        # (also: 10 s per solver stage instead of 180 s - every clause of these tasks proves in < 0.2 s; a VIOLATED
        # clause is refuted by the last, extensionality-free stage only, after the first three have timed out)
        saved.append((LastWriterWins.__dict__["resolve"], _ctx.OB_TIMEOUT_MS))
        LastWriterWins.resolve = resolve
        _ctx.OB_TIMEOUT_MS = min(_ctx.OB_TIMEOUT_MS, 40000)      # (wall-clock cap with a 200x margin over the 0.2 s needed)
        return []

    def teardown(s):
        while saved:
            LastWriterWins.resolve, _ctx.OB_TIMEOUT_MS = saved.pop()
    return {"setup": setup, "teardown": teardown}


def vc_of(v):
    """the vector clock the code compares: `v.vector_clock or {}`"""
    return v.vector_clock if v.vector_clock is not None else {}


def cview(vc, n):
    return view(vc, n)


def vv_dominates(x, y):
    a, b = vc_of(x), vc_of(y)
    return (forall(Str, lambda n: cview(a, n) >= cview(b, n)) & exists(Str, lambda n: cview(a, n) > cview(b, n)))


cls(VectorClockMerge, fields={"_merge_fn": Opt(Fn(VV, "merge_fn"))})
fn(VectorClockMerge, "_resolve_pair", args={"key": Str, "a": VV, "b": VV}, uses=[DOM_CR],
   requires=[("default-lww-fallback", lambda s: s.self._merge_fn is None)],
   ensures=[
    ("causally-later-version-wins", lambda s: implies(vv_dominates(s.a, s.b), is_obj(s.result, s.a))
        & implies(vv_dominates(s.b, s.a), is_obj(s.result, s.b))),
    ("concurrent-falls-back-to-lww", lambda s: implies(
        Not(vv_dominates(s.a, s.b)) & Not(vv_dominates(s.b, s.a)),
        (is_obj(s.result, s.a) or is_obj(s.result, s.b))
        and (Not(lww_gt(s.a, s.result)) & Not(lww_gt(s.b, s.result))))),
])
fn(VectorClockMerge, "resolve", args={"key": Str, "versions": vv_pair}, uses=[DOM_CR],
   requires=[("default-lww-fallback", lambda s: s.self._merge_fn is None)],
   ensures=[
    ("causally-later-version-wins", lambda s: implies(vv_dominates(s.versions[0], s.versions[1]), is_obj(s.result, s.versions[0]))
        & implies(vv_dominates(s.versions[1], s.versions[0]), is_obj(s.result, s.versions[1]))),
    ("returns-one-of-the-candidates", lambda s: is_obj(s.result, s.versions[0]) or is_obj(s.result, s.versions[1])),
])

# ============================================================================ B. ReplicatedStore quorum arithmetic
from pyvc import ctx as _ctx  # noqa: E402
from pyvc.types import Ty  # noqa: E402
from happysimulator.components.datastore.replicated_store import ReplicatedStore, ConsistencyLevel  # noqa: E402
from happysimulator.components.datastore.kv_store import KVStore  # noqa: E402


class EnumTy(Ty):
    """a Python Enum stored in a field: the member's position in the enum"""

    def __init__(self, enum):
        self.enum, self.members = enum, list(enum)
        self.name = f"Enum({enum.__name__})"

    def sort(self):
        return z3.IntSort()

    def _rng(self, term):
        return z3.And(term >= 0, term < len(self.members))

    def wrap(self, term, loc=None):
        term = z3.simplify(term)
        if z3.is_int_value(term):
            return self.members[term.as_long()]
        c = _ctx.cur()
        c.assume(self._rng(term))
        return self.members[c.choose([term == i for i in range(len(self.members))], site="enum:" + self.name)]

    def unwrap(self, v):
        if isinstance(v, self.enum):
            return z3.IntVal(self.members.index(v))
        raise OutOfReach(f"{type(v).__name__} stored where {self.name} is declared")

    def assume_wf(self, term):
        _ctx.cur().assume(self._rng(term))

    def concretize(self, model, term):
        v = model.eval(term, model_completion=True).as_long()
        return self.members[v].name if 0 <= v < len(self.members) else v


LEVEL = EnumTy(ConsistencyLevel)
cls(KVStore, fields={"_read_latency": Real, "_write_latency": Real, "_delete_latency": Real, "_capacity": Opt(Int),
                     "_data": Map(Str, Any), "_insertion_order": Seq(Str), "_reads": Int, "_writes": Int, "_deletes": Int,
                     "_hits": Int, "_misses": Int, "_evictions": Int},
    const=["_read_latency", "_write_latency", "_delete_latency", "_capacity"],
    inv=[("latencies-nonneg", lambda o: (o._read_latency >= 0) & (o._write_latency >= 0) & (o._delete_latency >= 0))])
cls(ReplicatedStore, fields={"_replicas": Seq(Ref(KVStore)), "_read_consistency": LEVEL, "_write_consistency": LEVEL,
                             "_read_timeout": Real, "_write_timeout": Real, "_reads": Int, "_writes": Int,
                             "_read_successes": Int, "_read_failures": Int, "_write_successes": Int,
                             "_write_failures": Int, "_replica_timeouts": Int,
                             "_read_latencies": Seq(Real), "_write_latencies": Seq(Real)},
    const=["_replicas", "_read_consistency", "_write_consistency"],
    inv=[("at-least-one-replica", lambda o: slen(o._replicas) >= 1)])


def n_replicas(o):
    return slen(o._replicas)


def required_spec(o, level, r):
    """what the consistency level promises: ONE -> 1, QUORUM -> a strict majority, ALL -> every replica"""
    n = n_replicas(o)
    if level is ConsistencyLevel.ONE:
        return r == 1
    if level is ConsistencyLevel.QUORUM:
        return (2 * r > n) & (r <= n) & (2 * (r - 1) <= n)      # the smallest strict majority
    return r == n


fn(ReplicatedStore, "quorum_size", ensures=[
    ("smallest-strict-majority", lambda s: (2 * s.result > n_replicas(s.self)) & (2 * (s.result - 1) <= n_replicas(s.self))),
    ("pure", lambda s: unchanged(s, s.self))])
fn(ReplicatedStore, "_required_responses", args={"consistency": LEVEL}, ensures=[
    ("as-many-as-the-level-promises", lambda s: required_spec(s.self, s.consistency, s.result)),
    ("never-more-than-there-are-replicas", lambda s: (1 <= s.result) & (s.result <= n_replicas(s.self))),
    ("pure", lambda s: unchanged(s, s.self))])
fn(ReplicatedStore, "_validate_consistency", ensures=[("accepts-any-level-with-replicas", lambda s: unchanged(s, s.self))])


def _quorum_lemmas():
    # two write quorums / a read and a write quorum of the QUORUM level share a replica (pigeonhole on counts):
    # |A| + |B| > n  ==>  A and B intersect.  Here on the sizes the contract above fixes.
    n, r, w = fresh(Int, "n"), fresh(Int, "r"), fresh(Int, "w")
    assume(n >= 1)
    assume((2 * r > n) & (r <= n))
    assume((2 * w > n) & (w <= n))
    oblige("quorum-read-write-overlap", r + w > n)
    oblige("all-overlaps-anything", implies(w == n, (r >= 1) & (r + w > n)))


lemma("quorum-intersection-arithmetic", _quorum_lemmas)

# ============================================================================ C. messages, network, futures, stores
# (types local to this property: event metadata - a heterogeneous dict with literal keys - as a record with a
# presence set; same modelling as specs/C11.py)
from pyvc.heap import Box, _default_of  # noqa: E402
from happysimulator.components.network.network import Network  # noqa: E402
from happysimulator.core.sim_future import SimFuture  # noqa: E402


class RecFieldLoc:
    def __init__(self, parent, rty, k):
        self.parent, self.rty, self.k = parent, rty, k

    def get(self):
        return self.rty.acc(self.k)(self.parent.get())

    def set(self, t):
        self.parent.set(self.rty.rebuild(self.parent.get(), vals={self.k: t}))


class Record(Ty):
    """dict with literal string keys of fixed value types: presence set + one typed slot per key"""

    def __init__(self, name, fields):
        self.name, self.fields = name, dict(fields)
        d = z3.Datatype("Rec_" + name)
        d.declare("mk", ("has", z3.ArraySort(z3.StringSort(), z3.BoolSort())),
                  *[("f_" + k, ty.sort()) for k, ty in self.fields.items()])
        self.dt = d.create()

    def sort(self):
        return self.dt

    def acc(self, k):
        return getattr(self.dt, "f_" + k)

    def has(self, term, k):
        return z3.Select(self.dt.has(term), z3.StringVal(k))

    def empty(self):
        return self.dt.mk(z3.K(z3.StringSort(), z3.BoolVal(False)), *[_default_of(ty.sort()) for ty in self.fields.values()])

    def rebuild(self, m, has=None, vals=None):
        vals = vals or {}
        return z3.simplify(self.dt.mk(has if has is not None else self.dt.has(m),
                                      *[vals.get(k, self.acc(k)(m)) for k in self.fields]))

    def wrap(self, term, loc=None):
        return RecProxy(loc if loc is not None else Box(term), self)

    def unwrap(self, v):
        if isinstance(v, RecProxy) and v._ty is self:
            return v._loc.get()
        if isinstance(v, dict):
            p = RecProxy(Box(self.empty()), self)
            for k, x in v.items():
                p[k] = x
            return p._loc.get()
        raise OutOfReach(f"{type(v).__name__} stored where record {self.name} is declared")


class RecProxy:
    def __init__(self, loc, ty):
        self._loc, self._ty = loc, ty

    @property
    def term(self):
        return self._loc.get()

    def _key(self, k):
        if not isinstance(k, str) or k not in self._ty.fields:
            raise OutOfReach(f"key {k!r} is not declared in record {self._ty.name}")
        return k

    def _val(self, k):
        return self._ty.fields[k].wrap(self._ty.acc(k)(self.term), RecFieldLoc(self._loc, self._ty, k))

    def get(self, k, default=None):
        k = self._key(k)
        if not _ctx.cur().branch(self._ty.has(self.term, k), site="rec:" + k):
            return default
        return self._val(k)

    def __getitem__(self, k):
        k = self._key(k)
        if not _ctx.cur().branch(self._ty.has(self.term, k), site="rec:" + k):
            raise KeyError(k)
        return self._val(k)

    def __contains__(self, k):
        return _ctx.cur().branch(self._ty.has(self.term, self._key(k)), site="rec:" + k)

    def __setitem__(self, k, v):
        k = self._key(k)
        m = self.term
        self._loc.set(self._ty.rebuild(m, has=z3.Store(self._ty.dt.has(m), z3.StringVal(k), z3.BoolVal(True)),
                                       vals={k: self._ty.fields[k].unwrap(v)}))

    def update(self, other):
        if isinstance(other, dict):
            for k, v in other.items():
                self[k] = v
            return
        if isinstance(other, RecProxy) and other._ty is self._ty:
            m, o, ty = self.term, other.term, self._ty
            self._loc.set(ty.rebuild(m, has=z3.SetUnion(ty.dt.has(m), ty.dt.has(o)),
                                     vals={k: z3.If(ty.has(o, k), ty.acc(k)(o), ty.acc(k)(m)) for k in ty.fields}))
            return
        raise OutOfReach("record.update with an unmodelled argument")

    def __bool__(self):
        return _ctx.cur().branch(self._ty.dt.has(self.term) != z3.K(z3.StringSort(), z3.BoolVal(False)), site="rec:bool")

    def copy(self):
        return RecProxy(Box(self.term), self._ty)

    __hash__ = None


# anti-entropy digest: key -> {'value', 'timestamp', 'writer_id', 'vector_clock'} (the fields of one version)
VDATA = Record("vdata", {"value": Any, "timestamp": Real, "writer_id": Str, "vector_clock": Opt(VC)})
AEV = Map(Str, VDATA)

# one record type for every message of the three replication protocols
MSG = Record("replmsg", {
    "source": Str, "destination": Str, "key": Str, "value": Any, "seq": Int,
    "ack_future": OptRef(SimFuture), "reply_future": OptRef(SimFuture),
    "timestamp": Real, "writer_id": Str, "vector_clock": VC, "root_hash": Str, "versions": AEV})
M = MSG.dt


class CtxProxy:
    """Event.context: only the 'metadata' entry is modelled ('id'/'created_at' are write-only here)"""

    def __init__(self, loc):
        self._loc = loc

    def _md(self, k):
        if k != "metadata":
            raise OutOfReach(f"event context key {k!r} is not modelled in specs/C17.py")
        return RecProxy(self._loc, MSG)

    def get(self, k, default=None):
        return self._md(k)

    __getitem__ = _md

    def setdefault(self, k, v=None):
        return v if k in ("id", "created_at") else self._md(k)

    def copy(self):
        return CtxProxy(Box(self._loc.get()))

    __hash__ = None


class _CtxTy(Ty):
    name = "EventContext"

    def sort(self):
        return MSG.sort()

    def wrap(self, term, loc=None):
        return CtxProxy(loc if loc is not None else Box(term))

    def unwrap(self, v):
        if isinstance(v, CtxProxy):
            return v._loc.get()
        if isinstance(v, dict) and set(v) <= {"id", "created_at", "metadata"}:
            return MSG.unwrap(v.get("metadata", {}))
        raise OutOfReach(f"{type(v).__name__} stored as event context")


CTX = _CtxTy()
cls(Event, fields={"context": CTX})          # overrides the opaque Map(Str, Any) typing of specs/common.py (this check only)


def md(event, state=None):
    """raw MSG term of an event's metadata"""
    return field_term(event, "context", state)


def mhas(m, *keys):
    return mk_bool(z3.And(*[MSG.has(m, k) for k in keys]))


def mget(m, k):
    """wrapped field of a raw message term"""
    return MSG.fields[k].wrap(MSG.acc(k)(m))


def mfut(m, k):
    """the future stored under key k of a raw message term, as a proxy (no fork; meaningful where present and not None)"""
    return ObjProxy(MSG.acc(k)(m), SimFuture)


def kt(k):
    return k.t if hasattr(k, "t") else z3.StringVal(k)


def has(d, k):
    """k is a key of the symbolic dict / set d (no fork)"""
    return mk_bool(z3.Select(d._ty.dt.dom(d.term), kt(k)))


def mval(d, k):
    """raw value term of d[k] (meaningful only where k is a key)"""
    return z3.Select(d._ty.dt.val(d.term), kt(k))


cls(Network, fields={})
cls(SimFuture, fields={"_resolved": Bool, "_value": Any, "_parked_process": Any, "_parked_event_type": Any,
                       "_parked_daemon": Bool, "_parked_target": Any, "_parked_on_complete": Any,
                       "_parked_context": Any, "_settle_callbacks": Seq(Any)})
# resolving a future is the acknowledgement the property speaks about; what must hold at that moment is stated
# by ghost assertions placed before the call (see the handlers); the call itself settles the future
stub_of(SimFuture, "resolve", modifies=["_resolved", "_value"], ensures=[lambda s: s.self._resolved])
FUT_RESOLVE = (SimFuture, "resolve")

# ---- KVStore generator API (kv_store.py is not an anchored file): wait the latency, then one atomic effect.
# The one-yield stub lets the environment run during the latency; the effect applies to the resumed state.
DATA = Map(Str, Any)


def _data_dom(o):
    return o._data._ty.dt.dom(o._data.term)


def _data_val(o):
    return o._data._ty.dt.val(o._data.term)


KV_GET = stub_of(KVStore, "get", returns=Opt(Any), modifies=["_reads", "_hits", "_misses"], ensures=[
    lambda s: Not(has(s.self._data, s.key)) if s.result is None else
    (has(s.self._data, s.key) & mk_bool(s.result.t == mval(s.self._data, s.key)))])
KV_GET.stub_yield = lambda s: s.self._read_latency
KV_PUT = stub_of(KVStore, "put", modifies=["_data", "_insertion_order", "_writes"],
                 requires=[("replica-store-unbounded", lambda s: s.self._capacity is None)], ensures=[
    lambda s: mk_bool(_data_dom(s.self) == z3.Store(_data_dom(s.old(s.self)), kt(s.key), z3.BoolVal(True)))
    & mk_bool(_data_val(s.self) == z3.Store(_data_val(s.old(s.self)), kt(s.key), s.value.t))])
KV_PUT.stub_yield = lambda s: s.self._write_latency
KV_PUT.returns_none_ok = True
KV_API = [(KVStore, "get"), (KVStore, "put")]

# ============================================================================ D. primary-backup: the backup
from happysimulator.components.replication.primary_backup import PrimaryNode, BackupNode, ReplicationMode  # noqa: E402
import happysimulator.components.replication.primary_backup as _pb_mod  # noqa: E402

LATEST = Map(Str, Tuple(Int, Any))
cls(BackupNode, fields={"_store": Ref(KVStore), "_network": Ref(Network), "_primary": Ref(Entity), "_serve_reads": Bool,
                        "_replications_applied": Int, "_backup_reads": Int, "_last_applied_seq": Int,
                        "_latest": LATEST},      # (_latest: newest accepted write per key - field of the repaired tree)
    # ghost: the newest write received per key (seq, and the value it carried)
    ghost={"g_seq": Map(Str, Int), "g_val": DATA},
    const=["_store", "_network", "_primary", "_serve_reads"],
    inv=[("accepted-keys-are-the-received-keys", lambda o: mk_bool(
            o._latest._ty.dt.dom(o._latest.term) == o.g_seq._ty.dt.dom(o.g_seq.term))),
         ("accepted-write-is-the-newest-received", lambda o: forall(Str, lambda k: implies(
            has(o.g_seq, k), mk_bool(mval(o._latest, k) == LATEST.val.dt.mk(mval(o.g_seq, k), mval(o.g_val, k)))))),
         ("sequence-numbers-positive", lambda o: forall(Str, lambda k: implies(has(o.g_seq, k), o.g_seq.get(k, 0) >= 1)))],
    guarantee=[
        ("newest-received-seq-per-key-only-grows", lambda old, new: forall(Str, lambda k:
            new.g_seq.get(k, 0) >= old.g_seq.get(k, 0))),
        ("last-applied-seq-only-grows", lambda old, new: new._last_applied_seq >= old._last_applied_seq),
    ])


def _backup_received(self, key, value, seq):
    """ghost: a Replicate message (key, value, seq) has been received"""
    if seq >= self.g_seq.get(key, 0):
        self.g_seq[key] = seq
        self.g_val[key] = value


def _backup_put(self, key, value, seq):
    """ghost assertion where a value is handed to the backup's store: it is the value of the newest write
    received for the key - a reordered older write must not overwrite a newer one (convergence clause)"""
    oblige("backup/store-receives-the-value-of-the-highest-seq-received-for-the-key",
           has(self.g_seq, key) & mk_bool(value.t == mval(self.g_val, key)), kind="post")
    _ctx.cur().ghost_args["c17_put"] = (value, self.g_seq.get(key, 0))


def _backup_ack(self, key, value, seq):
    """ghost assertion at the acknowledgement: the write (or a newer write to the same key) is applied here"""
    put = _ctx.cur().ghost_args.get("c17_put")
    oblige("backup/acknowledged-only-after-a-store-write-completed", put is not None, kind="post")
    if put is None:
        return
    pval, pseq = put
    st = self._store
    oblige("backup/acknowledged-write-or-a-newer-one-is-applied-here",
           has(st._data, key) & mk_bool(mval(st._data, key) == pval.t) & (pseq >= seq), kind="post")


_pb_mod._c17_backup_received = _backup_received
_pb_mod._c17_backup_put = _backup_put
_pb_mod._c17_backup_ack = _backup_ack

REPL_WF = ("replicate-message-carries-key-value-seq", lambda s: mhas(md(s.event), "key", "value", "seq")
           & (mget(md(s.event), "seq") >= 1))
UNBOUNDED = ("replica-store-unbounded", lambda s: s.self._store._capacity is None)
# across a yield: the node's wiring is fixed and a message is not modified once it has been sent
NODE_STABLE = [("Entity", "_clock"), ("Event", "context"), ("Event", "event_type"), ("Event", "target")]


def _delay_ok(s, y):
    """what a handler may yield: a non-negative delay, (delay, events), or a future"""
    if isinstance(y, tuple):
        return y[0] >= 0
    if isinstance(y, ObjProxy):
        return True
    return y >= 0


def _one_event_to(y, net, kind):
    """y == (0.0, [e]) with e a message of type `kind` handed to the network now"""
    if not isinstance(y, tuple) or len(y[1]) != 1:
        return False
    e = y[1][0]
    return same(e.target, net) & (e.event_type == kind)


def _backup_ack_event(s, y):
    if not isinstance(y, tuple):
        return True
    e = y[1][0] if len(y[1]) == 1 else None
    if e is None:
        return False
    m = md(e)
    return (same(e.target, s.self._network) & (e.event_type == "ReplicationAck") & mhas(m, "source", "seq")
            & (mget(m, "source") == s.self.name) & (mget(m, "seq") == mget(md(s.event), "seq")))


fn(BackupNode, "_handle_replicate", args={"event": Ref(Event)}, uses=KV_API + [FUT_RESOLVE],
   requires=[REPL_WF, UNBOUNDED], focus=lambda s: [s.self._store],
   yields=Yields(at_yield=[("delay-nonnegative", _delay_ok),
                           ("ack-message-names-this-backup-and-the-seq", _backup_ack_event)],
                 stable=NODE_STABLE),
   ensures=[("returns-nothing", lambda s: s.result is None)])


def _resolved_values(fut=None):
    """ghost call trace: the values passed to SimFuture.resolve on this path (optionally: for one future)"""
    out = []
    for q, vals, _r in _ctx.cur().ghost_args.get("trace", []):
        if q == "SimFuture.resolve" and (fut is None or vals["self"]._ref.eq(fut._ref)):
            out.append(vals["value"])
    return out


def _read_reply(s):
    """a read replies (if asked to) with what the node's store holds for the key when the store read completes"""
    m = md(s.event)
    if not _ctx.cur().branch(z3.And(MSG.has(m, "reply_future"), MSG.acc("reply_future")(m) != 0), site="spec"):
        return len(_resolved_values()) == 0
    vals = _resolved_values(mfut(m, "reply_future"))
    if len(vals) != 1:
        return False
    v = vals[0]["value"]
    st = s.self._store
    key = mget(m, "key")
    if v is None:
        return Not(has(st._data, key))
    return has(st._data, key) & mk_bool(v.t == mval(st._data, key))


READ_WF = ("read-request-names-a-key", lambda s: mhas(md(s.event), "key"))
fn(BackupNode, "_handle_read", args={"event": Ref(Event)}, uses=KV_API + [FUT_RESOLVE], requires=[READ_WF],
   focus=lambda s: [s.self._store],
   yields=Yields(at_yield=[("delay-nonnegative", _delay_ok)], stable=NODE_STABLE),
   ensures=[("replies-with-the-stored-value", _read_reply),
            ("store-untouched", lambda s: mk_bool(s.self._store._data.term == s.pre(s.self._store)._data.term))])

# ============================================================================ E. primary-backup: the primary
MODE = EnumTy(ReplicationMode)
MAX_BACKUPS = 3        # configuration bound of this check (the handlers are unrolled over the backups)
cls(PrimaryNode, fields={"_store": Ref(KVStore), "_backups": Seq(Ref(Entity)), "_network": Ref(Network), "_mode": MODE,
                         "_seq": Int, "_backup_lag": Map(Str, Int), "_writes": Int, "_reads": Int,
                         "_replications_sent": Int, "_acks_received": Int, "_write_latency_sum": Real},
    const=["_store", "_backups", "_network", "_mode"],
    inv=[("bounded-number-of-backups", lambda o: slen(o._backups) <= MAX_BACKUPS),
         ("seq-nonneg", lambda o: o._seq >= 0)],
    guarantee=[("sequence-numbers-only-grow", lambda old, new: new._seq >= old._seq)])


class _NewFuture:
    """return type of the combinator stubs: a freshly allocated future"""
    name = "new SimFuture"

    def fresh(self, base):
        return new_object(SimFuture)


def _combinator(kind):
    def record(s):
        _ctx.cur().ghost_args.setdefault("c17_comb", {})[s.result._ref.get_id()] = (kind, list(s.futures))
        return True
    return record


# C02's combinator contracts (assumed here): all_of / any_of return a new future standing for its parts
stub_of(_pb_mod.__name__, "all_of", returns=_NewFuture(), ensures=[_combinator("all")])
stub_of("happysimulator.core.sim_future", "any_of", returns=_NewFuture(), ensures=[_combinator("any")])
COMBINATORS = [(_pb_mod.__name__, "all_of"), ("happysimulator.core.sim_future", "any_of")]


def _future_rely(s, before, y):
    """engine contract of yielding a future (C02): the process is resumed only after the future is resolved;
    an all_of future resolves only when every part has, an any_of future only when some part has"""
    if not isinstance(y, ObjProxy):
        return True
    r = y._resolved
    comb = _ctx.cur().ghost_args.get("c17_comb", {}).get(y._ref.get_id())
    if comb is not None:
        kind, parts = comb
        rs = [p._resolved for p in parts]
        r = r & (sym_and(*rs) if kind == "all" else sym_or(*rs))
    return r


def _future_resume(s, y):
    comb = _ctx.cur().ghost_args.get("c17_comb", {}).get(y._ref.get_id()) if isinstance(y, ObjProxy) else None
    if comb is not None and comb[0] == "any":
        return (Int.fresh("any_idx"), Any.fresh("any_val"))
    return None


def _backup_list(o):
    return [b for b in o._backups]      # (length <= MAX_BACKUPS: the iteration forks on the length)


def _replicate_messages(s, y):
    """(0.0, events): exactly one Replicate message per backup, in order, each carrying this write's key, value and
    sequence number and - in the acknowledged modes - its own fresh ack future.  Recorded for the reply check."""
    if not isinstance(y, tuple):
        return True
    evs = y[1]
    bks = _backup_list(s.self)
    if len(evs) != len(bks):
        return False
    req = md(s.event)
    mode = s.self._mode
    ok = True
    sent = []
    for e, b in zip(evs, bks):
        m = md(e)
        ok = ok & same(e.target, s.self._network) & (e.event_type == "Replicate") & mhas(m, "source", "destination", "key", "value", "seq")
        ok = ok & (mget(m, "destination") == b.name) & (mget(m, "key") == mget(req, "key")) \
            & mk_bool(MSG.acc("value")(m) == MSG.acc("value")(req)) & (mget(m, "seq") >= 1) & (mget(m, "seq") <= s.self._seq)
        if mode is not ReplicationMode.ASYNC:
            ok = ok & mhas(m, "ack_future") & mk_bool(MSG.acc("ack_future")(m) != 0)
            a = mfut(m, "ack_future")
            ok = ok & Not(a._resolved)
            for (_b2, a2) in sent:
                ok = ok & Not(same(a, a2))
            sent.append((b, a))
    _ctx.cur().ghost_args["c17_sent"] = sent
    return ok


def _primary_reply(self, key, value, seq):
    """ghost assertion where the client's write is acknowledged (reply_future.resolve):
    SYNC: every backup was sent this write and has acknowledged it; SEMI_SYNC: at least one has"""
    mode = self._mode
    bks = _backup_list(self)
    sent = _ctx.cur().ghost_args.get("c17_sent")
    if mode is ReplicationMode.ASYNC:
        return
    if sent is None:
        oblige("primary/acknowledged-only-after-replicating-to-the-backups", len(bks) == 0, kind="post")
        return
    oblige("primary/every-backup-was-sent-the-write", len(sent) == len(bks), kind="post")
    rs = [a._resolved for (_b, a) in sent]
    if mode is ReplicationMode.SYNC:
        oblige("primary/sync-write-acknowledged-only-after-every-backup-acknowledged", sym_and(*rs), kind="post")
    else:
        oblige("primary/semi-sync-write-acknowledged-only-after-some-backup-acknowledged",
               sym_or(*rs) if rs else True, kind="post")


_pb_mod._c17_primary_reply = _primary_reply

WRITE_WF = ("write-request-carries-key-and-value", lambda s: mhas(md(s.event), "key", "value"))
fn(PrimaryNode, "_handle_write", args={"event": Ref(Event)}, uses=KV_API + [FUT_RESOLVE] + COMBINATORS,
   requires=[WRITE_WF, UNBOUNDED], focus=lambda s: [s.self._store],
   yields=Yields(at_yield=[("delay-nonnegative", _delay_ok),
                           ("one-replicate-message-per-backup-carrying-the-write", _replicate_messages)],
                 rely=[_future_rely], resume=_future_resume, stable=NODE_STABLE),
   ensures=[("returns-nothing", lambda s: s.result is None)])

fn(PrimaryNode, "_handle_read", args={"event": Ref(Event)}, uses=KV_API + [FUT_RESOLVE], requires=[READ_WF],
   focus=lambda s: [s.self._store],
   yields=Yields(at_yield=[("delay-nonnegative", _delay_ok)], stable=NODE_STABLE),
   ensures=[("replies-with-the-stored-value", _read_reply),
            ("store-untouched", lambda s: mk_bool(s.self._store._data.term == s.pre(s.self._store)._data.term))])


def _acked_key(name):
    return mk_str(z3.Concat(z3.StringVal("_acked_"), kt(name)))


def mk_str(t):
    return Str.wrap(t)


def _ack_post(s):
    m = md(s.event)
    src, seq = mget(m, "source"), mget(m, "seq")
    ak = _acked_key(src)
    old, new = s.old(s.self)._backup_lag, s.self._backup_lag
    prev = old.get(ak, 0)
    return (new.get(ak, 0) == ite(seq > prev, seq, prev)) \
        & implies(seq > prev, new.get(src, -1) == s.self._seq - seq)


fn(PrimaryNode, "_handle_ack", args={"event": Ref(Event)},
   requires=[("ack-names-backup-and-seq", lambda s: mhas(md(s.event), "source", "seq"))],
   ensures=[("acknowledged-seq-per-backup-is-the-maximum-seen--lag-is-the-distance-to-it", _ack_post),
            ("counts-the-ack", lambda s: s.self._acks_received == s.old(s.self)._acks_received + 1),
            ("sequence-counter-untouched", lambda s: unchanged(s, s.self, "_seq"))])

# ============================================================================ F. chain replication
from happysimulator.components.replication.chain_replication import ChainNode, ChainNodeRole  # noqa: E402
import happysimulator.components.replication.chain_replication as _ch_mod  # noqa: E402

ROLE = EnumTy(ChainNodeRole)
CNT = Map(Str, Int)
cls(ChainNode, fields={"_store": Ref(KVStore), "_network": Ref(Network), "_role": ROLE, "_craq_enabled": Bool,
                       "next_node": OptRef(ChainNode), "prev_node": OptRef(ChainNode), "head_node": OptRef(ChainNode),
                       "_dirty_keys": Set(Str), "_pending_writes": Map(Int, Ref(SimFuture)), "_next_seq": Int,
                       "_writes_received": Int, "_propagations_sent": Int, "_propagations_received": Int,
                       "_acks_sent": Int, "_reads_served": Int,
                       # fields of the repaired tree: in-flight writes per key, newest accepted write per key
                       "_dirty_count": CNT, "_latest": LATEST},
    # ghost: g_newest[k] = (seq, value) of the newest write received for k; g_unc[k] = number of writes to k applied
    # at this node whose commit at the tail the node has not yet observed (maintained in CRAQ mode only).
    # (the invariants are kept quantifier-free - set inclusion / map equality - which the solver decides quickly)
    ghost={"g_newest": LATEST, "g_unc": CNT},
    const=["_store", "_network", "_role", "_craq_enabled", "next_node", "prev_node", "head_node"],
    inv=[
        # CRAQ safety: a key with a write that is applied here but not known to be committed at the tail is dirty
        ("key-with-uncommitted-write-is-dirty", lambda o: forall(Str, lambda k: implies(
            has(o.g_unc, k), has(o._dirty_keys, k)))),
        # representation (repaired tree): the in-flight counter / the accepted writes are exactly the ghosts
        ("dirty-count-is-the-number-of-uncommitted-writes", lambda o: mk_bool(o._dirty_count.term == o.g_unc.term)),
        ("accepted-write-is-the-newest-received", lambda o: mk_bool(o._latest.term == o.g_newest.term)),
        ("seq-counter-nonneg", lambda o: o._next_seq >= 0),
    ],
    guarantee=[
        ("sequence-numbers-only-grow", lambda old, new: new._next_seq >= old._next_seq),
    ])


def _chain_received(self, key, value, seq):
    """ghost: a Propagate message (key, value, seq) has been received"""
    newest = self.g_newest.get(key)
    if newest is None or seq >= newest[0]:
        self.g_newest[key] = (seq, value)


def _chain_put(self, key):
    """ghost: remember the value of the newest write received for the key when the store write is issued"""
    _ctx.cur().ghost_args["c17_chain_expected"] = (
        has(self.g_newest, key), LATEST.val.dt.f1(mval(self.g_newest, key)))


def _last_put_value():
    for q, vals, _r in reversed(_ctx.cur().ghost_args.get("trace", [])):
        if q == "KVStore.put":
            return vals["value"]
    return None


def _chain_put_done(self, key, seq):
    """ghost assertion after the store write of a propagated write: what was written is the value of the newest
    write received for the key (a reordered older write must not replace a newer one); then: applied here"""
    known, expected = _ctx.cur().ghost_args["c17_chain_expected"]
    v = _last_put_value()
    oblige("chain/store-receives-the-value-of-the-highest-seq-received-for-the-key",
           (v is not None) and (known & mk_bool(v.t == expected)), kind="post")
    _chain_applied(self, key, seq)


def _chain_applied(self, key, seq):
    """ghost: one more write to key is applied at this node and not known to be committed"""
    if self._craq_enabled:
        self.g_unc[key] = self.g_unc.get(key, 0) + 1


def _chain_committed(self, key, seq):
    """ghost: this node has observed that a write to key (seq) is committed at the tail"""
    if self._craq_enabled:
        n = self.g_unc.get(key, 0) - 1
        if n > 0:
            self.g_unc[key] = n
        else:
            self.g_unc.pop(key, None)


def _chain_head_done(self, loc):
    """ghost (head, at the end of a write it accepted): the tail's ack has been awaited - or there is no
    successor - so the head has observed the commit of this write"""
    if "seq" in loc:
        _chain_committed(self, loc["key"], loc["seq"])


def _chain_commit_msg(self, event):
    m = md(event)
    if self._role is ChainNodeRole.HEAD:
        return          # the head observes the commit through the WriteAck it is waiting for (see _handle_write)
    if _ctx.cur().branch(MSG.has(m, "key"), site="spec") and _ctx.cur().branch(to_z3_bool(mget(m, "key") != ""), site="spec"):
        seq = mget(m, "seq") if _ctx.cur().branch(MSG.has(m, "seq"), site="spec") else 0
        _chain_committed(self, mget(m, "key"), seq)


def _chain_reply(self, key, seq, ack_future):
    """ghost assertion where the head acknowledges the client: the tail's ack for this seq has arrived"""
    if self.next_node is None:
        return
    oblige("chain/client-acknowledged-only-after-the-tail-acknowledged-this-seq",
           (ack_future is not None) and ack_future._resolved, kind="post")


def _chain_read_reply(self, key, value):
    """ghost assertion where a node answers a read from its own store: only the tail does, or - CRAQ - a node
    for which the key is clean at that moment (no applied write is waiting for its commit)"""
    if self._role is ChainNodeRole.TAIL:
        return
    if self.head_node is None:       # not wired into a chain: a stand-alone store
        return
    for q, _vals, r in _ctx.cur().ghost_args.get("trace", []):
        if q == "ChainNode._find_tail" and (r is None or same(r, self) is True):
            return                   # no tail at the end of the chain: not a chain wired by build_chain (see assumptions)
    oblige("chain/only-the-tail-or-a-clean-craq-node-answers-a-read-locally",
           self._craq_enabled & Not(has(self._dirty_keys, key)), kind="post")


for _n, _f2 in (("applied", _chain_applied), ("committed", _chain_committed), ("reply", _chain_reply),
                ("head_done", _chain_head_done),
                ("received", _chain_received), ("put", _chain_put), ("put_done", _chain_put_done),
                ("commit_msg", _chain_commit_msg), ("read_reply", _chain_read_reply)):
    setattr(_ch_mod, "_c17_chain_" + _n, _f2)


def _all_commit_notifies(node, events, key, seq):
    if isinstance(events, list):        # the concrete (empty) list before the loop
        return len(events) == 0
    return forall(Int, lambda j: implies((0 <= j) & (j < slen(events)), _is_commit_notify(node, events, j, key, seq)), "j")


def _is_commit_notify(node, events, j, key, seq):
    e = ObjProxy(seq_term(events)[j.t], Event)
    m = md(e)
    return (same(e.target, node._network) & (e.event_type == "CommitNotify") & mhas(m, "key", "seq", "destination")
            & (mget(m, "key") == key) & (mget(m, "seq") == seq))


fn(ChainNode, "_find_tail", returns=OptRef(ChainNode), modifies=[], ensures=[
    ("a-tail-at-the-end-of-the-chain-or-none", lambda s: True if s.result is None else
        mk_bool(z3.And(field_term(s.result, "_role") == ROLE.unwrap(ChainNodeRole.TAIL),
                       field_term(s.result, "next_node") == 0))),
    ("pure", lambda s: unchanged(s, s.self))])
FIND_TAIL = (ChainNode, "_find_tail")

fn(ChainNode, "_build_commit_notifications", args={"key": Str, "seq": Int}, returns=Seq(Ref(Event)), modifies=[], ensures=[
    ("every-notification-names-the-key-and-the-seq", lambda s: _all_commit_notifies(s.self, s.result, s.key, s.seq)),
    ("node-state-untouched", lambda s: unchanged(s, s.self))])
BUILD_CN = (ChainNode, "_build_commit_notifications")

fn(ChainNode, "_handle_write_ack", args={"event": Ref(Event)}, uses=[FUT_RESOLVE],
   requires=[("ack-names-a-seq", lambda s: mhas(md(s.event), "seq"))],
   ensures=[
    ("resolves-exactly-the-future-registered-for-that-seq", lambda s: _write_ack_post(s)),
    ("node-state-untouched", lambda s: unchanged(s, s.self))])


def _write_ack_post(s):
    seq = mget(md(s.event), "seq")
    calls = [vals for q, vals, _r in _ctx.cur().ghost_args.get("trace", []) if q == "SimFuture.resolve"]
    pend = s.old(s.self)._pending_writes
    if not _ctx.cur().branch(pend.__sym_contains__(seq), site="spec"):
        return len(calls) == 0
    if len(calls) != 1:
        return False
    return mk_bool(calls[0]["self"]._ref == z3.Select(pend._ty.dt.val(pend.term), num(seq)))


fn(ChainNode, "_handle_commit_notify", args={"event": Ref(Event)},
   ensures=[("only-the-dirty-bookkeeping-changes", lambda s: unchanged(s, s.self, "_pending_writes", "_next_seq", "_latest"))])


def _single_event(y):
    return y[1][0] if isinstance(y, tuple) and isinstance(y[1], list) and len(y[1]) == 1 else None


def _applied_here(s):
    """the store of this node holds, for the key of the write being handled, what the last store write put there"""
    v = _last_put_value()
    if v is None:
        return False
    key = mget(md(s.event), "key")
    return has(s.self._store._data, key) & mk_bool(mval(s.self._store._data, key) == v.t)


def _chain_write_yield(s, y):
    """head: the write goes down the chain as one Propagate message to the next node, carrying key, value and the
    fresh sequence number, and only after it has been applied at the head"""
    e = _single_event(y)
    if e is None:
        return True
    req, m = md(s.event), md(e)
    nxt = s.self.next_node
    if nxt is None:
        return False
    return (same(e.target, s.self._network) & (e.event_type == "Propagate") & mhas(m, "destination", "key", "value", "seq")
            & (mget(m, "destination") == nxt.name) & (mget(m, "key") == mget(req, "key"))
            & mk_bool(MSG.acc("value")(m) == MSG.acc("value")(req))
            & (mget(m, "seq") >= 1) & (mget(m, "seq") <= s.self._next_seq) & _applied_here(s))


CHAIN_FOCUS = lambda s: [s.self._store]  # noqa: E731
fn(ChainNode, "_handle_write", args={"event": Ref(Event)}, uses=KV_API + [FUT_RESOLVE],
   requires=[WRITE_WF, UNBOUNDED], focus=CHAIN_FOCUS,
   yields=Yields(at_yield=[("delay-nonnegative", _delay_ok),
                           ("propagates-the-applied-write-to-the-next-node", _chain_write_yield)],
                 rely=[_future_rely], stable=NODE_STABLE),
   ensures=[("returns-nothing", lambda s: s.result is None)])


def _chain_propagate_yield(s, y):
    """middle: forwards the very write it received, after applying it; tail: acknowledges the seq to the head after
    applying it; CRAQ tail: commit notifications name the key and the seq"""
    if not isinstance(y, tuple):
        return True
    req = md(s.event)
    e = _single_event(y)
    if e is not None and _ctx.cur().branch(to_z3_bool(e.event_type == "Propagate"), site="spec"):
        m = md(e)
        nxt = s.self.next_node
        if nxt is None or s.self._role is ChainNodeRole.TAIL:
            return False
        return (same(e.target, s.self._network) & mhas(m, "destination", "key", "value", "seq")
                & (mget(m, "destination") == nxt.name) & (mget(m, "key") == mget(req, "key"))
                & mk_bool(MSG.acc("value")(m) == MSG.acc("value")(req)) & (mget(m, "seq") == mget(req, "seq"))
                & _applied_here(s))
    if e is not None and _ctx.cur().branch(to_z3_bool(e.event_type == "WriteAck"), site="spec"):
        m = md(e)
        return ((s.self._role is ChainNodeRole.TAIL) and (same(e.target, s.self._network) & mhas(m, "destination", "seq")
                & (mget(m, "seq") == mget(req, "seq")) & _applied_here(s)))
    # commit notifications (CRAQ tail)
    evs = y[1]
    if isinstance(evs, list):
        return False
    return (s.self._role is ChainNodeRole.TAIL) and _all_commit_notifies(s.self, evs, mget(req, "key"), mget(req, "seq"))


fn(ChainNode, "_handle_propagate", args={"event": Ref(Event)}, uses=KV_API + [BUILD_CN],
   requires=[REPL_WF, UNBOUNDED], focus=CHAIN_FOCUS,
   yields=Yields(at_yield=[("delay-nonnegative", _delay_ok),
                           ("forwards-or-acknowledges-the-applied-write", _chain_propagate_yield)],
                 stable=NODE_STABLE),
   ensures=[("returns-nothing", lambda s: s.result is None)])


def _chain_read_yield(s, y):
    """a read this node may not answer is forwarded to the tail, with the key and the client's reply future"""
    e = _single_event(y)
    if e is None:
        return True
    req, m = md(s.event), md(e)
    return (same(e.target, s.self._network) & (e.event_type == "Read") & mhas(m, "destination", "key")
            & (mget(m, "key") == mget(req, "key"))
            & mk_bool(z3.If(z3.And(MSG.has(req, "reply_future")), MSG.acc("reply_future")(req), 0)
                      == z3.If(MSG.has(m, "reply_future"), MSG.acc("reply_future")(m), 0)))


def seg_unchanged(s, obj, *fields):
    """the current atomic segment has not written the listed fields of obj"""
    o = s.pre(obj)
    parts = []
    for f in fields:
        owner, ty = REG.field(obj._cls, f)
        parts.append(field_term(obj, f) == field_term(o, f))
    return mk_bool(z3.And(*parts))


CHAIN_STATE = ["_dirty_keys", "_dirty_count", "_latest", "_pending_writes", "_next_seq", "g_newest", "g_unc"]
# (a read does not touch the replication state: the class invariants are preserved because no segment writes the
# fields they speak about - checked per segment instead of re-proving each invariant on each of the many paths)
fn(ChainNode, "_handle_read", args={"event": Ref(Event)}, uses=KV_API + [FUT_RESOLVE, FIND_TAIL],
   requires=[READ_WF, ("store-latency-nonneg (KVStore invariant)", lambda s: s.self._store._read_latency >= 0)],
   focus=CHAIN_FOCUS, inv=False,
   yields=Yields(at_yield=[("delay-nonnegative", _delay_ok),
                           ("forwarded-read-carries-key-and-reply-future", _chain_read_yield),
                           ("replication-state-untouched", lambda s, y: seg_unchanged(s, s.self, *CHAIN_STATE))],
                 stable=NODE_STABLE),
   ensures=[("store-untouched", lambda s: mk_bool(s.self._store._data.term == s.pre(s.self._store)._data.term)),
            ("replication-state-untouched", lambda s: seg_unchanged(s, s.self, *CHAIN_STATE))])

# ============================================================================ G. multi-leader
from happysimulator.components.replication.multi_leader import LeaderNode  # noqa: E402
from happysimulator.core.logical_clocks import VectorClock  # noqa: E402
from happysimulator.sketching.merkle_tree import MerkleTree  # noqa: E402

cls(VectorClock, fields={"_node_id": Str, "_vector": VC})
cls(MerkleTree, fields={})
# contracts of specs/C18.py (vector clock) and of the Merkle index (C20), used opaquely here: the clauses below do
# not depend on the clock values - only on which version the dominance test / the resolver selects
stub_of(VectorClock, "send", returns=VC, modifies=["_vector"], ensures=[])
stub_of(VectorClock, "receive", modifies=["_vector"], ensures=[])
stub_of(MerkleTree, "update", modifies=[], ensures=[])
ML_ENV = [(VectorClock, "send"), (VectorClock, "receive"), (MerkleTree, "update")]

VERSIONS = Map(Str, VV)
cls(LeaderNode, fields={"_store": Ref(KVStore), "_network": Ref(Network), "_resolver": Ref(LastWriterWins),
                        "_anti_entropy_interval": Real, "_peers": Seq(Ref(Entity)), "_versions": VERSIONS,
                        "_merkle": Ref(MerkleTree), "_vclock": OptRef(VectorClock), "_writes": Int, "_reads": Int,
                        "_replications_sent": Int, "_replications_received": Int, "_conflicts_detected": Int,
                        "_conflicts_resolved": Int, "_anti_entropy_syncs": Int, "_anti_entropy_keys_repaired": Int},
    const=["_store", "_network", "_resolver", "_merkle", "_vclock", "_peers"],
    inv=[("bounded-number-of-peers", lambda o: slen(o._peers) <= MAX_BACKUPS)])


def _dominance_calls():
    return [(vals["a"], vals["b"], r) for q, vals, r in _ctx.cur().ghost_args.get("trace", [])
            if "_vc_dominates" in q]


def _same_vc(x, y_term_opt):
    """x (what the code passed to _vc_dominates: a symbolic dict, or the literal {} of `vc or {}`) is the vector
    clock stored in the raw Opt(VC) term y"""
    o = Opt(VC)
    if isinstance(x, dict):
        if x:
            return False
        # `vc or {}`: vc was None or empty
        return mk_bool(z3.Or(o.dt.is_none(y_term_opt), VC.dt.size(o.dt.val(y_term_opt)) == 0))
    return mk_bool(z3.And(z3.Not(o.dt.is_none(y_term_opt)), x.term == o.dt.val(y_term_opt)))


def _incoming_term(s):
    """the version a Replicate message stands for (raw VV term): defaults as in the handler"""
    m = md(s.event)
    ts = z3.If(MSG.has(m, "timestamp"), MSG.acc("timestamp")(m), z3.RealVal(0))
    w = z3.If(MSG.has(m, "writer_id"), MSG.acc("writer_id")(m), z3.StringVal("unknown"))
    vc = z3.If(MSG.has(m, "vector_clock"), MSG.acc("vector_clock")(m), VC.empty())
    return VV.dt.mk(z3.IntVal(0), MSG.acc("value")(m), ts, w, Opt(VC).dt.some(vc))


def _lww_gt_t(x, y):
    d = VV.dt
    return z3.Or(d.timestamp(x) > d.timestamp(y), z3.And(d.timestamp(x) == d.timestamp(y), d.writer_id(y) < d.writer_id(x)))


def _merge_installed(s, old):
    """versions[key] is merge(old versions[key], incoming):  no version yet -> incoming;  incoming causally after
    the stored one -> incoming;  stored one causally after incoming -> unchanged;  concurrent -> the later of the
    two in the last-writer-wins order (the stored one on a tie).  'causally after' = the verdict of _vc_dominates
    (contract in part A) on (incoming clock, stored clock) resp. (stored clock, incoming clock)."""
    return _merged(s.self, old, mget(md(s.event), "key"), _incoming_term(s))


def _merged(new, old, key, inc):
    """new._versions[key] is merge(old._versions[key], inc) - see _merge_installed (new / old: two views of one leader)"""
    oldv, newv = old._versions, new._versions
    d = VERSIONS.dt
    had = z3.Select(d.dom(oldv.term), kt(key))
    ex = z3.Select(d.val(oldv.term), kt(key))
    now = z3.Select(d.val(newv.term), kt(key))
    installed = lambda v: mk_bool(z3.And(z3.Select(d.dom(newv.term), kt(key)), now == v))     # noqa: E731
    calls = _dominance_calls()
    if not calls:
        return Not(mk_bool(had)) & installed(inc)
    a, b, r1 = calls[0]
    args_ok = _same_vc(a, VV.dt.vector_clock(inc)) & _same_vc(b, VV.dt.vector_clock(ex))
    if len(calls) == 1:
        return mk_bool(had) & args_ok & r1 & installed(inc)
    a2, b2, r2 = calls[1]
    args_ok = args_ok & _same_vc(a2, VV.dt.vector_clock(ex)) & _same_vc(b2, VV.dt.vector_clock(inc))
    concurrent = Not(r1) & Not(r2)
    return (mk_bool(had) & args_ok & Not(r1) & implies(r2, installed(ex))
            & implies(concurrent, installed(z3.If(_lww_gt_t(inc, ex), inc, ex))))


def _others_untouched(s, old):
    return _untouched_except(s.self, old, mget(md(s.event), "key"))


def _untouched_except(new, old, key):
    d = VERSIONS.dt
    o, n = old._versions.term, new._versions.term
    return forall(Str, lambda k: implies(k != key, mk_bool(z3.And(
        z3.Select(d.dom(n), k.t) == z3.Select(d.dom(o), k.t), z3.Select(d.val(n), k.t) == z3.Select(d.val(o), k.t)))))


def _put_happened():
    return any(q == "KVStore.put" for q, _v, _r in _ctx.cur().ghost_args.get("trace", []))


def _ml_replicate_yield(s, y):
    """at the (only) yield - the wait for the store - the merged version is already recorded: a version arriving
    during the wait is resolved against it (not against a stale read of the version table)"""
    _ctx.cur().ghost_args["c17_ml_installed"] = mval(s.self._versions, mget(md(s.event), "key"))
    return _merge_installed(s, s.old(s.self)) & _others_untouched(s, s.old(s.self))


def _ml_replicate_exit(s):
    key = mget(md(s.event), "key")
    if not _put_happened():
        return _merge_installed(s, s.old(s.self)) & _others_untouched(s, s.old(s.self))
    inst = _ctx.cur().ghost_args.get("c17_ml_installed")
    v = _last_put_value()
    # after the wait: the version table is not written again, and what the store received is the value of the
    # version that was recorded
    return seg_unchanged(s, s.self, "_versions") & mk_bool(v.t == VV.dt.value(inst)) \
        & has(s.self._store._data, key) & mk_bool(mval(s.self._store._data, key) == v.t)


ML_FOCUS = lambda s: [s.self._store]  # noqa: E731
fn(LeaderNode, "_handle_replicate", args={"event": Ref(Event)}, uses=KV_API + ML_ENV + [DOM_ML],
   requires=[("replicate-message-is-complete (as sent by _handle_write)", lambda s: mhas(
                 md(s.event), "key", "value", "timestamp", "writer_id", "vector_clock")), UNBOUNDED],
   focus=ML_FOCUS,
   yields=Yields(at_yield=[("delay-nonnegative", _delay_ok),
                           ("merged-version-recorded-before-waiting-for-the-store", _ml_replicate_yield)],
                 stable=NODE_STABLE),
   ensures=[("version-table-holds-the-merge--store-receives-its-value", _ml_replicate_exit)])


def _ml_write_yield(s, y):
    """local write: (1) while waiting for the store the new version (value, now, this leader) is already the recorded
    one; (2) afterwards exactly one complete Replicate message per peer carries that version"""
    req = md(s.event)
    key = mget(req, "key")
    d = VERSIONS.dt
    cur = mval(s.self._versions, key)
    if not isinstance(y, tuple):
        _ctx.cur().ghost_args["c17_ml_written"] = cur
        return (has(s.self._versions, key) & mk_bool(VV.dt.value(cur) == MSG.acc("value")(req))
                & mk_bool(VV.dt.writer_id(cur) == kt(s.self.name))
                & mk_bool(VV.dt.timestamp(cur) * 1000000000 == z3.ToReal(num(now_ns(s.self))))
                & _others_untouched(s, s.old(s.self)))
    ver = _ctx.cur().ghost_args.get("c17_ml_written")
    if ver is None:
        return False
    evs = y[1]
    peers = [p for p in s.self._peers]
    if len(evs) != len(peers):
        return False
    ok = True
    for e, p in zip(evs, peers):
        m = md(e)
        ok = ok & same(e.target, s.self._network) & (e.event_type == "Replicate") \
            & mhas(m, "destination", "key", "value", "timestamp", "writer_id", "vector_clock") \
            & (mget(m, "destination") == p.name) & (mget(m, "key") == key) \
            & mk_bool(z3.And(MSG.acc("value")(m) == VV.dt.value(ver), MSG.acc("timestamp")(m) == VV.dt.timestamp(ver),
                             MSG.acc("writer_id")(m) == VV.dt.writer_id(ver),
                             Opt(VC).dt.some(MSG.acc("vector_clock")(m)) == VV.dt.vector_clock(ver)))
    return ok


def _ml_write_exit(s):
    key = mget(md(s.event), "key")
    ver = _ctx.cur().ghost_args.get("c17_ml_written")
    v = _last_put_value()
    if ver is None or v is None:
        return False
    return mk_bool(v.t == VV.dt.value(ver)) & seg_unchanged(s, s.self, "_versions")


fn(LeaderNode, "_handle_write", args={"event": Ref(Event)}, uses=KV_API + ML_ENV + [FUT_RESOLVE],
   requires=[WRITE_WF, UNBOUNDED, ("leader-is-wired-to-its-peers (add_peers was called)", lambda s: s.self._vclock is not None)],
   focus=ML_FOCUS,
   yields=Yields(at_yield=[("delay-nonnegative", _delay_ok),
                           ("version-recorded-before-the-store-wait--then-replicated-to-every-peer", _ml_write_yield)],
                 stable=NODE_STABLE),
   ensures=[("store-receives-the-written-value--version-table-not-rewritten", _ml_write_exit)])

# ============================================================================ H. lemmas: from the handler contracts to convergence
def _merge_aci():
    """The per-key update proved for LeaderNode._handle_replicate, as a binary function on versions:
         merge(x, y) = y if D(y, x);  x if D(x, y);  otherwise the later of the two in the LWW order (x on a tie)
    where D is the verdict of _vc_dominates.  Hypothesis H1 (listed assumption): a causally later version also has
    the later (timestamp, writer) pair, D(p, q) => lww(p) > lww(q).  Then merge is the maximum in the LWW order,
    hence commutative, associative and idempotent: a replica's version of a key is a fold of merge over the SET of
    versions it has received, so replicas that received the same set hold the same version."""
    V = z3.DeclareSort("Version")
    ts = z3.Function("v_ts", V, z3.RealSort())
    wr = z3.Function("v_writer", V, z3.StringSort())
    D = z3.Function("v_dominates", V, V, z3.BoolSort())

    def gt(p, q):
        return z3.Or(ts(p) > ts(q), z3.And(ts(p) == ts(q), wr(q) < wr(p)))

    def merge(x, y):
        return z3.If(D(y, x), y, z3.If(D(x, y), x, z3.If(gt(y, x), y, x)))

    a, b, c = z3.Const("va", V), z3.Const("vb", V), z3.Const("vc", V)
    vs = [a, b, c, merge(a, b), merge(b, c), merge(b, a)]
    for p in vs:
        for q in vs:
            assume(z3.Implies(D(p, q), gt(p, q)))                                 # H1
            assume(z3.Implies(z3.And(ts(p) == ts(q), wr(p) == wr(q)), p == q))   # a (timestamp, writer) pair names one version
    # the string order is total (z3's str.< is; stated for the three writers to help the solver)
    oblige("merge-returns-an-argument", z3.Or(merge(a, b) == a, merge(a, b) == b))
    oblige("merge-is-the-lww-maximum", z3.And(z3.Not(gt(a, merge(a, b))), z3.Not(gt(b, merge(a, b)))))
    oblige("commutative", merge(a, b) == merge(b, a))
    oblige("associative", merge(merge(a, b), c) == merge(a, merge(b, c)))
    oblige("idempotent", merge(a, a) == a)


lemma("multi-leader-merge-is-commutative-associative-idempotent", _merge_aci)


def _newest_wins_fold():
    """Primary-backup / chain: a replica hands the store, at every Replicate/Propagate message, the value of the
    highest seq received so far (proved clause `store-receives-the-value-of-the-highest-seq-received`); the store
    applies writes in the order they were issued (assumption A-store-fifo).  Induction step: if the last applied
    write carries the maximum of the seqs received, it still does after one more message - in either arrival order."""
    m, s1 = fresh(Int, "max_so_far"), fresh(Int, "incoming_seq")
    v_m, v_1 = fresh(Int, "val_of_max"), fresh(Int, "val_incoming")
    new_max = ite(s1 >= m, s1, m)
    put_val = ite(s1 >= m, v_1, v_m)          # what the repaired handlers pass to store.put
    oblige("store-ends-with-the-value-of-the-maximum", implies(new_max == s1, put_val == v_1) & implies(new_max != s1, put_val == v_m))
    # two messages in both orders give the same final (max, value) - seqs are unique per write
    s2, v_2 = fresh(Int, "other_seq"), fresh(Int, "val_other")
    assume((s1 != s2) & (s1 != m) & (s2 != m))

    def step(state, msg):
        return (ite(msg[0] >= state[0], msg[0], state[0]), ite(msg[0] >= state[0], msg[1], state[1]))
    ab = step(step((m, v_m), (s1, v_1)), (s2, v_2))
    ba = step(step((m, v_m), (s2, v_2)), (s1, v_1))
    oblige("arrival-order-does-not-matter", (ab[0] == ba[0]) & (ab[1] == ba[1]))


lemma("newest-seq-wins-is-order-independent", _newest_wins_fold)


def _sync_ack_composition():
    """SYNC primary-backup: reply resolved => every ack future resolved (PrimaryNode._handle_write);
    ack future of backup b resolved => b's store holds the write or a newer one (BackupNode._handle_replicate).
    Chain: reply => tail's WriteAck for the seq (head); WriteAck => applied at the tail (tail); a Propagate leaves
    node i only after node i applied (middle) - so by induction over the chain every node has applied."""
    n = 3
    replied = fresh(Bool, "replied")
    ack = [fresh(Bool, f"ack{i}") for i in range(n)]
    applied = [fresh(Bool, f"applied{i}") for i in range(n)]
    assume(implies(replied, sym_and(*ack)))
    for i in range(n):
        assume(implies(ack[i], applied[i]))
    oblige("sync-reply-implies-applied-on-every-backup", implies(replied, sym_and(*applied)))
    # chain of n nodes: sent[i] = Propagate/WriteAck leaves node i
    sent = [fresh(Bool, f"sent{i}") for i in range(n)]
    app = [fresh(Bool, f"app{i}") for i in range(n)]
    rep = fresh(Bool, "chain_replied")
    for i in range(n):
        assume(implies(sent[i], app[i]))                 # leaves node i only after being applied there
        if i > 0:
            assume(implies(app[i], sent[i - 1]))         # node i applies only what node i-1 forwarded
    assume(implies(rep, sent[n - 1]))                    # head replies only after the tail's ack
    oblige("chain-reply-implies-applied-at-every-node", implies(rep, sym_and(*app)))


lemma("acknowledgement-implies-applied-composition", _sync_ack_composition)

fn(LeaderNode, "_handle_read", args={"event": Ref(Event)}, uses=KV_API + [FUT_RESOLVE], requires=[READ_WF],
   focus=ML_FOCUS,
   yields=Yields(at_yield=[("delay-nonnegative", _delay_ok)], stable=NODE_STABLE),
   ensures=[("replies-with-the-stored-value", _read_reply),
            ("store-untouched", lambda s: mk_bool(s.self._store._data.term == s.pre(s.self._store)._data.term))])


# ============================================================================ J. multi-leader anti-entropy
# digest exchange: A sends its whole version table (AntiEntropyRequest); B merges it key by key and answers with ITS
# table (AntiEntropyResponse) unless the Merkle digests already agree; A merges the answer.  Statement: per key the
# receiver ends with merge(own version, received version) - the same merge as _handle_replicate (part G), so a
# version is never replaced by a causally older / LWW-earlier one - recorded BEFORE the store wait; the answer is the
# responder's complete table.  With the merge lemma (part H) a completed, undisturbed exchange leaves both with the
# winner (lemma below).  The Merkle root hash is an opaque string (C20).
from pyvc.heap import old_view as _old_view  # noqa: E402

stub_of(MerkleTree, "root_hash", returns=Str, modifies=[], ensures=[])
ROOT_HASH = (MerkleTree, "root_hash")


def _ae_incoming_term(m, key):
    """the version the digest of message m carries for key (raw VV term), as the handlers build it"""
    vd = z3.Select(AEV.dt.val(MSG.acc("versions")(m)), kt(key))
    vc = z3.If(VDATA.has(vd, "vector_clock"), VDATA.acc("vector_clock")(vd), Opt(VC).dt.none)
    return VV.dt.mk(z3.IntVal(0), VDATA.acc("value")(vd), VDATA.acc("timestamp")(vd), VDATA.acc("writer_id")(vd), vc)


def _in_digest(m, key):
    return mk_bool(z3.And(MSG.has(m, "versions"), z3.Select(AEV.dt.dom(MSG.acc("versions")(m)), kt(key))))


def _digest_wf(s):
    """every entry of a received digest is a complete version record (as the verified senders build it)"""
    vs = MSG.acc("versions")(md(s.event))
    return mhas(md(s.event), "versions") & forall(Str, lambda k: implies(mk_bool(z3.Select(AEV.dt.dom(vs), k.t)), mk_bool(z3.And(
        *[VDATA.has(z3.Select(AEV.dt.val(vs), k.t), f) for f in ("value", "timestamp", "writer_id")]))))


def _vdata_is(vd, vv):
    """the digest entry vd carries exactly the version vv (raw terms)"""
    return mk_bool(z3.And(*[VDATA.has(vd, f) for f in VDATA.fields],
                          VDATA.acc("value")(vd) == VV.dt.value(vv), VDATA.acc("timestamp")(vd) == VV.dt.timestamp(vv),
                          VDATA.acc("writer_id")(vd) == VV.dt.writer_id(vv),
                          VDATA.acc("vector_clock")(vd) == VV.dt.vector_clock(vv)))


def _digest_of(node, vs):
    """the digest (raw AEV term) is the node's complete version table: same keys, each entry the recorded version"""
    d, a, tv = VERSIONS.dt, AEV.dt, node._versions.term
    return forall(Str, lambda k: mk_bool(z3.Select(a.dom(vs), k.t) == z3.Select(d.dom(tv), k.t)) & implies(
        mk_bool(z3.Select(d.dom(tv), k.t)), _vdata_is(z3.Select(a.val(vs), k.t), z3.Select(d.val(tv), k.t))))


def _digest_so_far(L):
    dts = L.data_to_send
    if isinstance(dts, dict):           # the concrete {} before the loop (nothing visited yet)
        return len(dts) == 0
    a, t, tv = AEV.dt, dts.term, L.self._versions.term
    return mk_bool(a.dom(t) == L.visited.arr) & forall(Str, lambda k: implies(
        contains(L.visited, k), _vdata_is(z3.Select(a.val(t), k.t), z3.Select(VERSIONS.dt.val(tv), k.t))))


def _last_put_vals():
    for q, vals, _r in reversed(_ctx.cur().ghost_args.get("trace", [])):
        if q == "KVStore.put":
            return vals
    return None


def _ae_store_wait(s, y):
    """a store wait inside the merge loop: a non-negative delay.  Remembers the state at the loop head and the state
    now for the clause of _ae_iteration, which is checked once the key of the pending store write is known (stating
    it here for all keys - 'changed only at a digest key, to the merge' - proves, but the proved formula slows every
    later feasibility check of the path by seconds)"""
    if not isinstance(y, tuple):
        c = _ctx.cur()
        c.ghost_args["c17_ae_wait"] = (s.since(s.self), _old_view(s.self, c.heap.snapshot()))
    return _delay_ok(s, y)


def _ae_iteration(L, part):
    """(three clauses, part 0..2, so that a violated one is refuted on a small goal)  one iteration = one key of the received digest.  No store write: the version table holds
    merge(own, received) for the key (the own version won or was equal) and nothing else changed.  Store write: the
    merge was recorded BEFORE the wait (states remembered at the yield), the table is not written again after it, and
    the store received - and now holds - the value of the version that was recorded."""
    if L.loop_phase != "step":
        return True
    key, m = L.key, md(L.event)
    inc = _ae_incoming_term(m, key)
    wait = _ctx.cur().ghost_args.get("c17_ae_wait")
    put = _last_put_vals()
    if put is None:
        if wait is not None:
            return False
        return [_merged(L.self, L.since(L.self), key, inc), _untouched_except(L.self, L.since(L.self), key), True][part]
    if wait is None:
        return False
    since, at_wait = wait
    st = L.self._store
    return [_merged(at_wait, since, key, inc),
            _untouched_except(at_wait, since, key) & mk_bool(L.self._versions.term == L.since(L.self)._versions.term),
            (put["key"] == key) & mk_bool(put["value"].t == VV.dt.value(mval(at_wait._versions, key)))
            & has(st._data, key) & mk_bool(mval(st._data, key) == put["value"].t)][part]


DIGEST_WF = ("digest-entries-are-complete-version-records", _digest_wf)
AE_USES = KV_API + [(MerkleTree, "update"), ROOT_HASH, DOM_ML]

fn(LeaderNode, "_handle_anti_entropy_response", args={"event": Ref(Event)}, uses=AE_USES, **_lww_by_contract(),
   requires=[DIGEST_WF, UNBOUNDED], focus=ML_FOCUS,
   yields=Yields(at_yield=[("delay-nonnegative", _ae_store_wait)], stable=NODE_STABLE),
   ensures=[("returns-nothing", lambda s: s.result is None)])


def _ae_response_yield(s, y):
    """the answer goes to the requester and carries the responder's complete version table as it is now"""
    if not isinstance(y, tuple):
        return True
    e = _single_event(y)
    if e is None:
        return False
    m, req = md(e), md(s.event)
    src = z3.If(MSG.has(req, "source"), MSG.acc("source")(req), z3.StringVal(""))
    _ctx.cur().ghost_args["c17_ae_responded"] = True
    return (same(e.target, s.self._network) & (e.event_type == "AntiEntropyResponse") & mhas(m, "destination", "versions")
            & mk_bool(MSG.acc("destination")(m) == src) & _digest_of(s.self, MSG.acc("versions")(m)))


def _ae_request_exit(s):
    """no answer only when the digests agree (nothing to repair) or the requester is not a peer of this leader"""
    c = _ctx.cur()
    if c.ghost_args.get("c17_ae_responded"):
        return True
    req = md(s.event)
    hashes = [r for q, _v, r in c.ghost_args.get("trace", []) if q.endswith("root_hash")]
    remote = z3.If(MSG.has(req, "root_hash"), MSG.acc("root_hash")(req), z3.StringVal(""))
    src = z3.If(MSG.has(req, "source"), MSG.acc("source")(req), z3.StringVal(""))
    agree = mk_bool(hashes[-1].t == remote) if hashes else False
    known = sym_or(*[mk_bool(p.name.t == src) for p in s.self._peers])
    return agree | Not(known)


fn(LeaderNode, "_handle_anti_entropy_request", args={"event": Ref(Event)}, uses=AE_USES, **_lww_by_contract(),
   requires=[DIGEST_WF, UNBOUNDED,
             ("request-names-its-sender-and-digest-hash (as sent by _handle_anti_entropy)", lambda s: mhas(md(s.event), "source", "root_hash"))],
   focus=ML_FOCUS,
   yields=Yields(at_yield=[("delay-nonnegative", _ae_store_wait),
                           ("answer-carries-the-complete-version-table-to-the-requester", _ae_response_yield)],
                 stable=NODE_STABLE),
   ensures=[("returns-nothing", lambda s: s.result is None),
            ("answers-unless-digests-agree-or-requester-unknown", _ae_request_exit)])


class _AnyChoice:
    """stand-in for the `random` module inside multi_leader.py while a task runs: choice() is ANY element"""

    @staticmethod
    def choice(seq):
        items = [x for x in seq]
        c = _ctx.cur()
        i = c.fresh("choice", z3.IntSort())
        c.assume(z3.And(i >= 0, i < len(items)))
        return items[c.choose([i == j for j in range(len(items))], site="random.choice")]


def _choice_env():
    saved = []

    def setup(s):
        saved.append((_ml_mod.__dict__["random"], _ctx.OB_TIMEOUT_MS))
        _ml_mod.__dict__["random"] = _AnyChoice
        _ctx.OB_TIMEOUT_MS = min(_ctx.OB_TIMEOUT_MS, 40000)       # (as in _lww_by_contract: every clause proves in < 0.2 s)
        return []

    def teardown(s):
        while saved:
            _ml_mod.__dict__["random"], _ctx.OB_TIMEOUT_MS = saved.pop()
    return {"setup": setup, "teardown": teardown}


def _ae_start_yield(s, y):
    """a round sends ONE request, to a peer, with this leader's complete version table and digest hash, and schedules
    the next round (daemon) at this leader"""
    if not isinstance(y, tuple) or isinstance(y[1], SymList) or len(y[1]) != 2:
        return False
    e, nxt = y[1]
    m = md(e)
    to_peer = sym_or(*[mget(m, "destination") == p.name for p in s.self._peers])
    return (same(e.target, s.self._network) & (e.event_type == "AntiEntropyRequest")
            & mhas(m, "source", "destination", "root_hash", "versions") & (mget(m, "source") == s.self.name) & to_peer
            & _digest_of(s.self, MSG.acc("versions")(m))
            & same(nxt.target, s.self) & (nxt.event_type == "AntiEntropy") & nxt.daemon)


fn(LeaderNode, "_handle_anti_entropy", args={"event": Ref(Event)}, uses=[ROOT_HASH], **_choice_env(),
   yields=Yields(at_yield=[("delay-nonnegative", _delay_ok),
                           ("one-request-to-a-peer-with-the-complete-version-table--next-round-scheduled", _ae_start_yield),
                           ("version-table-untouched", lambda s, y: seg_unchanged(s, s.self, "_versions"))],
                 stable=NODE_STABLE),
   ensures=[("returns-nothing", lambda s: s.result is None),
            ("version-table-untouched", lambda s: seg_unchanged(s, s.self, "_versions"))])


def _exchange_lemma():
    """Composition (with the merge of part H, M = the LWW maximum under H1): A holds a, B holds b for a key.
    Request: B := M(b, a).  Response carries B's table: A := M(a, M(b, a)).  Both end with M(a, b) - the resolver's
    winner of their two versions.  Keys only B has: A installs b (first-version case), keys only A has: B installs a."""
    V = z3.DeclareSort("VersionX")
    ts = z3.Function("x_ts", V, z3.RealSort())
    wr = z3.Function("x_writer", V, z3.StringSort())
    D = z3.Function("x_dominates", V, V, z3.BoolSort())

    def gt(p, q):
        return z3.Or(ts(p) > ts(q), z3.And(ts(p) == ts(q), wr(q) < wr(p)))

    def merge(x, y):
        return z3.If(D(y, x), y, z3.If(D(x, y), x, z3.If(gt(y, x), y, x)))
    a, b = z3.Const("xa", V), z3.Const("xb", V)
    b1 = merge(b, a)
    a1 = merge(a, b1)
    for p in (a, b, b1, a1):
        for q in (a, b, b1, a1):
            assume(z3.Implies(D(p, q), gt(p, q)))
            assume(z3.Implies(z3.And(ts(p) == ts(q), wr(p) == wr(q)), p == q))
    oblige("both-hold-the-same-version", a1 == b1)
    oblige("it-is-one-of-the-two", z3.Or(a1 == a, a1 == b))
    oblige("it-is-the-lww-winner", z3.And(z3.Not(gt(a, a1)), z3.Not(gt(b, a1))))
    oblige("neither-side-went-back", z3.And(z3.Not(gt(a, a1)), z3.Not(gt(b, b1))))


lemma("anti-entropy-exchange-leaves-both-with-the-winner", _exchange_lemma)

# ---- handle_event of the four node classes: every protocol message reaches the handler whose contract (parts D-G, J)
# speaks about it - exactly one handler, with the very event; anything else is ignored.  The handlers are replaced
# by recorders for these tasks (their own contracts are the tasks above).
import inspect as _inspect  # noqa: E402


def _routing(klass, table, guard=None):
    saved = []

    def recorder(name, is_gen):
        def rec(self, event):
            _ctx.cur().ghost_args.setdefault("c17_routed", []).append((name, event))
            return None
        if not is_gen:
            return rec

        def rec_gen(self, event):
            rec(self, event)
            return None
            yield       # noqa: unreachable - makes this a generator function, like the handler it stands for
        return rec_gen

    def setup(s):
        for name in sorted(set(table.values())):
            f = klass.__dict__[name]
            saved.append((name, f))
            setattr(klass, name, recorder(name, _inspect.isgeneratorfunction(f)))
        return []

    def teardown(s):
        while saved:
            name, f = saved.pop()
            setattr(klass, name, f)

    def post(s):
        routed = _ctx.cur().ghost_args.get("c17_routed", [])
        et = s.event.event_type
        for t, name in table.items():
            if et == t:
                if guard is not None and t in guard and not guard[t](s):
                    return len(routed) == 0
                return len(routed) == 1 and routed[0][0] == name and same(routed[0][1], s.event) is True
        return len(routed) == 0
    return {"setup": setup, "teardown": teardown}, post


for _k, _table, _guard in (
        (PrimaryNode, {"Write": "_handle_write", "Read": "_handle_read", "ReplicationAck": "_handle_ack"}, None),
        (BackupNode, {"Replicate": "_handle_replicate", "Read": "_handle_read"}, {"Read": lambda s: s.self._serve_reads}),
        (ChainNode, {"Write": "_handle_write", "Propagate": "_handle_propagate", "WriteAck": "_handle_write_ack",
                     "Read": "_handle_read", "CommitNotify": "_handle_commit_notify"}, None),
        (LeaderNode, {"Write": "_handle_write", "Read": "_handle_read", "Replicate": "_handle_replicate",
                      "AntiEntropy": "_handle_anti_entropy", "AntiEntropyRequest": "_handle_anti_entropy_request",
                      "AntiEntropyResponse": "_handle_anti_entropy_response"}, None)):
    _env, _post = _routing(_k, _table, _guard)
    fn(_k, "handle_event", args={"event": Ref(Event)}, **_env, yields=Yields(at_yield=[("no-yield-of-its-own", lambda s, y: False)]),
       ensures=[("message-reaches-exactly-the-handler-of-its-type", _post), ("returns-nothing", lambda s: s.result is None)])

# ---- add_peers: discharges 'leaders are wired with add_peers (LeaderNode._vclock is not None)' of A-clock/merkle
# (the clock's own constructor - dict.fromkeys over the node ids - is C18's; opaque here like send / receive)
stub_of(VectorClock, "__init__", modifies=["_node_id", "_vector"], ensures=[])
fn(LeaderNode, "add_peers", args={"peers": Seq(Ref(Entity))}, uses=[(VectorClock, "__init__")],
   requires=[("at-most-three-peers (configuration bound)", lambda s: slen(s.peers) <= MAX_BACKUPS)],
   ensures=[("peers-recorded-in-order", lambda s: mk_bool(seq_term(s.self._peers) == seq_term(s.peers))),
            ("vector-clock-created", lambda s: s.self._vclock is not None),
            ("version-table-untouched", lambda s: unchanged(s, s.self, "_versions"))])

# ---- build_chain: discharges assumption A-chain for chains of 2..4 nodes (the wiring the read / commit clauses of
# part F rely on: following next_node ends at the node with role TAIL, every node knows the head)
def _chain_wired(s):
    nodes = [n for n in s.result]
    names = [x for x in s.names]
    if len(nodes) != len(names) or len(nodes) < 2:
        return False
    ok = True
    last = len(nodes) - 1
    for i, n in enumerate(nodes):
        role = ChainNodeRole.HEAD if i == 0 else ChainNodeRole.TAIL if i == last else ChainNodeRole.MIDDLE
        ok = ok & (n.name == names[i]) & mk_bool(field_term(n, "_role") == ROLE.unwrap(role)) & same(n.head_node, nodes[0]) \
            & same(n._network, s.network) & iff(n._craq_enabled, s.craq_enabled)
        ok = ok & (same(n.next_node, nodes[i + 1]) if i < last else mk_bool(field_term(n, "next_node") == 0))
        ok = ok & (same(n.prev_node, nodes[i - 1]) if i > 0 else mk_bool(field_term(n, "prev_node") == 0))
        for m in nodes[i + 1:]:
            ok = ok & Not(same(n, m))
        # a fresh node: no write in flight, nothing dirty, nothing accepted
        ok = ok & (slen(n._dirty_keys) == 0) & (slen(n._dirty_count) == 0) & (slen(n._latest) == 0) & (n._next_seq == 0)
    return ok


# (entities are verified "as attached" - COMMON_ASSUMPTIONS: Entity.__init__ leaves `_clock = None` until the simulation
# injects the clock; the setup replaces Entity.__init__ by its first statement, same as specs/C07.py)
_ENTITY_INIT = [Entity.__init__]


def _attached(s):
    def _init(self, name):
        self.name = name
    Entity.__init__ = _init
    return []


def _detach(s):
    Entity.__init__ = _ENTITY_INIT[0]


# (a Python list of n symbolic names, n = 2, 3, 4: a z3 sequence of strings is a nested sequence, on which z3 answers
# `unknown` instead of producing the counterexample of a violated clause)
for _n in (2, 3, 4):
    fn(_ch_mod.__name__, "build_chain", kind="function", label=f"{_n}-nodes", setup=_attached, teardown=_detach,
       args={"names": lambda n=_n: [Str.fresh(f"name{i}") for i in range(n)], "network": Ref(Network),
             "store_factory": Fn(Ref(KVStore), "store_factory"), "craq_enabled": Bool},
       returns=Seq(Ref(ChainNode)),
       ensures=[("head-middle-tail-in-order--linked-both-ways--every-node-knows-the-head", _chain_wired)])

# ============================================================================ K. ReplicatedStore.get / put / delete
# Three replicas (configuration bound), one task per consistency level.  Environment model: a replica operation
# either fails with TimeoutError before having any effect (the failure the code handles: `except (TimeoutError,
# RuntimeError, OSError)`) or behaves as the KVStore contract (part C) - so W / R matter.
KV_DEL = stub_of(KVStore, "delete", returns=Bool, modifies=["_data", "_insertion_order", "_deletes"], ensures=[
    lambda s: iff(s.result, has(s.old(s.self)._data, s.key))
    & mk_bool(_data_dom(s.self) == z3.Store(_data_dom(s.old(s.self)), kt(s.key), z3.BoolVal(False)))
    & forall(Str, lambda k: implies(k != s.key, mk_bool(z3.Select(_data_val(s.self), k.t) == z3.Select(_data_val(s.old(s.self)), k.t))))])
KV_DEL.stub_yield = lambda s: s.self._delete_latency
KV_API3 = KV_API + [(KVStore, "delete")]
N_REPLICAS = 3
LEVEL_NEEDS = {ConsistencyLevel.ONE: 1, ConsistencyLevel.QUORUM: 2, ConsistencyLevel.ALL: 3}     # (n = 3; part B proves the general formula)


def _flaky_replicas():
    """setup/teardown: every replica operation first forks on 'replica unavailable' -> TimeoutError, nothing applied"""
    saved = []

    def wrap(name):
        inner = KVStore.__dict__[name]

        def op(self, *a, **k):
            c = _ctx.cur()
            c.ghost_args.setdefault("c17_attempts", []).append((name, self))
            if c.branch(c.fresh("replica_down", z3.BoolSort()), site="replica-down:" + name):
                raise TimeoutError("replica unavailable")
            return inner(self, *a, **k)
        op._pyvc_stub = True
        return op

    def setup(s):
        for name in ("get", "put", "delete"):
            saved.append((name, KVStore.__dict__[name]))
            setattr(KVStore, name, wrap(name))
        # (the first precondition of RS_PRE, assumed already here: `focus` iterates the replica list before the
        # preconditions are assumed)
        _ctx.cur().assume(to_z3_bool(slen(s.self._replicas) == N_REPLICAS))
        return []

    def teardown(s):
        while saved:
            name, f = saved.pop()
            setattr(KVStore, name, f)
    return {"setup": setup, "teardown": teardown}


def _replicas(s):
    return [r for r in s.self._replicas]


def _completed(q):
    """ghost call trace: the replica operations of kind q that COMPLETED on this path: (replica, arguments, result)"""
    return [(vals["self"], vals, r) for qq, vals, r in _ctx.cur().ghost_args.get("trace", []) if qq == "KVStore." + q]


def _each_replica_once(s, q):
    """the operation was attempted on every replica, once each, in list order"""
    att = [o for (n, o) in _ctx.cur().ghost_args.get("c17_attempts", []) if n == q]
    reps = _replicas(s)
    return len(att) == len(reps) and sym_and(*[same(a, r) for a, r in zip(att, reps)])


RS_PRE = [("three-replicas (configuration bound of this check)", lambda s: slen(s.self._replicas) == N_REPLICAS),
          ("replicas-are-pairwise-distinct-stores", lambda s: sym_and(*[Not(same(a, b)) for i, a in enumerate(_replicas(s))
                                                                      for b in _replicas(s)[i + 1:]])),
          ("replica-stores-unbounded", lambda s: all(r._capacity is None for r in _replicas(s)))]
RS_STABLE = [("Entity", "_clock"), ("Entity", "name")]


def _rs_put_post(level):
    need = LEVEL_NEEDS[level]

    def post(s):
        done = _completed("put")
        ok = sym_and(*[(v["key"] == s.key) & mk_bool(v["value"].t == s.value.t) for _o, v, _r in done])
        acked = s.result if isinstance(s.result, bool) else to_z3_bool(s.result)
        want = len(done) >= need
        return ok & (acked == want if isinstance(acked, bool) else mk_bool(acked == z3.BoolVal(want)))
    return post


def _rs_get_post(level):
    need = LEVEL_NEEDS[level]

    def post(s):
        done = _completed("get")
        if s.result is None:
            # a miss / failed read: fewer than R replicas answered, or no replica that answered holds the key
            return len(done) < need or all(r is None for _o, _v, r in done)
        # a hit: at least R replicas had answered, and the value is what one of them held
        return len(done) >= need and sym_or(*[mk_bool(r.t == s.result.t) for _o, _v, r in done if r is not None])
    return post


def _rs_delete_post(level):
    need = LEVEL_NEEDS[level]

    def post(s):
        done = _completed("delete")
        existed = sym_or(*[r for _o, _v, r in done]) if done else False
        want = existed if len(done) >= need else False
        res = s.result
        if isinstance(res, bool) and isinstance(want, bool):
            return res == want
        return mk_bool(to_z3_bool(res) == to_z3_bool(want))
    return post


def _replica_data_untouched(s):
    return sym_and(*[mk_bool(r._data.term == s.pre(r)._data.term) for r in _replicas(s)])


for _lv in ConsistencyLevel:
    _is_w = (f"write-consistency-{_lv.name}", lambda s, lv=_lv: s.self._write_consistency is lv)
    _is_r = (f"read-consistency-{_lv.name}", lambda s, lv=_lv: s.self._read_consistency is lv)
    fn(ReplicatedStore, "put", args={"key": Str, "value": Any}, label=_lv.name, uses=KV_API3, **_flaky_replicas(),
       requires=RS_PRE + [_is_w], focus=_replicas,
       yields=Yields(at_yield=[("delay-nonnegative", _delay_ok)], stable=RS_STABLE),
       ensures=[("acknowledged-iff-at-least-W-replicas-applied-this-write", _rs_put_post(_lv)),
                ("every-replica-is-sent-the-write", lambda s: _each_replica_once(s, "put"))])
    fn(ReplicatedStore, "get", args={"key": Str}, label=_lv.name, uses=KV_API3, **_flaky_replicas(),
       requires=RS_PRE + [_is_r], focus=_replicas,
       yields=Yields(at_yield=[("delay-nonnegative", _delay_ok),
                               ("replica-data-untouched", lambda s, y: _replica_data_untouched(s))], stable=RS_STABLE),
       ensures=[("hit-only-after-R-answers-and-from-an-answering-replica--miss-only-if-none-of-them-holds-the-key", _rs_get_post(_lv)),
                ("replica-data-untouched", _replica_data_untouched)])
    fn(ReplicatedStore, "delete", args={"key": Str}, label=_lv.name, uses=KV_API3, **_flaky_replicas(),
       requires=RS_PRE + [_is_w], focus=_replicas,
       yields=Yields(at_yield=[("delay-nonnegative", _delay_ok)], stable=RS_STABLE),
       ensures=[("acknowledged-iff-at-least-W-replicas-deleted-and-the-key-existed", _rs_delete_post(_lv)),
                ("every-replica-is-sent-the-delete", lambda s: _each_replica_once(s, "delete"))])

# ============================================================================ I. bounded native stand-in (end to end)
def _random_replication_runs(seed, tier):
    """BOUNDED (not a proof): findings/c17_replication.py in a fresh interpreter (no proxies): the three schemes
    inside real Simulations (public API only) with random per-message delays - so messages for one key overtake
    each other -, repeated keys, all modes / sizes, concurrent writers.  Checks the statement itself: where an
    acknowledged write is at the moment of the acknowledgement, what a chain read returns relative to the tail,
    and that all replicas agree after the run has drained (multi-leader: with anti-entropy running).  Covers the
    anti-entropy handlers and the cross-node composition that the per-handler contracts leave to the paper argument."""
    import json
    import os
    import subprocess
    env = dict(os.environ, PYTHONPATH=_ctx.REPO)
    p = subprocess.run(["/venv/bin/python", "/verif/findings/c17_replication.py", "--json", str(seed), tier],
                       capture_output=True, text=True, timeout=900, env=env, cwd="/tmp")
    for ln in p.stdout.splitlines():
        if ln.startswith("C17-RESULT "):
            return json.loads(ln[len("C17-RESULT "):])
    raise RuntimeError(f"native replication stand-in failed: {p.stderr[-600:]}")


PROPERTY["bounded"] = [{"name": "replication-random-delays",
                        "bound": "60 (quick) / 600 (thorough) runs per scheme: 1-3 backups in every mode, 2-4 chain nodes "
                                 "with and without CRAQ, 2-3 leaders with anti-entropy; 3-8 writes over 2 keys, uniform "
                                 "random per-message delay in [2 ms, 200 ms]", "fn": _random_replication_runs}]



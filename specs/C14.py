"""C14 - storage engines behave like a map under any flushes, compactions and overlap.

Part A: Memtable against its map view.            Part B: KVStore (no capacity limit) against its map view.
Part D: LSM tree over the ghost map view of its SSTables (SSTable internals are used through assumed contracts):
        get_sync against the layered view, put_sync, both flushes (data moves to the newest L0 run; the memtable
        being flushed stays readable at every yield).
Part E: transactions (conflict check = functional spec of backward validation, atomic commit, snapshot reads).
Part F: bounded native stand-ins (compaction through the sync API against a dict; generator API of the LSM tree and
        of the B-tree inside a real Simulation against an interval oracle).
Part C: SSTable.contains (Bloom filter: no false negative for a key of the view), SSTable.overlaps (key ranges).
Part G: the three compaction strategies: select_compaction hands back the WHOLE run list of one existing level (or
        nothing) + the documented choice of each strategy.
Part H: generator LSMTree.put / delete: the value / tombstone reaches the active memtable in one atomic step.
Part F additionally: one compaction on directly constructed trees (level gaps, tombstones) against a merge oracle;
        overlapping compactions and flushes inside a Simulation (single-level trees only once
        fixes/C14_same-level-merge-stays-oldest.diff is applied: open finding, triage/c14_single_level_compaction.py).
See DESIGN.md section 3-C14.
"""
from pyvc.spec import *

F_MT = "happysimulator/components/storage/memtable.py"
F_SST = "happysimulator/components/storage/sstable.py"
F_LSM = "happysimulator/components/storage/lsm_tree.py"
F_KV = "happysimulator/components/datastore/kv_store.py"
F_TM = "happysimulator/components/storage/transaction_manager.py"
F_BT = "happysimulator/components/storage/btree.py"

# ---------------------------------------------------------------------------- view helpers
VAL = Any
DMAP = Map(Str, VAL, ordered=True)      # a Python dict (insertion ordered) str -> value | TOMBSTONE
EMPTY_S = z3.K(z3.StringSort(), z3.BoolVal(False))


def kt(k):
    """raw z3 string term of a key (symbolic or concrete)"""
    return k.t if hasattr(k, "t") else z3.StringVal(k)


def sdom(x):
    """SymSet / SymDict -> its domain as Array(Str, Bool)"""
    return x._ty.dt.dom(x.term)


def mval(d, k):
    """raw value term of d[k] (meaningful only where k is in the domain)"""
    return z3.Select(d._ty.dt.val(d.term), kt(k))


def has(x, k):
    return mk_bool(z3.Select(sdom(x), kt(k)))


def same_entry(d1, d0, k):
    """key k is mapped alike by the two dicts (both absent, or both present with one value)"""
    return iff(has(d1, k), has(d0, k)) & implies(has(d1, k), mk_bool(mval(d1, k) == mval(d0, k)))


def same_map(d1, d0):
    return forall(Str, lambda j: same_entry(d1, d0, j))


def is_update(d1, d0, k, v):
    """d1 == d0[k -> v]  (pointwise)"""
    return (has(d1, k) & mk_bool(mval(d1, k) == v.t)
            & forall(Str, lambda j: implies(mk_bool(kt(j) != kt(k)), same_entry(d1, d0, j))))


def is_removal(d1, d0, k):
    """d1 == d0 - {k}  (pointwise)"""
    return Not(has(d1, k)) & forall(Str, lambda j: implies(mk_bool(kt(j) != kt(k)), same_entry(d1, d0, j)))


def reads_as(result, d, k):
    """`result` is what a map lookup of k in d gives: None when absent, the stored value otherwise
    (stored values are never None: see the assumptions)"""
    if result is None:
        return Not(has(d, k))
    return has(d, k) & mk_bool(result.t == mval(d, k))


# ---------------------------------------------------------------------------- loop contracts
# (declared before the repo modules are imported)
from pyvc import ctx as _ctx  # noqa: E402
from pyvc.types import Ty  # noqa: E402
from pyvc.heap import Box  # noqa: E402

SSET = Set(Str)
WMAP = Map(Str, VAL)          # a write set: only its key *set* and per-key values are used (no order)


def nonempty_inter(a, b):
    """the two key sets (Array Str Bool) intersect"""
    return mk_bool(z3.SetIntersect(a, b) != EMPTY_S)


def entry_conflicts(e, tx, iso_idx, ser_idx):
    """functional spec of backward validation against ONE commit-log entry `e` (raw datatype term), for the
    levels above READ_COMMITTED: the entry committed after the transaction's snapshot, belongs to another
    transaction and (ww) wrote a key the transaction writes, or (rw) wrote a key the transaction read - reads
    are served by the live store, so this is what `reads come from one consistent snapshot` demands of every
    transaction that is allowed to commit - or, SERIALIZABLE only, (wr) read a key the transaction writes.
    `iso_idx` = the raw isolation term."""
    d = ENTRY_DT()
    ws, rs = sdom(tx._write_set), sdom(tx._read_set)
    kw, kr = SSET.dt.dom(d.keys_written(e)), SSET.dt.dom(d.keys_read(e))
    later = mk_bool(z3.And(d.version(e) > num(tx._snapshot_version), d.tx_id(e) != num(tx._tx_id)))
    ser = mk_bool(iso_idx == ser_idx)
    return later & (nonempty_inter(ws, kw) | nonempty_inter(rs, kw) | (ser & nonempty_inter(ws, kr)))


def ENTRY_DT():
    return ENTRY.dt


def _iso_term(tx):
    return field_term(tx, "_isolation")


# TransactionManager._check_conflict: for entry in self._commit_log
loop(F_TM, "TransactionManager._check_conflict", 1, inv=[
    ("no-conflict-among-the-entries-checked-so-far", lambda L: forall(Int, lambda j: implies(
        (0 <= j) & (j < L.i), Not(entry_conflicts(seq_term(L.seq)[j.t], L.tx, _iso_term(L.tx), ISO_SER))))),
    ("not-read-committed", lambda L: mk_bool(_iso_term(L.tx) != ISO_RC))])

# StorageTransaction.commit: for key, value in self._write_set.items(): store.put_sync(key, value)
loop(F_TM, "StorageTransaction.commit", 1, modifies=[("StorageEngine", "g_map")], types={"key": Str, "value": VAL},
     inv=[
    ("visited-keys-applied", lambda L: forall(Str, lambda k: implies(
        contains(L.visited, k), has(L.self._manager._store.g_map, k)
        & mk_bool(mval(L.self._manager._store.g_map, k) == mval(L.self._write_set, k))))),
    ("other-keys-untouched", lambda L: forall(Str, lambda k: implies(
        Not(contains(L.visited, k)), same_entry(L.self._manager._store.g_map, L.old(L.self._manager._store).g_map, k)))),
])


# ---- LSM tree: raw (fork-free) readers of the components, for use under quantifiers
def mt_data(ref):
    """raw term of Memtable._data of the memtable with reference term `ref` (current state)"""
    return field_term(ObjProxy(ref, _K["Memtable"]), "_data")


def sst_view(ref):
    """raw term of the ghost map view of the SSTable with reference term `ref`"""
    return field_term(ObjProxy(ref, _K["SSTable"]), "g_view")


def raw_has(ty, m, k):
    return mk_bool(z3.Select(ty.dt.dom(m), kt(k)))


def raw_val(ty, m, k):
    return z3.Select(ty.dt.val(m), kt(k))


_K = {}         # class objects, filled after the repo import


def imm_has(imm_seq, j, k):
    return raw_has(DMAP, mt_data(imm_seq[j]), k)


def sst_has(ref, k):
    return raw_has(WMAP, sst_view(ref), k)


def in_rng(j, n):
    return (0 <= j) & mk_bool(j.t < n)


def _newest(j, cnt, n):
    """index j is among the `cnt` newest (= last) positions of a list of length n (raw term)"""
    _note(num(cnt), n - 1 - num(cnt))
    return mk_bool(z3.And(j.t >= n - num(cnt), j.t < n, j.t >= 0))


def _note(*terms):
    """proof hint: register index terms so that the quantified facts are instantiated on them (stage 1)"""
    c = _ctx.cur()
    for t in terms:
        t = z3.simplify(t)
        if not z3.is_int_value(t) and not z3.is_var(t):
            c.note_term(t)


def level_misses(levels, l, k):
    """no run of level l (raw Int term) holds key k"""
    lv = levels[l]
    return forall(Int, lambda i: implies(in_rng(i, z3.Length(lv)), Not(sst_has(lv[i.t], k))), "i")


# LSMTree.get_sync: (1) for imm in reversed(immutable memtables)  (2) for level in levels  (3) for sstable in reversed(level)
_GS_MODS = [("Memtable", "_total_reads"), ("Memtable", "_total_hits"), ("Memtable", "_total_misses"),
            ("LSMTree", "_total_read_hits"), ("LSMTree", "_total_sstables_checked"), ("LSMTree", "_total_bloom_saves")]
loop(F_LSM, "LSMTree.get_sync", 1, modifies=_GS_MODS, types={"value": Opt(VAL)}, inv=[
    ("no-newer-immutable-memtable-holds-the-key", lambda L: forall(Int, lambda j: implies(
        _newest(j, L.i, z3.Length(seq_term(L.self._immutable_memtables))),
        Not(imm_has(seq_term(L.self._immutable_memtables), j.t, L.key))), "j"))])
loop(F_LSM, "LSMTree.get_sync", 2, modifies=_GS_MODS, types={"result": Opt(VAL)}, inv=[
    ("no-upper-level-holds-the-key", lambda L: forall(Int, lambda l: implies(
        (0 <= l) & (l < L.i), level_misses(seq_term(L.seq), l.t, L.key)), "l"))])
loop(F_LSM, "LSMTree.get_sync", 3, modifies=_GS_MODS, types={"result": Opt(VAL)}, inv=[
    ("no-newer-run-of-this-level-holds-the-key", lambda L: forall(Int, lambda j: implies(
        _newest(j, L.i, z3.Length(seq_term(L.level))), Not(sst_has(seq_term(L.level)[j.t], L.key))), "j"))])

# ghost: at each of the three hit sites of get_sync record WHERE the hit happened (proof hint: the witnesses of
# the existentials in `lookup_is`; the clause itself does not change)
ghost(F_LSM, "LSMTree.get_sync", "self._total_read_hits += 1", "_c14_hit(locals())", where="after*")


# ghost assertions at the point where a flush has installed the new L0 run (before any compaction runs)
ghost(F_LSM, "LSMTree._flush_memtable_sync", "self._total_memtable_flushes += 1", "_c14_flush_installed(self, sstable)",
      where="after")
ghost(F_LSM, "LSMTree._flush_memtable", "self._immutable_memtables.remove(old_memtable)",
      "_c14_flush_installed(self, sstable)", where="after")


# ---- compaction strategies (part G): the loops of select_compaction / should_compact
# SizeTieredCompaction.select_compaction: for i, level in enumerate(levels)
loop(F_LSM, "SizeTieredCompaction.select_compaction", 1, inv=[
    ("best-level-is-an-existing-level", lambda L: (L.best_level == 0) | ((0 <= L.best_level) & (L.best_level < L.i))),
    ("best-count-is-the-run-count-of-the-best-level", lambda L: (L.best_count >= 0) & implies(
        L.best_count > 0, mk_bool(z3.Length(seq_term(L.levels)[num(L.best_level)]) == num(L.best_count)))),
    ("no-level-seen-so-far-has-more-runs", lambda L: forall(Int, lambda j: implies(
        (0 <= j) & (j < L.i), mk_bool(z3.Length(seq_term(L.levels)[j.t]) <= num(L.best_count))), "j"))])
# LeveledCompaction: for i in range(1, len(levels))  (both methods return from inside the loop)
loop(F_LSM, "LeveledCompaction.should_compact", 1, inv=[], types={"limit": Int, "total_keys": Int})
loop(F_LSM, "LeveledCompaction.select_compaction", 1, inv=[], types={"limit": Int, "total_keys": Int})
# FIFOCompaction.select_compaction: for i in range(len(levels) - 1, -1, -1)
loop(F_LSM, "FIFOCompaction.select_compaction", 1, inv=[
    ("every-deeper-level-is-empty", lambda L: forall(Int, lambda j: implies(
        mk_bool(z3.And(j.t >= z3.Length(seq_term(L.levels)) - num(L.i), j.t < z3.Length(seq_term(L.levels)), j.t >= 0)),
        mk_bool(z3.Length(seq_term(L.levels)[j.t]) == 0)), "j"))])


def _c14_flush_installed(self, sstable):
    """the flushed entries are now served by the NEWEST run of level 0, every older run and level is where it was
    at the start of this atomic segment, and the memtable the flush started from has been retired"""
    c = _ctx.cur()
    from pyvc.heap import old_view
    m0 = old_view(self, c.pre_state)._memtable                   # the memtable at function entry
    entry_data = old_view(m0, c.pre_state)._data
    seg = c.ghost_args.get("c14_seg") or c.pre_state              # start of the current atomic segment
    lv1, lv0 = seq_term(self._levels), seq_term(old_view(self, seg)._levels)
    oblige("flush/new-run-is-the-newest-of-level-0", mk_bool(z3.And(
        z3.Length(lv1[0]) == z3.Length(lv0[0]) + 1, lv1[0][z3.Length(lv0[0])] == sstable._ref)), kind="post")
    oblige("flush/older-runs-and-levels-keep-their-place", mk_bool(z3.And(
        z3.Length(lv1) == z3.Length(lv0), z3.Extract(lv1[0], 0, z3.Length(lv0[0])) == lv0[0],
        z3.Extract(lv1, 1, z3.Length(lv1) - 1) == z3.Extract(lv0, 1, z3.Length(lv0) - 1))), kind="post")
    oblige("flush/new-run-holds-exactly-the-flushed-entries", same_map(sstable.g_view, entry_data), kind="post")
    oblige("flush/flushed-memtable-is-retired", Not(same(self._memtable, m0)) | (slen(self._memtable._data) == 0),
           kind="post")


def _c14_hit(locs):
    lps = {v.key[2]: v for n, v in locs.items() if n.startswith("_pyvc_lp")}
    if "sstable" in locs and 3 in lps:
        w = ("sst", lps[2].i, lps[3].i)
    elif "imm" in locs and 1 in lps:
        w = ("imm", lps[1].i)
    else:
        w = ("mt",)
    _ctx.cur().ghost_args["c14_hit"] = w


from specs.common import *  # noqa: E402,F401

from happysimulator.components.storage.memtable import Memtable  # noqa: E402
from happysimulator.components.datastore.kv_store import KVStore  # noqa: E402

PROPERTY = {
    "id": "C14",
    "level": "proof",
    "trusted": ["heap typing of the fields declared in specs/C14.py and specs/common.py",
                "spec-local shims of builtins used by the anchored modules: reversed(list) = the same elements in "
                "opposite order, frozenset(set / dict keys) = an immutable copy, `x is _TOMBSTONE` = equality with the "
                "module's private sentinel object"],
    "assumptions": COMMON_ASSUMPTIONS + [
        "stored values are never None: `put(k, None)` is indistinguishable from an absent key in every engine "
        "(`if value is not None`), which the property statement does not cover",
        "the key-value store has no capacity limit (KVStore._capacity is None), as in the statement",
        "KVStore.delete/delete_sync: a stored key is listed in _insertion_order (eviction bookkeeping; established by "
        "put for the written key - clause new-key-tracked - its preservation by list.remove of another key is not "
        "decided by z3's sequence solver)",
        "user values are never the LSM tree's private tombstone sentinel (precondition of LSMTree.put_sync)",
        "transactions: the store behind a TransactionManager meets the map contract proved for KVStore in part B "
        "(stubs StorageEngine.put_sync / get over the ghost map g_map; get waits one latency, then reads atomically) and is "
        "written only through committed transactions; the OCC serial-order argument is by induction over the commits "
        "between snapshot and commit (lemma occ-backward-validation-step is the induction step)",
        "LSM tree, parts below the tree are used through assumed contracts over the ghost map view SSTable.g_view: "
        "SSTable.contains has no false negatives (Bloom filter, property C20), SSTable.get returns the view, "
        "Memtable.flush returns a NEW SSTable whose view equals the memtable's entries and empties the memtable, "
        "Memtable.__init__ gives an empty memtable with the requested threshold; SSTable internals (sorted run, sparse "
        "index, bisect) are not under contract in this check",
        "LSM tree: CompactionStrategy.should_compact is an arbitrary pure predicate; WriteAheadLog.append/append_sync/"
        "truncate only touch the WAL (property C15); the compaction stubs _compact/_compact_sync used by the flush "
        "contracts only promise to keep the number of levels (the merge itself is covered by the bounded stand-ins only)",
        "LSMTree._flush_memtable rely: an immutable memtable is written by nobody (puts go to the active memtable, "
        "which the flush has replaced before its first yield) and leaves _immutable_memtables only through the flush "
        "that put it there",
        "mixed use of the sync API while a generator flush is suspended (put_sync + _flush_memtable_sync with a "
        "non-empty _immutable_memtables list) is outside the statement (operations overlapping in simulated time are "
        "the generator API)",
        "SSTable.contains (part C): BloomFilter.contains has no false negatives over the ghost set g_items (property "
        "C20) and the filter of an SSTable holds every key of its view (established by the add loop of "
        "SSTable.__init__, which is not under contract: sorted(key=), range with a step and two list comprehensions "
        "over lists of symbolic length); SSTable.get / scan / _index_range_for stay behind the assumed view contract "
        "in the registered check - an opt-in run (C14_SSTABLE_DEEP=1) proves `get` from the class invariant with a "
        "trusted contract of bisect_left/bisect_right, but needs 150-220 s and leaves _index_range_for undecided",
        "compaction strategies (part G): the level list handed to select_compaction has at least level 0 (LSMTree "
        "invariant has-level-0); `size_ratio ** i` with a symbolic exponent is an uninterpreted function, and "
        "sum(s.key_count for s in level) over a level of symbolic length an arbitrary integer (engine) - the selection "
        "contracts do not depend on either",
        "LSMTree.put / delete (part H): WriteAheadLog.append only touches the WAL; the flush that a full memtable "
        "triggers is used through a stub that may rewrite the on-disk lists and replace the active memtable but keeps the "
        "number of levels (its own contract: part D)",
        "the merge of a compaction (_compact/_compact_sync) is covered by bounded stand-ins only; they start from "
        "trees in which the runs of one level >= 1 have pairwise disjoint key sets - an invariant the sync workload "
        "stand-in re-checks on every tree it reaches (without it the merge is wrong: among the overlapping runs of the "
        "target level the OLDEST version of a key wins)",
    ],
}

# ============================================================================ A. Memtable
cls(Memtable, fields={"_size_threshold": Int, "_write_latency": Real, "_read_latency": Real, "_rwlock": Any,
                      "_data": DMAP, "_sequence": Int, "_total_writes": Int, "_total_reads": Int,
                      "_total_hits": Int, "_total_misses": Int, "_total_flushes": Int,
                      "_total_bytes_written": Int},
    const=["_size_threshold", "_write_latency", "_read_latency", "_rwlock"])

fn(Memtable, "put_sync", args={"key": Str, "value": VAL}, ensures=[
    ("view-updated", lambda s: is_update(s.self._data, s.old(s.self)._data, s.key, s.value)),
    ("full-iff-threshold-reached", lambda s: iff(s.result, slen(s.self._data) >= s.self._size_threshold))])

fn(Memtable, "get_sync", args={"key": Str}, ensures=[
    ("returns-view", lambda s: reads_as(s.result, s.self._data, s.key)),
    ("pure", lambda s: unchanged(s, s.self, "_data"))])

fn(Memtable, "contains", args={"key": Str}, ensures=[
    ("iff-in-view", lambda s: iff(s.result, has(s.self._data, s.key))), ("pure", lambda s: unchanged(s, s.self))])

fn(Memtable, "is_full", ensures=[("iff-threshold", lambda s: iff(s.result, slen(s.self._data) >= s.self._size_threshold)),
                                 ("pure", lambda s: unchanged(s, s.self))])
fn(Memtable, "size", ensures=[("is-len", lambda s: s.result == slen(s.self._data)), ("pure", lambda s: unchanged(s, s.self))])

# generator API: the write is applied *before* the latency (linearisation point = start), the read after it
fn(Memtable, "put", args={"key": Str, "value": VAL},
   yields=Yields(at_yield=[
       ("written-before-the-latency", lambda s, y: is_update(s.self._data, s.old(s.self)._data, s.key, s.value)),
       ("waits-write-latency", lambda s, y: y == s.self._write_latency)]),
   ensures=[("full-iff-threshold-reached", lambda s: iff(s.result, slen(s.self._data) >= s.self._size_threshold)),
            ("no-write-after-the-latency", lambda s: mk_bool(s.self._data.term == s.pre(s.self)._data.term))])

fn(Memtable, "get", args={"key": Str},
   yields=Yields(at_yield=[("pure-before-latency", lambda s, y: unchanged(s, s.self, "_data")),
                           ("waits-read-latency", lambda s, y: y == s.self._read_latency)]),
   ensures=[("returns-view-at-read-instant", lambda s: reads_as(s.result, s.self._data, s.key)),
            ("pure", lambda s: mk_bool(s.self._data.term == s.pre(s.self)._data.term))])

# ============================================================================ B. KVStore
cls(KVStore, fields={"_read_latency": Real, "_write_latency": Real, "_delete_latency": Real, "_capacity": Opt(Int),
                     "_data": DMAP, "_insertion_order": Seq(Str), "_reads": Int, "_writes": Int, "_deletes": Int,
                     "_hits": Int, "_misses": Int, "_evictions": Int},
    const=["_read_latency", "_write_latency", "_delete_latency", "_capacity"])
NO_CAP = ("no-capacity-limit", lambda s: s.self._capacity is None)
# eviction bookkeeping (irrelevant without a capacity limit, but `delete` calls list.remove): a stored key is in
# `_insertion_order`.  put/put_sync establish it for the written key (clause `new-key-tracked`); that removing
# another key keeps it is a fact about list.remove which z3's sequence solver answers `unknown` to, so it is
# assumed where delete needs it (listed).
KEY_TRACKED = ("stored-key-is-in-the-insertion-order", lambda s: implies(
    has(s.self._data, s.key), mk_bool(z3.Contains(seq_term(s.self._insertion_order), z3.Unit(kt(s.key))))))


def _seg_same(s, *fields):
    """the listed dict/seq fields of self are as at the start of the current atomic segment"""
    return all_of(*[mk_bool(getattr(s.self, f).term == getattr(s.pre(s.self), f).term) for f in fields])


fn(KVStore, "get_sync", args={"key": Str}, ensures=[
    ("returns-view", lambda s: reads_as(s.result, s.self._data, s.key)), ("pure", lambda s: unchanged(s, s.self))])
fn(KVStore, "put_sync", args={"key": Str, "value": VAL}, requires=[NO_CAP], ensures=[
    ("view-updated", lambda s: is_update(s.self._data, s.old(s.self)._data, s.key, s.value)),
    ("new-key-tracked", lambda s: implies(Not(has(s.old(s.self)._data, s.key)), KEY_TRACKED[1](s))),
    ("never-evicts", lambda s: unchanged(s, s.self, "_evictions"))])
fn(KVStore, "delete_sync", args={"key": Str}, requires=[KEY_TRACKED], ensures=[
    ("view-key-removed", lambda s: is_removal(s.self._data, s.old(s.self)._data, s.key)),
    ("result-iff-was-present", lambda s: iff(s.result, has(s.old(s.self)._data, s.key)))])
fn(KVStore, "contains", args={"key": Str}, ensures=[
    ("iff-in-view", lambda s: iff(s.result, has(s.self._data, s.key))), ("pure", lambda s: unchanged(s, s.self))])

# generator API: wait the latency, then ONE atomic effect on the state found after the wait
fn(KVStore, "get", args={"key": Str},
   yields=Yields(at_yield=[("pure-before-latency", lambda s, y: unchanged(s, s.self, "_data", "_insertion_order")),
                           ("waits-read-latency", lambda s, y: y == s.self._read_latency)]),
   ensures=[("returns-view-at-read-instant", lambda s: reads_as(s.result, s.self._data, s.key)),
            ("pure", lambda s: _seg_same(s, "_data", "_insertion_order"))])
fn(KVStore, "put", args={"key": Str, "value": VAL}, requires=[NO_CAP],
   yields=Yields(at_yield=[("pure-before-latency", lambda s, y: unchanged(s, s.self, "_data", "_insertion_order")),
                           ("waits-write-latency", lambda s, y: y == s.self._write_latency)]),
   ensures=[("view-updated-atomically-after-latency", lambda s: is_update(s.self._data, s.pre(s.self)._data, s.key, s.value)),
            ("new-key-tracked", lambda s: implies(Not(has(s.pre(s.self)._data, s.key)), KEY_TRACKED[1](s))),
            ("never-evicts", lambda s: s.self._evictions == s.pre(s.self)._evictions)])
fn(KVStore, "delete", args={"key": Str},
   yields=Yields(rely=[lambda s, b, y: KEY_TRACKED[1](s)],
at_yield=[("pure-before-latency", lambda s, y: unchanged(s, s.self, "_data", "_insertion_order")),
                           ("waits-delete-latency", lambda s, y: y == s.self._delete_latency)]),
   ensures=[("view-key-removed-atomically-after-latency", lambda s: is_removal(s.self._data, s.pre(s.self)._data, s.key)),
            ("result-iff-was-present", lambda s: iff(s.result, has(s.pre(s.self)._data, s.key)))])
fn(KVStore, "_evict_oldest",
   requires=[("oldest-key-is-stored", lambda s: (slen(s.self._insertion_order) == 0) | mk_bool(
       z3.Select(sdom(s.self._data), seq_term(s.self._insertion_order)[0])))],
   ensures=[
    ("empty-order-evicts-nothing", lambda s: implies(slen(s.old(s.self)._insertion_order) == 0, unchanged(s, s.self))),
    ("evicts-exactly-the-oldest", lambda s: implies(slen(s.old(s.self)._insertion_order) > 0, _evicted_oldest(s)))])


def _evicted_oldest(s):
    o = s.old(s.self)
    k0 = seq_term(o._insertion_order)[0]
    d1, d0 = s.self._data, o._data
    return (mk_bool(z3.Not(z3.Select(sdom(d1), k0)))
            & forall(Str, lambda j: implies(mk_bool(kt(j) != k0), same_entry(d1, d0, j)))
            & (s.self._evictions == o._evictions + 1)
            & mk_bool(z3.Concat(z3.Unit(k0), seq_term(s.self._insertion_order)) == seq_term(o._insertion_order)))


# ============================================================================ E. transactions
import happysimulator.components.storage.transaction_manager as _tm_mod  # noqa: E402
from happysimulator.components.storage.transaction_manager import (  # noqa: E402
    StorageTransaction, TransactionManager, IsolationLevel, StorageEngine, _CommitLogEntry)


class EnumTy(Ty):
    """a Python Enum stored in a field: the index of the member (after specs/C11.py)"""

    def __init__(self, enum):
        self.enum, self.members = enum, list(enum)
        self.name = f"Enum({enum.__name__})"

    def sort(self):
        return z3.IntSort()

    def _rng(self, term):
        return z3.And(term >= 0, term < len(self.members))

    def wrap(self, term, loc=None):
        term = z3.simplify(term)
        if z3.is_int_value(term):
            return self.members[term.as_long()]
        c = _ctx.cur()
        c.assume(self._rng(term))
        return self.members[c.choose([term == i for i in range(len(self.members))], site="enum:" + self.name)]

    def unwrap(self, v):
        if isinstance(v, self.enum):
            return z3.IntVal(self.members.index(v))
        raise OutOfReach(f"{type(v).__name__} stored where {self.name} is declared")

    def assume_wf(self, term):
        _ctx.cur().assume(self._rng(term))

    def concretize(self, model, term):
        v = model.eval(term, model_completion=True).as_long()
        return self.members[v].name if 0 <= v < len(self.members) else v


ISO = EnumTy(IsolationLevel)
ISO_RC = ISO.unwrap(IsolationLevel.READ_COMMITTED)
ISO_SI = ISO.unwrap(IsolationLevel.SNAPSHOT_ISOLATION)
ISO_SER = ISO.unwrap(IsolationLevel.SERIALIZABLE)
ENTRY = valueclass("CommitLogEntry", [_CommitLogEntry],
                   [("tx_id", Int), ("version", Int), ("keys_written", SSET), ("keys_read", SSET)])


def _frozenset(x=()):
    """frozenset(symbolic set / dict keys): an immutable snapshot (spec-local shim of the builtin)"""
    if isinstance(x, SymSet):
        return x.copy()
    if isinstance(x, SymDict):
        return x.keyset()
    return frozenset(x)


_tm_mod.frozenset = _frozenset

# ---- the StorageEngine protocol: map view `g_map`; put_sync / get as proved for KVStore in part B
cls(StorageEngine, ghost={"g_map": WMAP})
stub_of(StorageEngine, "put_sync", modifies=["g_map"], ensures=[
    lambda s: is_update(s.self.g_map, s.old(s.self).g_map, s.key, s.value)]).returns_none_ok = True
SE_GET = stub_of(StorageEngine, "get", returns=Opt(VAL), modifies=[], ensures=[
    lambda s: reads_as(s.result, s.self.g_map, s.key)])
SE_GET.stub_yield = lambda s: 0.001
STORE_API = [(StorageEngine, "put_sync"), (StorageEngine, "get")]

cls(StorageTransaction, fields={"_tx_id": Int, "_manager": Ref(TransactionManager), "_isolation": ISO,
                                "_snapshot_version": Int, "_start_time_s": Real, "_read_set": SSET,
                                "_write_set": WMAP, "_committed": Bool, "_aborted": Bool},
    const=["_tx_id", "_manager", "_isolation", "_snapshot_version"])
cls(TransactionManager, fields={"_store": Ref(StorageEngine), "_default_isolation": ISO, "_deadlock_detection": Bool,
                                "_next_tx_id": Int, "_version": Int, "_commit_log": Seq(ENTRY),
                                "_active_txns": Map(Int, Ref(StorageTransaction)),
                                "_total_started": Int, "_total_committed": Int, "_total_aborted": Int,
                                "_total_conflicts": Int, "_total_deadlocks": Int, "_total_reads": Int,
                                "_total_writes": Int, "_total_duration_s": Real},
    const=["_store", "_default_isolation", "_deadlock_detection"],
    inv=[("log-versions-at-most-current", lambda o: forall(Int, lambda j: implies(
            (0 <= j) & (j < slen(o._commit_log)),
            mk_bool(ENTRY.dt.version(seq_term(o._commit_log)[j.t]) <= num(o._version)))))],
    guarantee=[("version-never-decreases", lambda old, new: new._version >= old._version)])


def has_conflict_spec(mgr, tx):
    """functional spec of TransactionManager._check_conflict(tx) on the state of `mgr`: some entry conflicts"""
    log = seq_term(mgr._commit_log)
    return mk_bool(_iso_term(tx) != ISO_RC) & exists(Int, lambda j: (0 <= j) & mk_bool(j.t < z3.Length(log))
                                                     & entry_conflicts(log[j.t], tx, _iso_term(tx), ISO_SER))


def no_conflict_spec(mgr, tx):
    """the negation of has_conflict_spec, kept as a top-level forall (skolemised / instantiated by the engine)"""
    log = seq_term(mgr._commit_log)
    return mk_bool(_iso_term(tx) == ISO_RC) | forall(Int, lambda j: implies(
        (0 <= j) & mk_bool(j.t < z3.Length(log)), Not(entry_conflicts(log[j.t], tx, _iso_term(tx), ISO_SER))))


CHECK_CONFLICT = fn(TransactionManager, "_check_conflict", args={"tx": Ref(StorageTransaction)}, returns=Bool, modifies=[],
                    ensures=[
    ("true-only-with-a-conflicting-entry", lambda s: implies(s.result, has_conflict_spec(s.self, s.tx))),
    ("false-only-without-any", lambda s: implies(Not(s.result), no_conflict_spec(s.self, s.tx))),
    ("pure", lambda s: unchanged(s, s.self) & unchanged(s, s.tx))])


def _fresh_tx(s, tx):
    o = s.old(s.self)
    return ((tx._tx_id == o._next_tx_id) & (tx._snapshot_version == o._version) & same(tx._manager, s.self)
            & Not(tx._committed) & Not(tx._aborted)
            & mk_bool(sdom(tx._read_set) == EMPTY_S) & mk_bool(sdom(tx._write_set) == EMPTY_S)
            & mk_bool(field_term(tx, "_isolation") == (field_term(s.self, "_default_isolation")
                                                       if s.isolation is None else ISO.unwrap(s.isolation))))


def _registered(s, tx):
    o = s.old(s.self)
    a = s.self._active_txns
    return (mk_bool(z3.Select(a._ty.dt.dom(a.term), num(o._next_tx_id)))
            & mk_bool(z3.Select(a._ty.dt.val(a.term), num(o._next_tx_id)) == tx._ref)
            & (s.self._next_tx_id == o._next_tx_id + 1) & (s.self._version == o._version))


fn(TransactionManager, "begin_sync", args={"isolation": Opt(ISO)}, ensures=[
    ("snapshot-is-the-current-version-and-sets-empty", lambda s: _fresh_tx(s, s.result)),
    ("registered-with-a-fresh-id", lambda s: _registered(s, s.result)),
    ("store-and-log-untouched", lambda s: unchanged(s, s.self, "_commit_log", "_store"))])

fn(TransactionManager, "begin", args={"isolation": Opt(ISO)},
   yields=Yields(at_yield=[
       ("registered-with-a-fresh-id-before-the-latency", lambda s, y: _begin_at_yield(s))]),
   ensures=[("returns-the-transaction-it-registered", lambda s: s.result._tx_id == s.old(s.self)._next_tx_id)])


def _begin_at_yield(s):
    a = s.self._active_txns
    o = s.old(s.self)
    tx = ObjProxy(z3.Select(a._ty.dt.val(a.term), num(o._next_tx_id)), StorageTransaction)
    return _registered(s, tx) & _fresh_tx(s, tx)


def _active(tx):
    return Not(tx._committed) & Not(tx._aborted)


TX_FOCUS = lambda s: [s.self._manager, s.self._manager._store]  # noqa: E731

fn(StorageTransaction, "write", args={"key": Str, "value": VAL}, focus=TX_FOCUS,
   yields=Yields(at_yield=[
       ("buffered-in-the-write-set-only", lambda s, y: is_update(s.self._write_set, s.old(s.self)._write_set, s.key, s.value)
        & mk_bool(s.self._manager._store.g_map.term == s.old(s.self._manager._store).g_map.term))]),
   ensures=[],
   raises={RuntimeError: [("only-when-finished", lambda s: Not(_active(s.old(s.self)))),
                          ("frame", lambda s: unchanged(s, s.self))]})


def _read_post(s):
    ws0 = s.old(s.self)._write_set
    own = has(ws0, s.key)
    store_now = s.self._manager._store.g_map
    if s.result is None:
        return Not(own) & Not(has(store_now, s.key))
    return ite_b(own, mk_bool(s.result.t == mval(ws0, s.key)),
                 has(store_now, s.key) & mk_bool(s.result.t == mval(store_now, s.key)))


def ite_b(c, a, b):
    return implies(c, a) & implies(Not(c), b)


fn(StorageTransaction, "read", args={"key": Str}, focus=TX_FOCUS, uses=STORE_API,
   yields=Yields(at_yield=[("key-recorded-in-the-read-set-before-the-store-read", lambda s, y: mk_bool(
       z3.Select(sdom(s.self._read_set), kt(s.key))))],
       stable=[("StorageTransaction", "_write_set")]),
   ensures=[("own-write-else-the-store-value-at-the-read-instant", _read_post)],
   raises={RuntimeError: [("only-when-finished", lambda s: Not(_active(s.old(s.self)))),
                          ("frame", lambda s: unchanged(s, s.self))]})


def _commit_applied(s):
    """(at the single yield of a successful commit) validation, application of the write set, version bump and
    log append all happened since entry, i.e. in ONE atomic segment"""
    me, m0 = s.self, s.old(s.self._manager)
    m1 = s.self._manager
    st0, st1 = s.old(s.self._manager._store).g_map, s.self._manager._store.g_map
    ws = me._write_set
    log0, log1 = seq_term(m0._commit_log), seq_term(m1._commit_log)
    d = ENTRY.dt
    last = log1[z3.Length(log1) - 1]
    return QAll(
        ("validated-against-the-entry-state", no_conflict_spec(m0, s.old(me))),
        ("write-set-applied", forall(Str, lambda k: ite_b(
            has(ws, k), has(st1, k) & mk_bool(mval(st1, k) == mval(ws, k)), same_entry(st1, st0, k)))),
        ("version-strictly-increases", m1._version == m0._version + 1),
        ("log-appended", mk_bool(z3.And(
            z3.Length(log1) == z3.Length(log0) + 1, z3.Extract(log1, 0, z3.Length(log0)) == log0,
            d.tx_id(last) == num(me._tx_id), d.version(last) == num(m1._version),
            SSET.dt.dom(d.keys_written(last)) == sdom(ws), SSET.dt.dom(d.keys_read(last)) == sdom(me._read_set)))),
        ("marked-committed", me._committed & Not(me._aborted)))


def QAll(*named):
    return named


def _commit_yield_clauses():
    names = ["validated-against-the-entry-state", "write-set-applied", "version-strictly-increases", "log-appended",
             "marked-committed"]
    return [(n, (lambda s, y, i=i: _commit_applied(s)[i][1])) for i, n in enumerate(names)]


def _snapshot_reads_stable(s):
    """a transaction above READ_COMMITTED that commits has read no key that another transaction committed a write
    to after its snapshot: with reads served by the live store this is exactly `every read returned the value of
    the snapshot (or the transaction's own write)` - the statement's snapshot-read clause"""
    me, m0 = s.old(s.self), s.old(s.self._manager)
    log = seq_term(m0._commit_log)
    d = ENTRY.dt
    if me._isolation is IsolationLevel.READ_COMMITTED:        # (forks on the level: three simpler goals)
        return True
    return implies(mk_bool(_iso_term(me) != ISO_RC), forall(Int, lambda j: forall(Str, lambda k: implies(
        (0 <= j) & mk_bool(j.t < z3.Length(log))
        & mk_bool(z3.And(d.version(log[j.t]) > num(me._snapshot_version), d.tx_id(log[j.t]) != num(me._tx_id)))
        & has(me._read_set, k),
        mk_bool(z3.Not(z3.Select(SSET.dt.dom(d.keys_written(log[j.t])), kt(k))))))))


fn(StorageTransaction, "commit", focus=TX_FOCUS, uses=[(StorageEngine, "put_sync"), (TransactionManager, "_check_conflict")],
   yields=Yields(at_yield=[
       ("committed-transaction-read-from-its-snapshot", lambda s, y: _snapshot_reads_stable(s))]
       + _commit_yield_clauses()),
   ensures=[
    ("aborts-only-when-validation-fails", lambda s: implies(Not(s.result), has_conflict_spec(s.old(s.self._manager), s.old(s.self)))),
    ("abort-leaves-store-version-and-log-untouched", lambda s: implies(Not(s.result), all_of(
        mk_bool(s.self._manager._store.g_map.term == s.old(s.self._manager._store).g_map.term),
        s.self._manager._version == s.old(s.self._manager)._version,
        mk_bool(seq_term(s.self._manager._commit_log) == seq_term(s.old(s.self._manager)._commit_log)),
        s.self._aborted & Not(s.self._committed))))],
   raises={RuntimeError: [("only-when-finished", lambda s: Not(_active(s.old(s.self)))),
                          ("frame", lambda s: unchanged(s, s.self))]})

fn(StorageTransaction, "abort", focus=TX_FOCUS, ensures=[
    ("never-committed-by-abort", lambda s: iff(s.self._committed, s.old(s.self)._committed)),
    ("finished", lambda s: s.self._committed | s.self._aborted),
    ("store-version-and-log-untouched", lambda s: all_of(
        mk_bool(s.self._manager._store.g_map.term == s.old(s.self._manager._store).g_map.term),
        s.self._manager._version == s.old(s.self._manager)._version,
        mk_bool(seq_term(s.self._manager._commit_log) == seq_term(s.old(s.self._manager)._commit_log))))])


def _occ_lemma():
    """backward validation => serial order by commit version (induction step of the classical OCC argument):
    T validated against U (committed after T's snapshot, before T): U wrote nothing T read.  Then every read
    of T, whenever it ran between the snapshot and T's commit, returned what it returns in the state right
    before T's commit - T is equivalent to running entirely at its commit point, after U."""
    A = z3.ArraySort(z3.StringSort(), T.Any.sort())
    S = z3.ArraySort(z3.StringSort(), z3.BoolSort())
    s0, wu = z3.Const("occ_s0", A), z3.Const("occ_wu", A)
    dom_wu, rs_t = z3.Const("occ_dom_wu", S), z3.Const("occ_rs_t", S)
    k = z3.Const("occ_k", z3.StringSort())
    s1 = z3.Lambda([k], z3.If(z3.Select(dom_wu, k), z3.Select(wu, k), z3.Select(s0, k)))      # s0 (+) U's writes
    assume(mk_bool(z3.SetIntersect(rs_t, dom_wu) == EMPTY_S))                                  # validation (rw)
    kk = z3.Const("occ_kk", z3.StringSort())
    oblige("reads-of-T-unaffected-by-U", mk_bool(z3.Implies(z3.Select(rs_t, kk), z3.Select(s1, kk) == z3.Select(s0, kk))))
    # (ww) disjoint write sets commute: the final state does not depend on the order of U and T
    wt, dom_wt = z3.Const("occ_wt", A), z3.Const("occ_dom_wt", S)
    assume(mk_bool(z3.SetIntersect(dom_wt, dom_wu) == EMPTY_S))

    def ap(st, dom, w):
        return z3.Lambda([k], z3.If(z3.Select(dom, k), z3.Select(w, k), z3.Select(st, k)))
    oblige("disjoint-writes-commute", mk_bool(z3.Select(ap(ap(s0, dom_wu, wu), dom_wt, wt), kk)
                                               == z3.Select(ap(ap(s0, dom_wt, wt), dom_wu, wu), kk)))


lemma("occ-backward-validation-step", _occ_lemma)


# ============================================================================ D. LSM tree
import happysimulator.components.storage.lsm_tree as _lsm_mod  # noqa: E402
from happysimulator.components.storage.sstable import SSTable  # noqa: E402
from happysimulator.components.storage.lsm_tree import (  # noqa: E402
    LSMTree, CompactionStrategy, SizeTieredCompaction, LeveledCompaction, FIFOCompaction, _TOMBSTONE)
from happysimulator.components.storage.wal import WriteAheadLog  # noqa: E402
from pyvc.heap import same as _same  # noqa: E402
import os as _os  # noqa: E402

_K["Memtable"], _K["SSTable"] = Memtable, SSTable
TOMB = T.Any.unwrap(_TOMBSTONE)          # the private sentinel: one opaque constant


def _is(a, b):
    """`a is b` where one side is the module's private sentinel object and the other an opaque symbolic value:
    compare with the sentinel's constant (the engine's identity shim only relates two symbolic values)"""
    if isinstance(a, T.SymAny) and b is _TOMBSTONE:
        return mk_bool(a.t == TOMB)
    if isinstance(b, T.SymAny) and a is _TOMBSTONE:
        return mk_bool(b.t == TOMB)
    return _same(a, b)


def _is_not(a, b):
    return Not(_is(a, b))


def _reversed(x):
    """reversed(list of symbolic length): a fresh sequence with rev[j] == x[n-1-j] (spec-local shim of the builtin)"""
    if not isinstance(x, SymList) or z3.is_int_value(z3.simplify(x._len())):
        return reversed(x)
    c = _ctx.cur()
    src = x.term
    n = z3.Length(src)
    rev = c.fresh("rev", src.sort())
    c.assume(z3.Length(rev) == n)
    c.assume_value(forall(Int, lambda j: implies(in_rng(j, n), mk_bool(rev[j.t] == src[n - 1 - j.t])), "rj"))
    return SymList(Box(rev), x._elem)


_lsm_mod._pyvc_is, _lsm_mod._pyvc_is_not, _lsm_mod.reversed = _is, _is_not, _reversed
_lsm_mod._c14_hit = _c14_hit


class _NewSST:
    """return type of the Memtable.flush stub: a freshly allocated SSTable"""
    name = "new SSTable"

    def fresh(self, base):
        return new_object(SSTable)


SST_ROWS = Seq(Tuple(Str, VAL))
ROW = SST_ROWS.elem
POSMAP = Map(Str, Int)
from happysimulator.sketching.bloom_filter import BloomFilter  # noqa: E402
import happysimulator.components.storage.sstable as _sst_mod  # noqa: E402

cls(BloomFilter, ghost={"g_items": SSET})


def _sst_terms(o):
    return (seq_term(o._keys), seq_term(o._values), seq_term(o._data), seq_term(o._index_keys),
            seq_term(o._index_positions))


def _pos(o, k):
    """ghost witness: the row index of key k (meaningful where k is in the view)"""
    return z3.Select(POSMAP.dt.val(o.g_pos.term), kt(k))


def _inv_aligned(o):
    K, V, D, IK, IP = _sst_terms(o)
    n = z3.Length(K)
    return mk_bool(z3.And(z3.Length(V) == n, z3.Length(D) == n)) & forall(Int, lambda j: implies(
        in_rng(j, n), mk_bool(z3.And(ROW.acc(0)(D[j.t]) == K[j.t], ROW.acc(1)(D[j.t]) == V[j.t]))), "j")


def _inv_sorted(o):
    K = seq_term(o._keys)
    return forall(Int, lambda i: forall(Int, lambda j: implies(
        mk_bool(z3.And(0 <= i.t, i.t < j.t, j.t < z3.Length(K))), mk_bool(K[i.t] < K[j.t])), "j"), "i")


def _inv_view_rows(o):
    K, V, D, IK, IP = _sst_terms(o)
    return forall(Int, lambda j: implies(in_rng(j, z3.Length(K)), mk_bool(z3.And(
        z3.Select(sdom(o.g_view), K[j.t]), z3.Select(WMAP.dt.val(o.g_view.term), K[j.t]) == V[j.t]))), "j")


def _inv_view_complete(o):
    K = seq_term(o._keys)
    return forall(Str, lambda k: implies(has(o.g_view, k), mk_bool(z3.And(
        0 <= _pos(o, k), _pos(o, k) < z3.Length(K), K[_pos(o, k)] == kt(k)))), "k")


def _inv_index(o):
    K, V, D, IK, IP = _sst_terms(o)
    n, m = z3.Length(K), z3.Length(IP)
    return (mk_bool(z3.And(z3.Length(IK) == m, z3.Implies(n > 0, z3.And(m > 0, IP[0] == 0))))
            & forall(Int, lambda a: implies(in_rng(a, m), mk_bool(z3.And(
                0 <= IP[a.t], IP[a.t] < n, IK[a.t] == K[IP[a.t]]))), "a")
            & forall(Int, lambda a: forall(Int, lambda b: implies(
                mk_bool(z3.And(0 <= a.t, a.t < b.t, b.t < m)), mk_bool(IP[a.t] < IP[b.t])), "b"), "a"))


def _inv_bloom(o):
    return forall(Str, lambda k: implies(has(o.g_view, k), has(o._bloom.g_items, k)), "k")


cls(SSTable, fields={"_data": SST_ROWS, "_keys": Seq(Str), "_values": Seq(VAL), "_level": Int, "_sequence": Int,
                     "_index_interval": Int, "_index_keys": Seq(Str), "_index_positions": Seq(Int),
                     "_bloom": Ref(BloomFilter), "_size_bytes": Int},
    ghost={"g_view": WMAP, "g_pos": POSMAP},
    const=["_data", "_keys", "_values", "_level", "_sequence", "_index_interval", "_index_keys", "_index_positions",
           "_bloom", "_size_bytes", "g_view", "g_pos"],
    )
# the class invariant of an SSTable, handed to each method as preconditions - each method only the parts it needs
# (string order under nested quantifiers is expensive for the solver)
_I = {"aligned": ("rows-keys-values-aligned", lambda s: _inv_aligned(s.self)),
      "sorted": ("keys-strictly-increasing", lambda s: _inv_sorted(s.self)),
      "rows": ("view-holds-every-row", lambda s: _inv_view_rows(s.self)),
      "complete": ("view-holds-only-rows", lambda s: _inv_view_complete(s.self)),
      "index": ("sparse-index-points-into-the-keys", lambda s: _inv_index(s.self)),
      "bloom": ("bloom-filter-holds-every-key", lambda s: _inv_bloom(s.self))}


# ---- part C: SSTable reads against the view (class invariant assumed: the constructor is not under contract)
class _C14Bisect:
    """trusted contract of bisect.bisect_left / bisect_right on a list of str of symbolic length: precondition
    (checked at the call: named obligations) 0 <= lo <= hi <= len(a) and a[lo:hi] in non-decreasing order; the result r
    has lo <= r <= hi, everything in a[lo:r] is < x (right: <= x), everything in a[r:hi] is >= x (right: > x)"""

    def _run(self, right, a, x, lo=0, hi=None):
        import bisect as _b
        if not isinstance(a, SymList):
            f = _b.bisect_right if right else _b.bisect_left
            return f(a, x, lo, len(a) if hi is None else hi)
        c = _ctx.cur()
        src, n = a.term, z3.Length(a.term)
        lo_t, hi_t, xt = num(lo), (n if hi is None else num(hi)), kt(x)
        oblige("bisect/bounds-within-the-list", mk_bool(z3.And(0 <= lo_t, lo_t <= hi_t, hi_t <= n)), kind="post")
        oblige("bisect/slice-is-sorted", forall(Int, lambda i: forall(Int, lambda j: implies(
            mk_bool(z3.And(lo_t <= i.t, i.t < j.t, j.t < hi_t)), mk_bool(src[i.t] <= src[j.t])), "bj"), "bi"), kind="post")
        r = c.fresh("bisect", z3.IntSort())
        c.assume(z3.And(lo_t <= r, r <= hi_t))
        c.note_term(r)
        c.note_term(r - 1)
        c.assume_value(forall(Int, lambda j: implies(mk_bool(z3.And(lo_t <= j.t, j.t < r)), mk_bool(
            (src[j.t] <= xt) if right else (src[j.t] < xt))), "bl"))
        c.assume_value(forall(Int, lambda j: implies(mk_bool(z3.And(r <= j.t, j.t < hi_t)), mk_bool(
            (src[j.t] > xt) if right else (src[j.t] >= xt))), "br"))
        return mk_num(r)

    def bisect_left(self, a, x, lo=0, hi=None):
        return self._run(False, a, x, lo, hi)

    def bisect_right(self, a, x, lo=0, hi=None):
        return self._run(True, a, x, lo, hi)


_sst_mod.bisect = _C14Bisect()
stub_of(BloomFilter, "contains", returns=Bool, modifies=[], ensures=[
    lambda s: implies(has(s.self.g_items, s.item), s.result)])            # no false negatives (property C20)

# NOT part of the registered check (C14_SSTABLE_DEEP=1 ./check C14 --only SSTable): z3 needs 150-220 s for `get`
# (PROVED, with the block contract of _index_range_for used modularly), and does not decide `_index_range_for` itself
# nor `runs-that-do-not-overlap-share-no-key` within the task budget (string order under nested quantifiers).
_SST_DEEP = bool(_os.environ.get("C14_SSTABLE_DEEP"))
if _SST_DEEP:
    SST_RANGE = fn(SSTable, "_index_range_for", args={"key": Str}, returns=Tuple(Int, Int), modifies=[],
                   requires=[_I["sorted"], _I["index"], _I["complete"]], ensures=[
        ("a-range-of-the-keys", lambda s: (0 <= s.result[0]) & (s.result[0] <= s.result[1])
         & (s.result[1] <= slen(s.self._keys))),
        ("the-block-that-would-hold-the-key", lambda s: implies(has(s.self.g_view, s.key), mk_bool(z3.And(
            num(s.result[0]) <= _pos(s.self, s.key), _pos(s.self, s.key) < num(s.result[1])))))])
    fn(SSTable, "get", args={"key": Str}, uses=[(BloomFilter, "contains"), (SSTable, "_index_range_for")],
       requires=[_I["aligned"], _I["sorted"], _I["rows"], _I["complete"], _I["index"], _I["bloom"]], ensures=[
        ("returns-the-view", lambda s: reads_as(s.result, s.self.g_view, s.key))])
fn(SSTable, "contains", args={"key": Str}, uses=[(BloomFilter, "contains")], requires=[_I["bloom"]], ensures=[
    ("no-false-negative", lambda s: implies(has(s.self.g_view, s.key), s.result))])
fn(SSTable, "overlaps", args={"other": Ref(SSTable)},
   requires=[_I["sorted"], _I["complete"], ("other/keys-strictly-increasing", lambda s: _inv_sorted(s.other)),
             ("other/view-holds-only-rows", lambda s: _inv_view_complete(s.other))] if _SST_DEEP else [], ensures=([
    ("runs-that-do-not-overlap-share-no-key", lambda s: s.result | forall(Str, lambda k: Not(
        has(s.self.g_view, k) & has(s.other.g_view, k)), "k"))] if _SST_DEEP else []) + [
    ("true-iff-the-first-and-last-keys-interleave", lambda s: iff(s.result, _ranges_intersect(s.self, s.other))),
    ("pure", lambda s: unchanged(s, s.self) & unchanged(s, s.other))])


def _ranges_intersect(a, b):
    Ka, Kb = seq_term(a._keys), seq_term(b._keys)
    na, nb = z3.Length(Ka), z3.Length(Kb)
    return mk_bool(z3.And(na > 0, nb > 0, Ka[0] <= Kb[nb - 1], Kb[0] <= Ka[na - 1]))
cls(WriteAheadLog, fields={"_next_sequence": Int})
cls(CompactionStrategy)
cls(LSMTree, fields={"_compaction_strategy": Ref(CompactionStrategy), "_wal": OptRef(WriteAheadLog), "_disk": Any,
                     "_sstable_read_latency": Real, "_sstable_write_latency": Real, "_max_levels": Int,
                     "_memtable": Ref(Memtable), "_immutable_memtables": Seq(Ref(Memtable)),
                     "_levels": Seq(Seq(Ref(SSTable))), "_logical_data": WMAP,
                     "_user_bytes_written": Int, "_sstable_bytes_written": Int, "_total_writes": Int,
                     "_total_reads": Int, "_total_read_hits": Int, "_total_read_misses": Int,
                     "_total_wal_writes": Int, "_total_memtable_flushes": Int, "_total_compactions": Int,
                     "_total_sstables_checked": Int, "_total_bloom_saves": Int},
    const=["_compaction_strategy", "_wal", "_disk", "_sstable_read_latency", "_sstable_write_latency", "_max_levels"],
    inv=[("has-level-0", lambda o: (o._max_levels >= 1) & (slen(o._levels) == o._max_levels))])

# ---- assumed contracts of the parts below the tree (SSTable internals: part C; Bloom filter: C20; WAL: C15)
stub_of(SSTable, "contains", returns=Bool, modifies=[], ensures=[
    lambda s: implies(has(s.self.g_view, s.key), s.result)])             # Bloom filter: no false negatives
stub_of(SSTable, "get", returns=Opt(VAL), modifies=[], ensures=[lambda s: reads_as(s.result, s.self.g_view, s.key)])
stub_of(Memtable, "flush", returns=_NewSST(), modifies=["_data", "_sequence", "_total_flushes"], ensures=[
    lambda s: same_map(s.result.g_view, s.old(s.self)._data),
    lambda s: mk_bool(sdom(s.self._data) == EMPTY_S) & (slen(s.self._data) == 0),
    lambda s: (slen(s.result._data) == slen(s.old(s.self)._data)) & (s.result._size_bytes == 64 * slen(s.result._data))])
stub_of(Memtable, "__init__", ensures=[
    lambda s: mk_bool(sdom(s.self._data) == EMPTY_S) & (slen(s.self._data) == 0),
    lambda s: s.self._size_threshold == s.size_threshold])
stub_of(CompactionStrategy, "should_compact", returns=Bool, modifies=[], ensures=[])
stub_of(WriteAheadLog, "append_sync", returns=Int, modifies=["_next_sequence"], ensures=[])
stub_of(WriteAheadLog, "truncate", modifies=[], ensures=[]).returns_none_ok = True
WAL_APPEND = stub_of(WriteAheadLog, "append", returns=Int, modifies=["_next_sequence"], ensures=[])
WAL_APPEND.stub_yield = lambda s: 0.0001
SST_API = [(SSTable, "contains"), (SSTable, "get")]


def decode_is(result, vterm):
    """`result` is the user-visible reading of the stored value `vterm`: None for a tombstone, else the value"""
    if result is None:
        return mk_bool(vterm == TOMB)
    return mk_bool(z3.And(vterm != TOMB, result.t == vterm))


def lookup_is(t, k, result):
    """`result` is what the layered view  memtable > newest immutable memtable > .. > L0 newest run > .. > L1 ..
    gives for key k (a tombstone reads as None): the first component in that order that holds k decides"""
    mt = t._memtable._data
    imm = seq_term(t._immutable_memtables)
    lv = seq_term(t._levels)
    a = has(mt, k)
    no_imm = forall(Int, lambda j: implies(in_rng(j, z3.Length(imm)), Not(imm_has(imm, j.t, k))), "j")
    no_sst = forall(Int, lambda l: implies(in_rng(l, z3.Length(lv)), level_misses(lv, l.t, k)), "l")

    def first_imm(j):
        return (in_rng(j, z3.Length(imm)) & imm_has(imm, j.t, k)
                & forall(Int, lambda j2: implies(in_rng(j2, z3.Length(imm)) & (j2 > j), Not(imm_has(imm, j2.t, k))), "j2")
                & decode_is(result, raw_val(DMAP, mt_data(imm[j.t]), k)))

    def first_sst(l, i):
        run = lv[l.t]
        return (in_rng(l, z3.Length(lv)) & in_rng(i, z3.Length(run)) & sst_has(run[i.t], k)
                & forall(Int, lambda i2: implies(in_rng(i2, z3.Length(run)) & (i2 > i), Not(sst_has(run[i2.t], k))), "i2")
                & forall(Int, lambda l2: implies((0 <= l2) & (l2 < l), level_misses(lv, l2.t, k)), "l2")
                & decode_is(result, raw_val(WMAP, sst_view(run[i.t]), k)))
    # The clause is
    #     found := (a & decode(mt[k])) | (~a & EXISTS j. first_imm(j)) | (~a & no_imm & EXISTS l,i. first_sst(l,i))
    #     result is None ? found | (~a & no_imm & no_sst) : found
    # The ghost hint recorded at the hit site names the disjunct and the witnesses j / (l, i) (reversed iteration:
    # position p of the loop is index n-1-p of the list), so that what reaches the solver is a conjunction of
    # top-level foralls.
    w = _ctx.cur().ghost_args.get("c14_hit")
    if w is None:
        return (result is None) and (Not(a) & no_imm & no_sst)
    if w[0] == "mt":
        return a & decode_is(result, mval(mt, k))
    if w[0] == "imm":
        _note(num(w[1]), z3.Length(imm) - 1 - num(w[1]))
        return Not(a) & first_imm(mk_num(z3.Length(imm) - 1 - num(w[1])))
    l = mk_num(num(w[1]))
    _note(l.t, num(w[2]), z3.Length(lv[l.t]) - 1 - num(w[2]))
    return Not(a) & no_imm & first_sst(l, mk_num(z3.Length(lv[l.t]) - 1 - num(w[2])))


LSM_FOCUS = lambda s: [s.self._memtable]  # noqa: E731
_FEAS0 = _ctx.FEAS_RLIMIT


def _cheap_feasibility(s):
    """branch-feasibility checks with a small budget: an `unknown` answer keeps the path (sound); the instantiated
    sequence facts of this function make each of the ~80 checks cost seconds at the default budget"""
    _ctx.FEAS_RLIMIT = 200000
    _ctx.cur().solver.set("rlimit", 200000)
    return []


def _restore_feasibility(s):
    _ctx.FEAS_RLIMIT = _FEAS0


fn(LSMTree, "get_sync", args={"key": Str}, uses=SST_API, focus=LSM_FOCUS, setup=_cheap_feasibility,
   teardown=_restore_feasibility, ensures=[
    ("memtable-decides-first", lambda s: implies(has(s.self._memtable._data, s.key),
                                                 decode_is(s.result, mval(s.self._memtable._data, s.key)))),
    ("returns-the-newest-version-in-the-layered-view", lambda s: lookup_is(s.self, s.key, s.result)),
    ("data-untouched", lambda s: unchanged(s, s.self, "_levels", "_immutable_memtables", "_memtable", "_logical_data"))])

# ---- flush: data moves from the memtable to the newest L0 run, never disappears, never changes precedence
_lsm_mod._c14_flush_installed = _c14_flush_installed
_KEEPS_LEVEL_COUNT = lambda s: slen(s.self._levels) == s.self._max_levels  # noqa: E731
COMPACT_SYNC = stub_of(LSMTree, "_compact_sync", modifies=["_levels", "_total_compactions", "_sstable_bytes_written"],
                       ensures=[_KEEPS_LEVEL_COUNT])
COMPACT_SYNC.returns_none_ok = True
COMPACT = stub_of(LSMTree, "_compact", modifies=["_levels", "_total_compactions", "_sstable_bytes_written"],
                  ensures=[_KEEPS_LEVEL_COUNT])
COMPACT.returns_none_ok = True
COMPACT.stub_yield = lambda s: s.self._sstable_write_latency
FLUSH_USES = [(Memtable, "flush"), (Memtable, "__init__"), (CompactionStrategy, "should_compact"),
              (WriteAheadLog, "truncate")]

_NO_FLUSH_NO_CHANGE = ("flush-counted-or-memtable-left-alone", lambda s:
                       (s.self._total_memtable_flushes == s.old(s.self)._total_memtable_flushes + 1)
                       | ((s.self._total_memtable_flushes == s.old(s.self)._total_memtable_flushes)
                          & mk_bool(s.self._memtable._data.term == s.old(s.self._memtable)._data.term)))
fn(LSMTree, "_flush_memtable_sync", focus=LSM_FOCUS, uses=FLUSH_USES + [(LSMTree, "_compact_sync")], ensures=[
    _NO_FLUSH_NO_CHANGE,
    ("memtable-emptied", lambda s: slen(s.self._memtable._data) == 0),
    ("model-and-immutable-memtables-untouched", lambda s: unchanged(s, s.self, "_logical_data", "_immutable_memtables",
                                                                    "_memtable")),
    ("empty-memtable-flushes-nothing", lambda s: implies(slen(s.old(s.self._memtable)._data) == 0,
                                                         unchanged(s, s.self, "_levels", "_total_memtable_flushes")))])


FLUSH_SYNC_AS_STUB = stub_of(LSMTree, "_flush_memtable_sync", modifies=[
    "_levels", "_sstable_bytes_written", "_total_memtable_flushes", "_total_compactions",
    (lambda s: s.self._memtable, "_data"), (lambda s: s.self._memtable, "_sequence"),
    (lambda s: s.self._memtable, "_total_flushes")],
    ensures=[_KEEPS_LEVEL_COUNT, lambda s: _NO_FLUSH_NO_CHANGE[1](s)])
FLUSH_SYNC_AS_STUB.returns_none_ok = True
# (re-register the verified contract under its own key: stub_of above replaced the table entry used by `uses`)
fn(LSMTree, "put_sync", args={"key": Str, "value": VAL}, focus=LSM_FOCUS,
   requires=[("user-values-are-not-the-private-tombstone", lambda s: mk_bool(s.value.t != TOMB))],
   uses=[(WriteAheadLog, "append_sync"), (LSMTree, "_flush_memtable_sync")], ensures=[
    ("model-updated", lambda s: is_update(s.self._logical_data, s.old(s.self)._logical_data, s.key, s.value)),
    ("written-to-the-active-memtable-before-any-flush", lambda s: implies(
        s.self._total_memtable_flushes == s.old(s.self)._total_memtable_flushes,
        is_update(s.self._memtable._data, s.old(s.self._memtable)._data, s.key, s.value))),
    ("older-components-untouched", lambda s: unchanged(s, s.self, "_immutable_memtables", "_memtable"))])


def _flushing_memtable_still_readable(s, y):
    """(at every yield of a flush) the entries of the memtable being flushed are served either by that memtable,
    kept unchanged as the newest immutable memtable, or by the newest run of level 0"""
    m0 = s.old(s.self)._memtable
    entry_data = s.old(m0)._data
    imm = seq_term(s.self._immutable_memtables)
    l0 = seq_term(s.self._levels)[0]
    in_imm = mk_bool(z3.And(z3.Length(imm) > 0, imm[z3.Length(imm) - 1] == m0._ref)) & same_map(
        ObjProxy(m0._ref, Memtable)._data, entry_data)
    in_l0 = mk_bool(z3.Length(l0) > 0) & same_map(
        WMAP.wrap(sst_view(l0[z3.Length(l0) - 1])), entry_data)
    return mk_bool(to_z3_bool(in_imm)) | mk_bool(to_z3_bool(in_l0))


def _stash_segment(s, before, y):
    _ctx.cur().ghost_args["c14_seg"] = _ctx.cur().heap.snapshot()
    return True


fn(LSMTree, "_flush_memtable", focus=LSM_FOCUS, uses=FLUSH_USES + [(LSMTree, "_compact")],
   yields=Yields(
       at_yield=[("flushing-memtable-still-readable", _flushing_memtable_still_readable)],
       # rely: an immutable memtable is written by nobody and leaves the list only through the flush that put it there
       keep=lambda s, y: [s.old(s.self)._memtable],
       rely=[_stash_segment,
             lambda s, b, y: implies(
                 mk_bool(z3.Contains(seq_term(old_view_of(b, s.self)._immutable_memtables),
                                     z3.Unit(s.old(s.self)._memtable._ref))),
                 mk_bool(z3.Contains(seq_term(s.self._immutable_memtables), z3.Unit(s.old(s.self)._memtable._ref))))],
       stable=[("Memtable", "_size_threshold")]),
   ensures=[])


def old_view_of(before_ns, obj):
    from pyvc.heap import old_view
    return old_view(obj, before_ns._seg)


# ============================================================================ H. LSM tree: generator put / delete
# The linearisation point of a write is the write to the ACTIVE memtable (Memtable.put applies it before its latency,
# part A); from then on the layered view gives the new value (get_sync: memtable-decides-first).  Clause at the
# memtable's latency yield: in this atomic segment the then-active memtable received exactly key -> value (delete:
# key -> tombstone) and no other component changed; at exit: that yield was reached (the write happened).
FLUSH_GEN_AS_STUB = stub_of(LSMTree, "_flush_memtable", modifies=[
    "_levels", "_sstable_bytes_written", "_total_memtable_flushes", "_total_compactions", "_immutable_memtables",
    "_memtable"], ensures=[_KEEPS_LEVEL_COUNT])
FLUSH_GEN_AS_STUB.returns_none_ok = True
FLUSH_GEN_AS_STUB.stub_yield = lambda s: s.self._sstable_write_latency


def _at_memtable_latency():
    """the yield just taken is the latency yield of the inlined Memtable.put (innermost generator frame `put`)"""
    sig = _ctx.cur().sig
    return bool(sig) and sig[-1][0] == "yield" and str(sig[-1][1]).startswith("put:")


class _Stored:
    def __init__(self, t):
        self.t = t


def _write_applied(stored):
    def clause(s, y):
        if not _at_memtable_latency():
            return True
        _ctx.cur().ghost_args["c14_written"] = True
        mt = s.self._memtable
        return QAll_and(
            same(mt, s.pre(s.self)._memtable),
            is_update(mt._data, s.pre(mt)._data, s.key, stored(s)),
            mk_bool(seq_term(s.self._levels) == seq_term(s.pre(s.self)._levels)),
            mk_bool(seq_term(s.self._immutable_memtables) == seq_term(s.pre(s.self)._immutable_memtables)),
            y == mt._write_latency)
    return clause


def QAll_and(*xs):
    r = xs[0]
    for x in xs[1:]:
        r = r & x
    return r


def _write_happened(s):
    return bool(_ctx.cur().ghost_args.get("c14_written"))


_GEN_WRITE_USES = [(WriteAheadLog, "append"), (LSMTree, "_flush_memtable")]
fn(LSMTree, "put", args={"key": Str, "value": VAL}, focus=LSM_FOCUS, uses=_GEN_WRITE_USES,
   requires=[("user-values-are-not-the-private-tombstone", lambda s: mk_bool(s.value.t != TOMB))],
   yields=Yields(at_yield=[("value-written-to-the-active-memtable-in-one-step", _write_applied(lambda s: s.value))]),
   ensures=[("the-memtable-write-happened", _write_happened)])
fn(LSMTree, "delete", args={"key": Str}, focus=LSM_FOCUS, uses=_GEN_WRITE_USES,
   yields=Yields(at_yield=[("tombstone-written-to-the-active-memtable-in-one-step", _write_applied(lambda s: _Stored(TOMB)))]),
   ensures=[("the-memtable-write-happened", _write_happened)])


# ============================================================================ G. compaction strategies
# What a compaction needs of EVERY strategy (else a tombstone or a newer version left behind in the source level
# keeps shadowing / is shadowed by the merged run one level down): the selected tables are the WHOLE run list of
# one existing level, in the level's order - or nothing.  Per strategy additionally the documented choice.
class _PowBase:
    """value of LeveledCompaction.size_ratio: `ratio ** i` with a symbolic exponent is an uninterpreted
    function of both operands (the selection contract does not depend on the limit)"""

    def __init__(self, t):
        self.t = t

    def __pow__(self, e):
        f = z3.Function("c14_pow", z3.IntSort(), z3.IntSort(), z3.IntSort())
        return mk_num(f(self.t, num(e)))


class _RatioTy(Ty):
    name = "Int(base of **)"

    def sort(self):
        return z3.IntSort()

    def wrap(self, term, loc=None):
        return _PowBase(term)

    def unwrap(self, v):
        return v.t if isinstance(v, _PowBase) else num(v)

    def assume_wf(self, term):
        pass

    def concretize(self, model, term):
        return model.eval(term, model_completion=True).as_long()


LEVELS = Seq(Seq(Ref(SSTable)))
cls(SizeTieredCompaction, fields={"min_sstables": Int})
cls(LeveledCompaction, fields={"level_0_max": Int, "size_ratio": _RatioTy(), "base_size_keys": Int})
cls(FIFOCompaction, fields={"max_total_sstables": Int})
HAS_L0 = ("the-tree-has-level-0", lambda s: slen(s.levels) >= 1)


def _tabs(s):
    """raw sequence term of the selected tables (`return 0, []` hands back a real empty list)"""
    t = s.result[1]
    return t.term if isinstance(t, SymList) else LEVELS.elem.unwrap(t)


def _whole_level_or_nothing(s):
    lvl, tabs = s.result[0], _tabs(s)
    lv = seq_term(s.levels)
    return mk_bool(z3.Length(tabs) == 0) | ((0 <= lvl) & (lvl < slen(s.levels)) & _same_seq(tabs, lv[num(lvl)]))


def _same_seq(a, b):
    """a == b for two raw sequence terms, stated pointwise (a refutation then comes with a model: the sequence
    solver answers `unknown` to most falsifiable sequence equalities)"""
    return mk_bool(z3.Length(a) == z3.Length(b)) & forall(Int, lambda j: implies(
        (0 <= j) & mk_bool(j.t < z3.Length(a)), mk_bool(a[j.t] == b[j.t])), "sj")


def _level_in_range(s):
    return (0 <= s.result[0]) & (s.result[0] < slen(s.levels))


_SEL = [("selects-the-whole-run-list-of-one-level-or-nothing", _whole_level_or_nothing),
        ("source-level-exists", _level_in_range),
        ("pure", lambda s: unchanged(s, s.self))]

fn(SizeTieredCompaction, "select_compaction", args={"levels": LEVELS}, requires=[HAS_L0], ensures=_SEL + [
    ("the-most-populated-level", lambda s: forall(Int, lambda j: implies(
        (0 <= j) & (j < slen(s.levels)),
        mk_bool(z3.Length(seq_term(s.levels)[j.t]) <= z3.Length(seq_term(s.levels)[num(s.result[0])]))), "j")),
    ("exactly-that-level", lambda s: _same_seq(_tabs(s), seq_term(s.levels)[num(s.result[0])]))])
fn(LeveledCompaction, "select_compaction", args={"levels": LEVELS}, requires=[HAS_L0], ensures=_SEL + [
    ("level-0-first-when-it-is-over-its-limit", lambda s: implies(
        mk_bool(z3.Length(seq_term(s.levels)[0]) >= num(s.self.level_0_max)),
        (s.result[0] == 0) & _same_seq(_tabs(s), seq_term(s.levels)[0])))])
fn(LeveledCompaction, "should_compact", args={"levels": LEVELS}, ensures=[
    ("true-when-level-0-is-over-its-limit", lambda s: implies(
        (slen(s.levels) >= 1) & mk_bool(z3.Length(seq_term(s.levels)[0]) >= num(s.self.level_0_max)), s.result)),
    ("pure", lambda s: unchanged(s, s.self))])
fn(FIFOCompaction, "should_compact", args={"levels": LEVELS}, ensures=[("pure", lambda s: unchanged(s, s.self))])
fn(FIFOCompaction, "select_compaction", args={"levels": LEVELS}, requires=[HAS_L0], ensures=_SEL + [
    ("the-deepest-non-empty-level", lambda s: forall(Int, lambda j: implies(
        (j > s.result[0]) & (j < slen(s.levels)) & mk_bool(z3.Length(_tabs(s)) > 0),
        mk_bool(z3.Length(seq_term(s.levels)[j.t]) == 0)), "j")),
    ("nothing-only-from-an-empty-tree", lambda s: implies(mk_bool(z3.Length(_tabs(s)) == 0), forall(Int, lambda j: implies(
        (0 <= j) & (j < slen(s.levels)), mk_bool(z3.Length(seq_term(s.levels)[j.t]) == 0)), "j")))])


# ============================================================================ F. bounded native stand-ins
# (labelled bounded, never counted as proved)  The compaction merge (`_compact*`: nested dict comprehensions,
# sorted(dict.items()), any(genexpr)), `LSMTree.get/scan` (yields inside `for sstable in reversed(level)` while
# other processes mutate that list) and the B-tree (recursive node structure) are outside the engine's reach;
# they are exercised natively, through the public API, against a dict model.
def _drain(gen):
    """run a generator API call to completion without letting anything else run (one atomic step)"""
    try:
        while True:
            next(gen)
    except StopIteration as e:
        return e.value


def _bounded_lsm_sync(seed, tier):
    """random put/delete/get/scan sequences on the sync API (scan: drained generator), every compaction strategy,
    memtable sizes 1..3, 2..4 levels, 4 keys: every read equals the dict model, scans are the sorted live range"""
    import random
    n_seq = 400 if tier == "thorough" else 150
    viol, evals = [], 0
    for t in range(n_seq):
        rng = random.Random(seed * 100003 + t)
        strat = [SizeTieredCompaction(min_sstables=rng.choice([2, 3])),
                 LeveledCompaction(level_0_max=rng.choice([1, 2]), size_ratio=2, base_size_keys=rng.choice([1, 2])),
                 FIFOCompaction(max_total_sstables=rng.choice([1, 2, 3]))][t % 3]
        # every third sequence is a "deep" one: many flushes into a tall tree, so that compactions cascade and leave
        # empty levels between occupied ones (tombstones must survive until nothing older lies beneath them)
        deep = t % 3 == 1 or t % 7 == 0
        tree = LSMTree("t", memtable_size=rng.choice([1, 2] if deep else [1, 2, 3]), compaction_strategy=strat,
                       max_levels=rng.choice([5, 7] if deep else [2, 3, 4]))
        model, trace = {}, []
        keys = ["a", "b", "c", "d", "e", "f"] if deep else ["a", "b", "c", "d"]
        for i in range(rng.randint(60, 220) if deep else rng.randint(5, 40)):
            op = rng.choices(["put", "del", "get", "scan"], [5, 3, 4, 1] if deep else [5, 2, 4, 1])[0]
            k = rng.choice(keys)
            evals += 1
            if op == "put":
                v = f"v{i}"
                tree.put_sync(k, v)
                model[k] = v
            elif op == "del":
                _drain(tree.delete(k))
                model.pop(k, None)
            elif op == "get":
                r = tree.get_sync(k)
                if r != model.get(k):
                    viol.append({"case": "sync-read", "strategy": type(strat).__name__, "trace": trace + [(op, k)],
                                 "got": r, "want": model.get(k)})
                    break
            else:
                lo, hi = sorted([rng.choice(keys), rng.choice(keys + ["e"])])
                r = _drain(tree.scan(lo, hi))
                want = sorted((kk, vv) for kk, vv in model.items() if lo <= kk < hi)
                if r != want:
                    viol.append({"case": "sync-scan", "strategy": type(strat).__name__, "trace": trace + [(op, lo, hi)],
                                 "got": r, "want": want})
                    break
            trace.append((op, k))
        shape = _lsm_shape_violation(tree)         # the state invariant the compaction stand-in starts from is reached
        if shape:
            viol.append({**shape, "strategy": type(strat).__name__, "trace": trace})
        if len(viol) >= 3:
            break
    return {"evaluations": evals, "violations": viol[:3]}


def _runs_of(tree):
    """[(level, index, run)] of every run of the tree; a run's entries as a dict come from `_entries`"""
    return [(l, i, r) for l, lv in enumerate(tree._levels) for i, r in enumerate(lv)]


def _entries(run):
    return dict(run._data)


def _raw_lookup(tree, k):
    """what the on-disk part of the layered view stores for k: ('abs',) or ('val', v) with v possibly the tombstone
    (levels top-down, within a level the newest = last run first)"""
    for lv in tree._levels:
        for r in reversed(lv):
            e = _entries(r)
            if k in e:
                return ("val", e[k])
    return ("abs",)


def _lsm_shape_violation(tree):
    """state invariants of the on-disk part that the correctness of a compaction rests on: every run is sorted with
    distinct keys and non-empty; the runs of one level >= 1 have pairwise disjoint key sets (the merge gives the
    overlapping runs of the target level NO defined precedence among each other)"""
    for l, i, r in _runs_of(tree):
        ks = [k for k, _ in r._data]
        if not ks or ks != sorted(set(ks)):
            return {"case": "run-not-sorted-distinct-nonempty", "level": l, "run": i, "keys": ks}
    for l, lv in enumerate(tree._levels):
        if l == 0:
            continue
        seen = set()
        for r in lv:
            ks = set(_entries(r))
            if seen & ks:
                return {"case": "runs-of-a-level-share-keys", "level": l, "keys": sorted(seen & ks)}
            seen |= ks
    return None


def _expected_source(strat, levels):
    """the documented choice of each strategy: the source level (always the WHOLE level)"""
    if isinstance(strat, SizeTieredCompaction):
        best = max(len(lv) for lv in levels)
        return next(i for i, lv in enumerate(levels) if len(lv) == best) if best else None
    if isinstance(strat, LeveledCompaction):
        if len(levels[0]) >= strat.level_0_max:
            return 0
        for i in range(1, len(levels)):
            if sum(len(r._data) for r in levels[i]) > strat.base_size_keys * strat.size_ratio ** i:
                return i
        return 0 if levels[0] else None
    return next((i for i in range(len(levels) - 1, -1, -1) if levels[i]), None)


def _check_one_compaction(tree, strat, run_it, universe):
    """run ONE compaction on `tree` and compare with the statement: returns a violation dict or None"""
    before = [list(lv) for lv in tree._levels]
    raw0 = {k: _raw_lookup(tree, k) for k in universe}
    read0 = {k: tree.get_sync(k) for k in universe}
    src = _expected_source(strat, before)
    run_it(tree)
    after = [list(lv) for lv in tree._levels]
    ctx_ = {"strategy": type(strat).__name__, "levels_before": [[sorted((k, "TOMB" if v is _TOMBSTONE else v) for k, v in
                                                                     _entries(r).items()) for r in lv] for lv in before]}
    if len(after) != len(before):
        return {"case": "compaction-changed-the-number-of-levels", **ctx_}
    old_ids = {id(r) for lv in before for r in lv}
    new_runs = [(l, i, r) for l, i, r in _runs_of(tree) if id(r) not in old_ids]
    kept_ids = {id(r) for lv in after for r in lv}
    consumed = [(l, i, r) for l, lv in enumerate(before) for i, r in enumerate(lv) if id(r) not in kept_ids]
    for k in universe:                                   # the layered view is unchanged, for every key
        if tree.get_sync(k) != read0[k]:
            return {"case": "compaction-changed-a-read", "key": k, "before": read0[k], "after": tree.get_sync(k), **ctx_}
        r1 = _raw_lookup(tree, k)
        if r1 != raw0[k] and not (raw0[k] == ("val", _TOMBSTONE) and r1 == ("abs",)):
            return {"case": "compaction-changed-the-stored-version", "key": k, **ctx_}
    for l in range(len(before)):                         # surviving runs keep their relative order
        surv = [r for r in before[l] if id(r) in kept_ids]
        if [r for r in after[l] if id(r) in old_ids] != surv:
            return {"case": "compaction-reordered-surviving-runs", "level": l, **ctx_}
    if src is None:
        if consumed or new_runs:
            return {"case": "compaction-of-an-empty-tree-changed-it", **ctx_}
        return None
    tgt = min(src + 1, len(before) - 1)
    if not consumed and not new_runs:
        # nothing installed: allowed only when the merge is empty (all inputs are tombstones at the deepest level)
        merged = {}
        for r in before[src]:
            merged.update(_entries(r))
        if tgt == len(before) - 1 and all(v is _TOMBSTONE for v in merged.values()):
            return None
        return {"case": "compaction-did-nothing", "source": src, **ctx_}
    if {id(r) for l, i, r in consumed if l == src} != {id(r) for r in before[src]}:
        return {"case": "source-level-not-consumed-as-a-whole", "source": src, **ctx_}
    if any(l not in (src, tgt) for l, i, r in consumed):
        return {"case": "consumed-a-run-outside-source-and-target-level", **ctx_}
    if len(new_runs) != 1 or new_runs[0][0] != tgt or new_runs[0][1] != len(after[tgt]) - 1:
        return {"case": "merged-run-not-installed-as-the-newest-run-of-the-target-level", "target": tgt, **ctx_}
    # the merged run holds, for every key of the inputs, the newest version among the inputs
    merged = {}
    for l, i, r in sorted(consumed, key=lambda c: (-c[0], c[1])):      # oldest first: deeper level, then lower index
        merged.update(_entries(r))
    if tgt == len(before) - 1:
        merged = {k: v for k, v in merged.items() if v is not _TOMBSTONE}     # nothing older can lie beneath
    got = new_runs[0][2]._data
    if list(got) != sorted(merged.items()):
        return {"case": "merged-run-is-not-the-newest-version-of-every-input-key", "target": tgt,
                "got": [(k, "TOMB" if v is _TOMBSTONE else v) for k, v in got], **ctx_}
    bad = _lsm_shape_violation(tree)
    if bad:
        return {**bad, **ctx_}
    return None


def _bounded_compaction_direct(seed, tier):
    """ONE compaction (`_compact_sync`, and `_compact` run without interference) on directly constructed trees: 1..5
    levels with random gaps (empty levels between occupied ones), 0..3 runs per level of 1..3 of 5 keys, tombstones
    anywhere but the deepest level, runs of a level >= 1 key-disjoint; all three strategies.  Checked: every read
    and the stored version of every key unchanged (a tombstone may only vanish when the key reads as absent below),
    the whole source level consumed, one merged run installed as newest of the target level = source+1 (or the
    deepest), holding the newest version of every input key, tombstones dropped only at the deepest level."""
    import random
    n = 6000 if tier == "thorough" else 2000
    viol = []
    universe = ["a", "b", "c", "d", "e"]
    for t in range(n):
        rng = random.Random(seed * 2750159 + t)
        n_levels = rng.choice([1, 2, 3, 3, 4, 5])
        strat = [SizeTieredCompaction(min_sstables=2), LeveledCompaction(level_0_max=rng.choice([1, 2]), size_ratio=2,
                                                                        base_size_keys=1),
                 FIFOCompaction(max_total_sstables=1)][t % 3]
        tree = LSMTree("t", memtable_size=4, compaction_strategy=strat, max_levels=n_levels)
        stamp = 0
        for l in range(n_levels):
            if rng.random() < 0.4:
                continue                                                     # a gap
            free = list(universe)
            for _ in range(rng.choice([1, 1, 2, 3])):
                pool = universe if l == 0 else free
                if not pool:
                    break
                ks = rng.sample(pool, min(len(pool), rng.choice([1, 2, 3])))
                free = [k for k in free if k not in ks]
                row = {}
                for k in ks:
                    stamp += 1
                    deepest = l == n_levels - 1 and n_levels > 1
                    row[k] = _TOMBSTONE if (rng.random() < 0.35 and not deepest) else f"L{l}v{stamp}"
                tree._levels[l].append(SSTable(sorted(row.items()), level=l, sequence=stamp))
        if rng.random() < 0.3:
            tree._memtable.put_sync(rng.choice(universe), "mem")             # the memtable stays on top
        run_it = (lambda tr: tr._compact_sync()) if t % 2 == 0 else (lambda tr: _drain(tr._compact()))
        bad = _check_one_compaction(tree, strat, run_it, universe)
        if bad:
            viol.append({"api": "_compact_sync" if t % 2 == 0 else "_compact", **bad})
            if len(viol) >= 3:
                break
    return {"evaluations": n, "violations": viol}


def _interval_oracle(ops):
    """ops: (kind, key, value, t_start, t_end, result).  A read must return the value of the latest write to its key
    that completed before the read began (or of one overlapping that write), or of a write concurrent with the read."""
    writes = [o for o in ops if o[0] != "get"]
    for kind, k, v, t0, t1, r in ops:
        if kind != "get":
            continue
        ws = [w for w in writes if w[1] == k]
        before = [w for w in ws if w[4] <= t0]
        conc = [w for w in ws if not (w[4] <= t0) and w[3] <= t1]
        allowed = set()
        if before:
            last_t = max(w[4] for w in before)
            for w in before:
                if w[4] == last_t or any(w[4] > x[3] and w is not x for x in before if x[4] == last_t):
                    allowed.add(None if w[0] == "del" else w[2])
        else:
            allowed.add(None)
        for w in conc:
            allowed.add(None if w[0] == "del" else w[2])
        if r not in allowed:
            return {"key": k, "got": r, "allowed": sorted(map(str, allowed)), "read_interval_ns": [t0, t1]}
    return None


def _concurrent_trial(make_store, rng, n_keys=3):
    from happysimulator import Simulation, Event, Instant, Entity
    store = make_store(rng)
    ops = []

    class Proc(Entity):
        def __init__(self, n, script):
            super().__init__(n)
            self.script = script

        def handle_event(self, e):
            for kind, k, v, gap in self.script:
                yield gap
                t0 = self.now.nanoseconds
                if kind == "put":
                    yield from store.put(k, v)
                    r = None
                elif kind == "del":
                    yield from store.delete(k)
                    r = None
                else:
                    r = yield from store.get(k)
                ops.append((kind, k, v, t0, self.now.nanoseconds, r))

    procs = []
    for p in range(rng.choice([2, 3])):
        script = []
        for i in range(rng.randint(3, 10)):
            kind = rng.choices(["put", "del", "get"], [5, 1, 4])[0]
            script.append((kind, f"k{rng.randrange(n_keys)}", f"p{p}v{i}", rng.choice([0.0, 0.001, 0.01, 0.05, 0.3])))
        procs.append(Proc(f"p{p}", script))
    sim = Simulation(entities=procs + [store], end_time=Instant.from_seconds(100))
    for p in procs:
        sim.schedule(Event(time=Instant.from_seconds(rng.choice([0, 0.001, 0.02])), event_type="go", target=p))
    for _ in range(getattr(store, "_c14_triggers", 0)):      # externally triggered compactions at random instants
        sim.schedule(Event(time=Instant.from_seconds(rng.choice([0.02, 0.05, 0.1, 0.2, 0.3, 0.5, 0.8])),
                           event_type="CompactionTrigger", target=store))
    sim.run()
    return _interval_oracle(ops)


def _same_level_merge_repaired():
    """fixes/C14_same-level-merge-stays-oldest.diff is applied (see the finding in the header of the stand-in below)"""
    from pyvc.ctx import REPO
    return "insert(0, new_sst)" in open(_os.path.join(REPO, F_LSM)).read()


def _bounded_lsm_concurrent_compactions(seed, tier):
    """as lsm-generator-api-interleavings, but shallow and tall trees (2, 3, 5 levels), all three strategies, small
    thresholds and externally triggered compactions (CompactionTrigger events), so that compactions overlap flushes
    and each other.  FINDING (open until the repair is applied): with max_levels=1 a compaction merges level 0 into
    level 0; a flush completing during its write latency appends a newer run, then the older merge is appended
    behind it and shadows it for ever (triage/c14_single_level_compaction.py).  Single-level trees are part of the
    workload only once the repair is in the tree."""
    import random
    levels = [2, 3, 5] + ([1, 1] if _same_level_merge_repaired() else [])

    def mk(rng):
        strat = rng.choice([SizeTieredCompaction(min_sstables=2), LeveledCompaction(level_0_max=2, size_ratio=2, base_size_keys=2),
                            FIFOCompaction(max_total_sstables=rng.choice([1, 2]))])
        tree = LSMTree("t", memtable_size=rng.choice([1, 2]), compaction_strategy=strat, max_levels=rng.choice(levels),
                       sstable_read_latency=rng.choice([0.001, 0.01]), sstable_write_latency=rng.choice([0.01, 0.05, 0.2]))
        tree._c14_triggers = rng.choice([0, 2, 4])
        return tree
    n = 1500 if tier == "thorough" else 500
    viol = []
    for t in range(n):
        bad = _concurrent_trial(mk, random.Random(seed * 611953 + t))
        if bad:
            viol.append({"case": "stale-read-with-overlapping-compactions", "trial": t, **bad})
            if len(viol) >= 3:
                break
    return {"evaluations": n, "violations": viol}


def _bounded_lsm_concurrent(seed, tier):
    """2-3 processes with random start offsets issue put/delete/get through the generator API of one LSM tree inside
    a real Simulation (memtable sizes 1..3, 3 levels, size-tiered and leveled compaction, 3 keys)"""
    import random

    def mk(rng):
        strat = rng.choice([SizeTieredCompaction(min_sstables=2), LeveledCompaction(level_0_max=2, size_ratio=2, base_size_keys=2)])
        return LSMTree("t", memtable_size=rng.choice([1, 2, 3]), compaction_strategy=strat, max_levels=3,
                       sstable_read_latency=rng.choice([0.001, 0.01]), sstable_write_latency=rng.choice([0.01, 0.05, 0.2]))
    n = 1200 if tier == "thorough" else 400
    viol = []
    for t in range(n):
        bad = _concurrent_trial(mk, random.Random(seed * 7919 + t))
        if bad:
            viol.append({"case": "stale-read", "trial": t, **bad})
            if len(viol) >= 3:
                break
    return {"evaluations": n, "violations": viol}


def _bounded_btree(seed, tier):
    """B-tree (order 3..5, so that splits are frequent): random sync sequences against a dict (get/put/delete/scan),
    and 2-3 concurrent processes on the generator API inside a real Simulation (interval oracle)"""
    import random
    from happysimulator.components.storage.btree import BTree
    viol, evals = [], 0
    for t in range(300 if tier == "thorough" else 120):
        rng = random.Random(seed * 104729 + t)
        bt = BTree("bt", order=rng.choice([3, 4, 5]))
        model = {}
        keys = [f"k{i:02d}" for i in range(12)]
        for i in range(rng.randint(5, 60)):
            op = rng.choices(["put", "del", "get", "scan"], [6, 2, 4, 1])[0]
            k = rng.choice(keys)
            evals += 1
            if op == "put":
                bt.put_sync(k, i)
                model[k] = i
            elif op == "del":
                r = _drain(bt.delete(k))
                if r != (k in model):
                    viol.append({"case": "btree-sync-delete", "key": k, "got": r})
                model.pop(k, None)
            elif op == "get":
                if bt.get_sync(k) != model.get(k):
                    viol.append({"case": "btree-sync-read", "key": k, "got": bt.get_sync(k), "want": model.get(k)})
            else:
                lo, hi = sorted([rng.choice(keys), rng.choice(keys)])
                r = _drain(bt.scan(lo, hi))
                if r != sorted((kk, vv) for kk, vv in model.items() if lo <= kk < hi):
                    viol.append({"case": "btree-sync-scan", "range": [lo, hi], "got": r})
            if viol:
                break
        if bt.size != len(model) and not viol:
            viol.append({"case": "btree-size", "got": bt.size, "want": len(model)})
        if viol:
            break
    n = 600 if tier == "thorough" else 250
    for t in range(n):
        rng = random.Random(seed * 15485863 + t)
        bad = _concurrent_trial(lambda r: BTree("bt", order=3, page_read_latency=r.choice([0.001, 0.01]),
                                                 page_write_latency=r.choice([0.001, 0.02])), rng, n_keys=6)
        if bad:
            viol.append({"case": "btree-stale-read", "trial": t, **bad})
            break
    return {"evaluations": evals + n, "violations": viol[:3]}


def _isolated(fname):
    """run a stand-in in a fresh interpreter: the checker's worker processes patch `__new__` of the registered heap
    classes while a task runs, and CPython does not fully restore a class whose `__new__` was set and deleted"""
    def run(seed, tier):
        import json
        import subprocess
        import sys
        code = ("import sys, json; sys.path.insert(0, '/verif'); from pyvc import loader; loader.install(); "
                f"import specs.C14 as m; print('C14-RESULT ' + json.dumps(m.{fname}({seed!r}, {tier!r}), default=str))")
        p = subprocess.run([sys.executable, "-c", code], cwd="/verif", capture_output=True, text=True, timeout=900)
        for ln in p.stdout.splitlines():
            if ln.startswith("C14-RESULT "):
                return json.loads(ln[len("C14-RESULT "):])
        raise RuntimeError(f"stand-in {fname} failed: {p.stderr[-600:]}")
    return run


PROPERTY["bounded"] = [
    {"name": "lsm-sync-api-vs-dict", "bound": "150 (thorough: 400) random sequences of <= 40 put/delete/get/scan over 4 keys; "
     "memtable size 1..3, 2..4 levels, all three compaction strategies", "fn": _isolated("_bounded_lsm_sync")},
    {"name": "lsm-one-compaction-on-constructed-trees", "bound": "2000 (thorough: 6000) directly constructed trees: 1..5 levels "
     "with gaps, <= 3 runs per level of <= 3 of 5 keys, tombstones above the deepest level; _compact_sync and the drained "
     "_compact under all three strategies", "fn": _isolated("_bounded_compaction_direct")},
    {"name": "lsm-generator-api-interleavings", "bound": "400 (thorough: 1200) random workloads of 2-3 concurrent processes, "
     "<= 10 operations each over 3 keys, random start offsets and gaps, inside a real Simulation",
     "fn": _isolated("_bounded_lsm_concurrent")},
    {"name": "lsm-overlapping-compactions", "bound": "500 (thorough: 1500) random workloads of 2-3 concurrent processes plus 0-4 "
     "externally triggered compactions on trees of 2/3/5 levels (1 level once fixes/C14_same-level-merge-stays-oldest.diff "
     "is applied), memtable size 1..2, all three strategies", "fn": _isolated("_bounded_lsm_concurrent_compactions")},
    {"name": "btree-vs-dict-and-concurrent-get", "bound": "120 (thorough: 300) random sync sequences of <= 60 operations over 12 "
     "keys (order 3..5) and 250 (thorough: 600) concurrent workloads on the generator API (order 3, 6 keys)",
     "fn": _isolated("_bounded_btree")},
]

"""C09 - capacity primitives never over-admit or leak, wake in order, and let time pass.

A  Resource / Grant: ghost `g_held` = sum of the amounts of unreleased grants, arrival tickets for FIFO wake-up.
B  Mutex, Semaphore, RWLock, Barrier, Condition: try/release/wake functions, then the blocking generators
   (acquire / wait) with the progress clause `blocked-process-parks-instead-of-polling-at-zero-delay`.
C  ConnectionPool: acquire (generator, three paths), release, _handle_warmup.
D  PreemptibleResource / PreemptibleGrant (wait queue = heapq bag ordered by (priority, arrival)).
E  Bulkhead: admission (handle_event, _enqueue_request, _forward_request), completion and queue hand-over
   (_handle_response, _try_process_queued), queue timeouts (_handle_timeout).
C2 ConnectionPool._handle_idle_timeout;  B5 Condition.wait_for;  F ThreadPool (has_capacity, handle_queued_event).
Bounded stand-in (triage/c09_bounded.py) for the three remaining stubs and ConnectionPool.close_all.
The concurrency models (FixedConcurrency, DynamicConcurrency, WeightedConcurrency) are under contract in
specs/C08.py part B and are not repeated here.  See DESIGN.md section 3-C09.

Genuine defects of the pinned tree found here (each has a repair under /verif/fixes and is exit 0 with it):
  * ConnectionPool.acquire / _handle_warmup: `inv:ConnectionPool.never-more-connections-than-max` - the slot is
    counted only after the set-up delay (fixes/C09_pool-reserve-slot.diff, native: triage/c09.py);
  * Mutex/Semaphore/RWLock(x2)/Barrier/Condition blocking generators:
    `blocked-process-parks-instead-of-polling-at-zero-delay` - `while not flag: yield 0.0` freezes the clock
    (fixes/C09_sync-wait-on-future.diff, native: findings/c09_spin_wait.py);
  * PreemptibleResource.acquire: `inv:PreemptibleResource.granted-as-soon-as-capacity-allows@exit` - capacity freed
    by a preemption is not offered to the queue head (fixes/C09_preempt-wake-after-preemption.diff,
    native: findings/c09_preempt_idle_capacity.py).
"""
from pyvc.spec import *

F_RES = "happysimulator/components/resource.py"

# ---------------------------------------------------------------------------- ghost statements
# held = sum of amounts of unreleased grants: a grant adds its amount when it is created and
# takes it away the first (only effective) time it is released
ghost(F_RES, "Grant.__init__", "self._released = False",
      "self._resource.g_held = self._resource.g_held + self._amount")
ghost(F_RES, "Grant.release", "self._released = True",
      "self._resource.g_held = self._resource.g_held - self._amount")
ghost(F_RES, "Resource.__init__", "self._available = capacity", "self.g_held = 0")     # no grant exists yet
# arrival tickets of blocked acquirers: g_next = next ticket to issue, g_head = ticket of the queue head
# (= number of blocked acquirers served so far).  FIFO wake-up == tickets are served in increasing order.
ghost(F_RES, "Resource.__init__", "self._peak_waiters = 0", "self.g_head = 0; self.g_next = 0")
ghost(F_RES, "Resource.acquire", "self._contentions += 1",
      "future.g_ticket = self.g_next; self.g_next = self.g_next + 1")
ghost(F_RES, "Resource._wake_waiters", "self._available -= waiter.amount", "self.g_head = self.g_head + 1")
# state at the start of a wake-up round (the loop below is also reached inlined from
# _do_release / Grant.release, so its invariant speaks about this snapshot, not the task's entry state)
ghost(F_RES, "Resource._wake_waiters", None,
      "self.g_q0 = list(self._waiters); self.g_total0 = self._available + self.g_held; self.g_avail0 = self._available",
      where="entry")

_K = {}     # classes, filled after the repo import (loop contracts are declared before it)


def zi(i):
    return i.t if hasattr(i, "t") else (i if z3.is_expr(i) else z3.IntVal(i))


def rw_at(o, i, seq=None):
    """i-th waiter of the queue (or of the ghost sequence `seq`) of resource view o (no fork)"""
    q = seq_term(o._waiters if seq is None else seq)
    return ObjProxy(q[zi(i)], _K["RWaiter"], o._frozen)


def rw_amount(o, i, seq=None):
    return mk_num(field_term(rw_at(o, i, seq), "amount"))


def rw_future(o, i, seq=None):
    return ObjProxy(field_term(rw_at(o, i, seq), "future"), _K["SimFuture"], o._frozen)


def allocated(p):
    """heap typing of a reference read under a quantifier: it denotes an existing object (A-typing)"""
    from pyvc import ctx as _ctx
    return mk_bool(z3.And(p._ref >= 1, p._ref <= _ctx.cur().heap.alloc))


def fut_resolved(f):
    return mk_bool(field_term(f, "_resolved"))


def queue_ok(o):
    """every queued request is satisfiable (0 < amount <= capacity), still pending, and no two queue
    entries share a future (so serving one never serves another)"""
    n = slen(o._waiters)
    return (o.g_next == o.g_head + n) & forall(Int, lambda i: implies(
        (0 <= i) & (i < n),
        (rw_amount(o, i) > 0) & (rw_amount(o, i) <= o._capacity)
        & allocated(rw_at(o, i)) & allocated(rw_future(o, i))
        & Not(fut_resolved(rw_future(o, i)))
        # the i-th entry holds arrival ticket g_head + i: entries (and their futures) are pairwise distinct
        # and queued in arrival order
        & mk_bool(field_term(rw_future(o, i), "g_ticket") == num(o.g_head) + zi(i))), "i")


def served_now(L):
    """step clause of the wake-up loop (locals `waiter`, `grant` exist once the body ran): the waiter taken
    in this iteration was the head of the queue, and its future now carries a fresh unreleased grant of this
    resource for exactly the amount it asked for"""
    if not hasattr(L, "grant") or not hasattr(L, "waiter"):
        return True
    w, g, f = L.waiter, L.grant, L.waiter.future
    return mk_bool(z3.SuffixOf(z3.Concat(z3.Unit(w._ref), seq_term(L.self._waiters)), seq_term(L.self.g_q0))) \
        & f._resolved & mk_bool(field_term(f, "_value") == Any.unwrap(g)) \
        & (g._amount == w.amount) & same(g._resource, L.self) & Not(g._released) \
        & (f.g_ticket == L.self.g_head - 1)        # it held the lowest outstanding arrival ticket


def _wake_inv():
    return [
        ("conserved", lambda L: L.self._available + L.self.g_held == L.self.g_total0),
        ("available-only-handed-out", lambda L: (L.self._available >= 0) & (L.self._available <= L.self.g_avail0)),
        ("remaining-queue-is-a-suffix-of-arrival-order", lambda L: mk_bool(
            z3.SuffixOf(seq_term(L.self._waiters), seq_term(L.self.g_q0)))),
        ("queue-ok", lambda L: queue_ok(L.self)),
        ("taken-waiter-is-the-head-and-gets-a-grant-of-its-amount", served_now),
    ]


_WAKE_LOOP = loop(F_RES, "Resource._wake_waiters", 1, inv=_wake_inv(), modifies=[
    ("Resource", "_waiters"), ("Resource", "_available"), ("Resource", "_acquisitions"),
    ("Resource", "_peak_utilization"), ("Resource", "_total_wait_time_ns"), ("Resource", "g_held"), ("Resource", "g_head"),
    ("SimFuture", "_resolved"), ("SimFuture", "_value"), ("SimFuture", "g_vref"),
    ("Grant", "_resource"), ("Grant", "_amount"), ("Grant", "_released")])
# grants are only written by their own constructor inside the loop (pyvc/loops.py fresh_only): grants that
# exist when the loop starts - in particular the one being released - are untouched
_WAKE_LOOP.fresh_only = [("Grant", "_resource"), ("Grant", "_amount"), ("Grant", "_released")]

# ---------------------------------------------------------------------------- B. sync primitives
F_MUT = "happysimulator/components/sync/mutex.py"
F_SEM = "happysimulator/components/sync/semaphore.py"
F_RWL = "happysimulator/components/sync/rwlock.py"
F_BAR = "happysimulator/components/sync/barrier.py"
F_CND = "happysimulator/components/sync/condition.py"


def fn_calls():
    """ghost log of the calls of opaque callables (waiter callbacks) on the current path: [(id term, args, kw, ret)]"""
    from pyvc import ctx as _ctx
    return _ctx.cur().ghost_args.get("fn_calls", [])


def only_call_is(cb_term):
    """exactly one opaque callable was invoked so far on this path, and it is `cb_term`, without arguments"""
    calls = fn_calls()
    if len(calls) != 1:
        return False
    return mk_bool(calls[0][0] == cb_term) & (len(calls[0][1]) == 0)


def taken_is_head(L, w):
    """the waiter `w` taken in this iteration directly precedes the remaining queue in the arrival order g_q0"""
    return mk_bool(z3.SuffixOf(z3.Concat(z3.Unit(w._ref), seq_term(L.self._waiters)), seq_term(L.self.g_q0)))


# Mutex: g_holders = number of processes that hold the lock (acquired, not yet released)
ghost(F_MUT, "Mutex.try_acquire", "self._locked = True", "self.g_holders = self.g_holders + 1")
ghost(F_MUT, "Mutex.release", "self._releases += 1", "self.g_holders = self.g_holders - 1")
ghost(F_MUT, "Mutex.release", "waiter.callback()", "self.g_holders = self.g_holders + 1")      # hand-over

# Semaphore: g_held = permits currently held
ghost(F_SEM, "Semaphore.try_acquire", "self._count -= count", "self.g_held = self.g_held + count")
ghost(F_SEM, "Semaphore.release", "self._count += count", "self.g_held = self.g_held - count")
ghost(F_SEM, "Semaphore._wake_waiters", "self._count -= waiter.count", "self.g_held = self.g_held + waiter.count")
ghost(F_SEM, "Semaphore._wake_waiters", None,
      "self.g_q0 = list(self._waiters); self.g_total0 = self._count + self.g_held; self.g_avail0 = self._count",
      where="entry")


def sem_queue_ok(o):
    n = slen(o._waiters)
    return forall(Int, lambda i: implies((0 <= i) & (i < n), mk_bool(z3.And(
        field_term(sw_at(o, i), "count") >= 1, field_term(sw_at(o, i), "count") <= num(o._capacity)))), "i")


def sw_at(o, i):
    return ObjProxy(seq_term(o._waiters)[zi(i)], _K["SWaiter"], o._frozen)


def _sem_served_now(L):
    if not hasattr(L, "waiter"):
        return True
    return taken_is_head(L, L.waiter) & only_call_is(field_term(L.waiter, "callback"))


loop(F_SEM, "Semaphore._wake_waiters", 1, modifies=[("Semaphore", "_waiters"), ("Semaphore", "_count"), ("Semaphore", "g_held")], inv=[
    ("conserved", lambda L: L.self._count + L.self.g_held == L.self.g_total0),
    ("permits-only-handed-out", lambda L: (L.self._count >= 0) & (L.self._count <= L.self.g_avail0)),
    ("remaining-queue-is-a-suffix-of-arrival-order", lambda L: mk_bool(
        z3.SuffixOf(seq_term(L.self._waiters), seq_term(L.self.g_q0)))),
    ("queue-ok", lambda L: sem_queue_ok(L.self)),
    ("taken-waiter-is-the-head-and-is-woken-exactly-once", _sem_served_now)])

# RWLock / Barrier / Condition: every wake-up loop takes the head of the queue and invokes its callback once
_SNAP_Q = "self.g_q0 = list(self._waiters)"
ghost(F_RWL, "RWLock._wake_waiters", None, _SNAP_Q + "; self.g_r0 = self._active_readers", where="entry")
ghost(F_BAR, "Barrier._break_barrier", None, _SNAP_Q, where="entry")
ghost(F_BAR, "Barrier.reset", None, _SNAP_Q, where="entry")
ghost(F_BAR, "Barrier.abort", None, _SNAP_Q, where="entry")
ghost(F_CND, "Condition.notify", None, _SNAP_Q, where="entry")
ghost(F_CND, "Condition.notify_all", None, _SNAP_Q, where="entry")


def _woken_once(L):
    if not hasattr(L, "waiter"):
        return True
    return taken_is_head(L, L.waiter) & only_call_is(field_term(L.waiter, "callback"))


def _suffix_inv(L):
    return mk_bool(z3.SuffixOf(seq_term(L.self._waiters), seq_term(L.self.g_q0)))


_DRAIN_INV = [("remaining-queue-is-a-suffix-of-arrival-order", _suffix_inv),
              ("taken-waiter-is-the-head-and-is-woken-exactly-once", _woken_once)]


def rw_max_ok(o):
    m = o._max_readers
    if m is None:
        return True
    return (m >= 1) & (o._active_readers <= m)


def _rw_reader_taken(L):
    if not hasattr(L, "waiter"):
        return True
    return mk_bool(field_term(L.waiter, "waiter_type") != 1)        # not _WaiterType.WRITER


loop(F_RWL, "RWLock._wake_waiters", 1, modifies=[("RWLock", "_waiters"), ("RWLock", "_active_readers"), ("RWLock", "_peak_readers")],
     inv=_DRAIN_INV + [
         ("no-writer-inside", lambda L: Not(L.self._write_locked)),
         ("readers-within-limit", lambda L: (L.self._active_readers >= 0) & rw_max_ok(L.self)),
         ("readers-only-grow", lambda L: L.self._active_readers - L.self.g_r0
             == slen(L.self.g_q0) - slen(L.self._waiters)),
         ("only-readers-pass", _rw_reader_taken)])

loop(F_BAR, "Barrier._break_barrier", 1, modifies=[("Barrier", "_waiters"), ("Barrier", "_total_wait_time_ns")], inv=_DRAIN_INV)
loop(F_BAR, "Barrier.reset", 1, modifies=[("Barrier", "_waiters")], inv=_DRAIN_INV + [("flag", lambda L: L.self._broken)])
loop(F_BAR, "Barrier.abort", 1, modifies=[("Barrier", "_waiters")], inv=_DRAIN_INV + [("flag", lambda L: L.self._broken)])
loop(F_CND, "Condition.notify", 1, modifies=[("Condition", "_waiters")], inv=_DRAIN_INV + [
    ("counts-the-woken", lambda L: (L.woken == slen(L.self.g_q0) - slen(L.self._waiters)) & (L.woken >= 0)),
    ("at-most-n", lambda L: (L.woken <= L.n) | (L.woken == 0))])
loop(F_CND, "Condition.notify_all", 1, modifies=[("Condition", "_waiters")], inv=_DRAIN_INV + [
    ("counts-the-woken", lambda L: (L.woken == slen(L.self.g_q0) - slen(L.self._waiters)) & (L.woken >= 0))])

# ---- blocking acquire generators: the wait loop suspends, so it is cut with modifies="world"; the class
# invariant is the loop invariant, the woken-flag list of the closure is havoc'd (another process sets it)
def _cls_inv(key, name):
    return ("inv:" + name, lambda L, k=key, n=name: dict(REG.classes[_K[k]].inv)[n](L.self))


def _flag_ok(flag):
    return ("flag-cell", lambda L: slen(getattr(L, flag)) == 1)


def joined_tail(o, w, q_at_call):
    """ghost assertion placed right after `self._waiters.append(waiter)` of a blocking acquire: the blocked
    caller joined the END of the arrival queue, once (`q_at_call` = the queue when the call started; the
    call has not suspended in between)"""
    oblige("blocked-acquirer-joins-the-tail-of-the-queue-once", mk_bool(
        seq_term(o._waiters) == z3.Concat(seq_term(q_at_call), z3.Unit(w._ref))), kind="post")


_JOIN = "import specs.C09 as _S; _S.joined_tail(self, waiter, _g_q_at_call)"
# frame of the world-havoc at a suspending wait loop: fields that are never written after construction
_EKEEP = [("Entity", "_clock"), ("Entity", "name"), ("Condition", "_lock"), ("Semaphore", "_capacity"),
          ("RWLock", "_max_readers"), ("Barrier", "_parties"), ("_Waiter", "callback"), ("_Waiter", "enqueue_time_ns"),
          ("_BarrierWaiter", "callback"), ("_BarrierWaiter", "enqueue_time_ns")]
for _f, _q in ((F_MUT, "Mutex.acquire"), (F_SEM, "Semaphore.acquire"), (F_RWL, "RWLock.acquire_read"),
               (F_RWL, "RWLock.acquire_write"), (F_BAR, "Barrier.wait"), (F_CND, "Condition.wait")):
    ghost(_f, _q, None, "_g_q_at_call = list(self._waiters)", where="entry")
    ghost(_f, _q, "self._waiters.append(waiter)", _JOIN)


def mark_granted():
    """ghost: the next yield directly follows a successful try_acquire (the caller got what it asked for)"""
    from pyvc import ctx as _ctx
    _ctx.cur().ghost_args["granted_before_yield"] = True


def take_granted():
    from pyvc import ctx as _ctx
    return bool(_ctx.cur().ghost_args.pop("granted_before_yield", False))


# the first `yield 0.0` in body order is the one of the fast path `if self.try_acquire(..): yield 0.0; return`
for _f, _q in ((F_MUT, "Mutex.acquire"), (F_SEM, "Semaphore.acquire"), (F_RWL, "RWLock.acquire_read"),
               (F_RWL, "RWLock.acquire_write")):
    ghost(_f, _q, "yield 0.0", "import specs.C09 as _S; _S.mark_granted()", where="before")

loop(F_MUT, "Mutex.acquire", 1, modifies="world", keeps=_EKEEP, types={"acquired": lambda: Seq(Bool)}, inv=[
    _cls_inv("Mutex", "locked-iff-exactly-one-holder"), _cls_inv("Mutex", "nobody-waits-for-a-free-lock"), _flag_ok("acquired"),
    # rely (see Mutex.release/hands-over...): the callback is only invoked by a release that keeps the lock locked for us
    ("woken-means-the-lock-was-handed-over", lambda L: implies(L.acquired[0], L.self._locked))])
loop(F_SEM, "Semaphore.acquire", 1, modifies="world", keeps=_EKEEP + [("Semaphore", "_capacity")],
     types={"acquired": lambda: Seq(Bool)}, inv=[
    _cls_inv("Semaphore", "capacity-positive"), _cls_inv("Semaphore", "never-over-admitted"),
    _cls_inv("Semaphore", "held-plus-available-is-capacity"), _cls_inv("Semaphore", "queue-ok"), _flag_ok("acquired")])
for _q in ("RWLock.acquire_read", "RWLock.acquire_write"):
    loop(F_RWL, _q, 1, modifies="world", keeps=_EKEEP + [("RWLock", "_max_readers")], types={"acquired": lambda: Seq(Bool)}, inv=[
        _cls_inv("RWLock", "writer-excludes-everyone"), _cls_inv("RWLock", "readers-within-limit"), _flag_ok("acquired")])
loop(F_BAR, "Barrier.wait", 1, modifies="world", keeps=_EKEEP + [("Barrier", "_parties")], types={"released": lambda: Seq(Bool)}, inv=[
    _cls_inv("Barrier", "parties-positive"), _cls_inv("Barrier", "fewer-waiters-than-parties"), _flag_ok("released"),
    ("arrival-index-in-range", lambda L: (0 <= L.arrival_index) & (L.arrival_index < L.self._parties))])
loop(F_CND, "Condition.wait", 1, modifies="world", keeps=_EKEEP + [("Condition", "_lock")], types={"woken": lambda: Seq(Bool)}, inv=[
    _flag_ok("woken"),
    ("lock:locked-iff-exactly-one-holder", lambda L: dict(REG.classes[_K["Mutex"]].inv)["locked-iff-exactly-one-holder"](L.self._lock)),
    ("lock:nobody-waits-for-a-free-lock", lambda L: dict(REG.classes[_K["Mutex"]].inv)["nobody-waits-for-a-free-lock"](L.self._lock))])

# Condition.wait_for: `while not predicate(): ...; yield from self.wait()` - every iteration suspends inside wait()
_LOCK_INV = [
    ("lock:locked-iff-exactly-one-holder", lambda L: dict(REG.classes[_K["Mutex"]].inv)["locked-iff-exactly-one-holder"](L.self._lock)),
    ("lock:nobody-waits-for-a-free-lock", lambda L: dict(REG.classes[_K["Mutex"]].inv)["nobody-waits-for-a-free-lock"](L.self._lock))]
loop(F_CND, "Condition.wait_for", 1, modifies="world",     # (the body allocates a _Waiter: its fields are not in the frame)
     keeps=[k for k in _EKEEP if k[0] != "_Waiter"] + [("Condition", "_lock")], inv=_LOCK_INV + [
    # wait() returns with the lock re-acquired, so the predicate is always evaluated under the lock
    ("predicate-evaluated-under-the-lock", lambda L: L.self._lock._locked)])

# ---------------------------------------------------------------------------- D. preemptible resource
F_PRE ="happysimulator/components/industrial/preemptible_resource.py"
from pyvc.comp import declare_filter  # noqa: E402
declare_filter(F_PRE, "PreemptibleResource._do_release", 1)      # [g for g in self._active_grants if not g.released]
ghost(F_PRE, "PreemptibleGrant.__init__", "self._on_preempt = on_preempt",
      "self._resource.g_held = self._resource.g_held + self._amount")
ghost(F_PRE, "PreemptibleGrant.release", "self._released = True", "self._resource.g_held = self._resource.g_held - self._amount")
ghost(F_PRE, "PreemptibleGrant._do_preempt", "self._released = True", "self._resource.g_held = self._resource.g_held - self._amount")
ghost(F_PRE, "PreemptibleResource._wake_waiters", None,
      "self.g_total0 = self._available + self.g_held; self.g_avail0 = self._available", where="entry")
# a blocked acquirer's future carries its arrival number (= insert_order of its queue entry)
ghost(F_PRE, "PreemptibleResource.acquire", "self._contentions += 1", "future.g_ticket = self._insert_counter")


def pw_lt(a, b):
    d = _K["PW"].dt
    return z3.Or(d.priority(a) < d.priority(b), z3.And(d.priority(a) == d.priority(b), d.insert_order(a) < d.insert_order(b)))


def pq_cnt(o):
    return _K["PHEAP"].dt.cnt(o._waiters.term)


def pre_queue_ok(o):
    """every queued request: satisfiable amount, issued arrival number, pending future tagged with that number;
    an arrival number names one entry (so the head is unique and no future is queued twice)"""
    d = _K["PW"].dt
    cnt = pq_cnt(o)
    fr = _pctx_cur().heap
    res = fr.array(("SimFuture", "_resolved"), Bool, o._frozen)
    tick = fr.array(("SimFuture", "g_ticket"), Int, o._frozen)
    cap, ctr = num(o._capacity), num(o._insert_counter)
    return (o._insert_counter >= 0) & forall(Raw(d), lambda x: mk_bool(z3.Implies(z3.Select(cnt, x) > 0, z3.And(
        z3.Select(cnt, x) <= 1, d.amount(x) >= 1, d.amount(x) <= cap, d.insert_order(x) >= 0, d.insert_order(x) < ctr,
        d.future(x) >= 1, d.future(x) <= fr.alloc, z3.Not(z3.Select(res, d.future(x))),
        z3.Select(tick, d.future(x)) == d.insert_order(x)))), "x") \
        & forall(Raw(d), lambda x: forall(Raw(d), lambda y: mk_bool(z3.Implies(
            z3.And(z3.Select(cnt, x) > 0, z3.Select(cnt, y) > 0, d.insert_order(x) == d.insert_order(y)), x == y)), "y"), "x")


def _pctx_cur():
    from pyvc import ctx as _ctx
    return _ctx.cur()


def pre_head_blocked(o):
    """granted as soon as capacity allows: the highest-priority (then earliest) blocked request does not fit"""
    if not o._waiters:
        return True
    m = o._waiters._a_min()
    return o._available < mk_num(_K["PW"].dt.amount(m))


def _pre_served_now(L):
    if not hasattr(L, "waiter"):
        return True
    d = _K["PW"].dt
    pops = _pctx_cur().ghost_args.get("heap_pops", [])
    if len(pops) != 1:
        return False
    w = _K["PW"].unwrap(L.waiter)
    f = L.waiter.future
    gref = field_term(f, "g_vref")
    g = ObjProxy(gref, _K["PGrant"])
    return mk_bool(pops[0] == w) & f._resolved & mk_bool(field_term(f, "_value") == Any._f("ref", z3.IntSort())(gref)) \
        & (g._amount == L.waiter.amount) & same(g._resource, L.self) & Not(g._released) & (g._priority == L.waiter.priority)


_PRE_LOOP = loop(F_PRE, "PreemptibleResource._wake_waiters", 1, modifies=[
    ("PreemptibleResource", "_waiters"), ("PreemptibleResource", "_available"), ("PreemptibleResource", "_acquisitions"),
    ("PreemptibleResource", "_active_grants"), ("PreemptibleResource", "g_held"),
    ("SimFuture", "_resolved"), ("SimFuture", "_value"), ("SimFuture", "g_vref")] + [
    ("PreemptibleGrant", f) for f in ("_resource", "_amount", "_priority", "_released", "_preempted", "_on_preempt")], inv=[
    ("conserved", lambda L: L.self._available + L.self.g_held == L.self.g_total0),
    ("available-only-handed-out", lambda L: (L.self._available >= 0) & (L.self.g_held >= 0)
        & (L.self._available <= L.self.g_avail0)),
    ("queue-ok", lambda L: pre_queue_ok(L.self)),
    ("taken-waiter-is-the-head-and-gets-a-grant-of-its-amount", _pre_served_now)])
_PRE_LOOP.fresh_only = [("PreemptibleGrant", f) for f in ("_resource", "_amount", "_priority", "_released", "_preempted", "_on_preempt")]

# ---------------------------------------------------------------------------- C. connection pool
F_POOL ="happysimulator/components/client/connection_pool.py"
# g_pending = connections counted in _total_connections whose set-up has not finished (slots reserved by
# processes suspended in _create_connection).  Anchored on the statements that exist with and without the
# repair fixes/C09_pool-reserve-slot.diff: on the unrepaired tree both happen after the set-up delay.
ghost(F_POOL, "ConnectionPool._create_connection", None, "g_mine = 0", where="entry")
ghost(F_POOL, "ConnectionPool._create_connection", "self._total_connections += 1", "self.g_pending = self.g_pending + 1; g_mine = 1")
# rely of the set-up delay: the other processes leave the slot this process reserved (if it reserved one
# before suspending) alone - they only add and remove reservations of their own
ghost(F_POOL, "ConnectionPool._create_connection", "yield latency.to_seconds()",
      "from pyvc.spec import assume as _pyvc_assume; _pyvc_assume(self.g_pending >= g_mine)")
ghost(F_POOL, "ConnectionPool._create_connection", "self._connections_created += 1", "self.g_pending = self.g_pending - 1")
# g_owner: id -> the connection object created under that id (ids are issued once); g_slot / g_ihead / g_inext:
# position tickets of the idle queue (appended at the tail, taken from the head), so that `two entries of the
# idle queue are different connections with different ids` needs no pairwise quantifier
ghost(F_POOL, "ConnectionPool._create_connection", "connection = Connection(", "self.g_owner[connection.id] = connection")
ghost(F_POOL, "ConnectionPool.release", "self._idle_connections.append(connection)",
      "connection.g_slot = self.g_inext; self.g_inext = self.g_inext + 1")
ghost(F_POOL, "ConnectionPool._handle_warmup", "self._idle_connections.append(connection)",
      "connection.g_slot = self.g_inext; self.g_inext = self.g_inext + 1")
ghost(F_POOL, "ConnectionPool._try_get_idle_connection", "connection = self._idle_connections.popleft()",
      "self.g_ihead = self.g_ihead + 1")

_POOL_INV_NAMES = ["config", "never-more-connections-than-max", "active-plus-idle-plus-pending-is-total", "pending-nonneg",
                   "lent-ids-were-issued", "idle-connection-is-not-lent-out", "idle-connections-are-distinct"]
# the class invariant of the pool, clause by clause, as loop invariant of the loops that suspend
_POOL_INV = [("pool:" + _n, lambda L, n=_n: dict(REG.classes[_K["ConnectionPool"]].inv)[n](L.self)) for _n in _POOL_INV_NAMES]


# the body suspends (yield poll_interval): any other process may run, so the loop is cut with modifies="world"
loop(F_POOL, "ConnectionPool.acquire", 1, modifies="world",
     keeps=[("Entity", "_clock"), ("Entity", "name")] + [("ConnectionPool", f) for f in (
         "_target", "_min_connections", "_max_connections", "_connection_timeout", "_idle_timeout",
         "_connection_latency", "_on_acquire", "_on_release", "_on_timeout")],
     types={"received": lambda: Seq(Bool), "result": lambda: Seq(OptRef(_K["Connection"])),
            "connection": lambda: OptRef(_K["Connection"])},
     inv=_POOL_INV + [
          ("flags", lambda L: (slen(L.received) == 1) & (slen(L.result) == 1)),
          ("elapsed", lambda L: L.elapsed >= 0),
          ("poll-interval-positive", lambda L: L.poll_interval > 0)],
     decreases=lambda L: L.self._connection_timeout - L.elapsed)

_POOL_KEEPS = [("Entity", "_clock"), ("Entity", "name")] + [("ConnectionPool", f) for f in (
    "_target", "_min_connections", "_max_connections", "_connection_timeout", "_idle_timeout",
    "_connection_latency", "_on_acquire", "_on_release", "_on_timeout")]
loop(F_POOL, "ConnectionPool._handle_warmup", 1, modifies="world", keeps=_POOL_KEEPS,
     types={"events": lambda: Seq(Ref(Event)), "connection": lambda: Ref(_K["Connection"])},
     inv=_POOL_INV)
# `for timeout_event in events: if timeout_event.time < emit_time: timeout_event.time = emit_time` (the C07 repair of the
# stale idle-timeout stamps): writes only Event.time, so the pool invariants carry over (frame checked)
loop(F_POOL, "ConnectionPool._handle_warmup", 2, modifies=[("Event", "time")], types={"timeout_event": lambda: Ref(Event)},
     inv=_POOL_INV)

# ---------------------------------------------------------------------------- E. bulkhead (loop contracts)
F_BH = "happysimulator/components/resilience/bulkhead.py"


def seq_nth(t, i):
    """t[i] for an in-range i, with concatenations / slices / units written out as a case split on i (the sequence
    solver is weak on nth(concat(extract ..)), which is what `del q[k]` and `q.popleft()` produce)"""
    from pyvc.comp import _nth, _len
    t = z3.simplify(t)
    if z3.is_app(t):
        k = t.decl().kind()
        if k == z3.Z3_OP_ITE:
            return z3.If(t.arg(0), seq_nth(t.arg(1), i), seq_nth(t.arg(2), i))
        if k == z3.Z3_OP_SEQ_UNIT:
            return t.arg(0)
        if k == z3.Z3_OP_SEQ_CONCAT:
            parts = t.children()
            offs, off = [], z3.IntVal(0)
            for p in parts:
                offs.append(off)
                off = off + _len(p)
            expr = seq_nth(parts[-1], i - offs[-1])
            for j in range(len(parts) - 2, -1, -1):
                expr = z3.If(i < offs[j + 1], seq_nth(parts[j], i - offs[j]), expr)
            return z3.simplify(expr)
    return _nth(t, i)


def bq_at(o, i, seq=None):
    return ObjProxy(seq_nth(seq_term(o._wait_queue if seq is None else seq), zi(i)), _K["WaitingRequest"], o._frozen)


def bq_id(o, i, seq=None):
    return mk_num(field_term(bq_at(o, i, seq), "request_id"))


# `for hook in event.on_complete: forwarded.add_completion_hook(hook)`: the forwarded event carries the bulkhead's
# own response hook first, then the caller's hooks in order
loop(F_BH, "Bulkhead._forward_request", 1, modifies=[("Event", "on_complete")], types={"hook": lambda: HOOK}, inv=[
    ("response-hook-first-then-the-callers-hooks", lambda L: (slen(L.forwarded.on_complete) == 1 + L.i)
        & mk_bool(seq_term(L.forwarded.on_complete)[0] == HOOK.unwrap(L.on_complete)))])
# `for i, waiting in enumerate(self._wait_queue): if waiting.request_id == request_id: del ...; return`
loop(F_BH, "Bulkhead._handle_timeout", 1, modifies=[("Bulkhead", "_wait_queue"), ("Bulkhead", "_timed_out_requests")],
     types={"i": lambda: Int, "waiting": lambda: Ref(_K["WaitingRequest"])}, inv=[
    ("nothing-removed-while-searching", lambda L: mk_bool(seq_term(L.self._wait_queue) == seq_term(L.old(L.self)._wait_queue))
        & (L.self._timed_out_requests == L.old(L.self)._timed_out_requests)),
    ("no-earlier-entry-is-the-request", lambda L: forall(Int, lambda j: implies(
        (0 <= j) & (j < L.i), bq_id(L.self, j) != L.request_id), "j"))])

# `for i, conn in enumerate(self._idle_connections): if conn.id == connection_id: ... break`: the idle timer searches
# the queue for the connection it was armed for; nothing changes while it searches
loop(F_POOL, "ConnectionPool._handle_idle_timeout", 1,
     modifies=[("ConnectionPool", "_idle_connections"), ("ConnectionPool", "_total_connections"), ("ConnectionPool", "_connections_closed")],
     types={"i": lambda: Int, "conn": lambda: Ref(_K["Connection"])}, inv=[
    ("nothing-closed-while-searching", lambda L: mk_bool(
        seq_term(L.self._idle_connections) == seq_term(L.old(L.self)._idle_connections))
        & (L.self._total_connections == L.old(L.self)._total_connections)
        & (L.self._connections_closed == L.old(L.self)._connections_closed)),
    ("no-earlier-entry-is-the-connection", lambda L: forall(Int, lambda j: implies(
        (0 <= j) & (j < L.i), mk_num(field_term(ObjProxy(seq_nth(seq_term(L.self._idle_connections), zi(j)), _K["Connection"]), "id"))
        != L.connection_id), "j"))])

from specs.common import *  # noqa: E402,F401
from specs.c09_meta import CTX, md_has, md_val  # noqa: E402

# Event.context as a typed record (overrides the opaque Map(Str, Any) of specs/common.py, this check only): the
# control events of Bulkhead / ConnectionPool carry request and connection ids in context["metadata"]
cls(Event, fields={"context": CTX})

from happysimulator.core.sim_future import SimFuture  # noqa: E402
from happysimulator.components import resource as _res  # noqa: E402
from happysimulator.components.resource import Resource, Grant  # noqa: E402

_K.update(RWaiter=_res._Waiter, SimFuture=SimFuture, Grant=Grant)

PROPERTY = {
    "id": "C09",
    "level": "proof",
    "trusted": ["heap typing of the fields declared in specs/C09.py and specs/common.py"],
    "assumptions": COMMON_ASSUMPTIONS + [
        "amounts and capacities (int | float) are modelled as reals",
        "SimFuture.resolve(v) on a pending future marks it resolved with value v and reschedules the parked "
        "process at the current time; it touches no state of the capacity primitive (stub contract; the future "
        "mechanics are property C02)",
        "futures handed out by Resource.acquire / PreemptibleResource.acquire are resolved only by the resource (clients "
        "do not call resolve() on them): needed for 'each waiter is granted at most once'",
        "an unreleased Grant's amount is one of the summands of g_held (class invariant of Grant / PreemptibleGrant; the "
        "ghost g_held is updated only where grants are created, released or preempted; lemma held-dominates-member)",
        "waiter callbacks and pool/preemption hooks (fields typed Fn) are opaque: a call returns nothing and has no effect "
        "on modelled state; the wake-up closures of the sync primitives only set their process' own flag (and, with the "
        "repair, resolve its own future)",
        "constructors of entities are verified 'as attached' (Entity.__init__ reduced to `self.name = name`; the clock is "
        "injected by the simulation before use)",
        "RWLock._has_waiting_writer returns exactly `some queued waiter is a writer` (stub: generator expression over a "
        "queue of symbolic length is out of reach)",
        "clients of Mutex/Condition release a lock only while holding it; therefore a lock that is held by, or queued for by, "
        "the suspended process stays locked across its yields, and a set wake-up flag means the releaser handed the lock "
        "over (rely clauses of Mutex.acquire / Condition.wait; loop invariant woken-means-the-lock-was-handed-over)",
        "ConnectionPool: LatencyDistribution.get_latency returns a non-negative Duration; _remove_waiter only removes "
        "entries (stub: generator expression out of reach); release() is called with the very Connection object that "
        "was lent out under that id (precondition released-object-is-the-one-lent-under-its-id); while a process is "
        "suspended in a connection set-up the other processes leave the slot it reserved alone (ghost assume after the "
        "set-up yield)",
        "PreemptibleResource._try_preempt only moves capacity from held grants back to available and does not touch the "
        "wait queue (stub: sorted(..., key=) over a list of symbolic length is out of reach); in acquire on the repaired "
        "tree _wake_waiters is used through its proved contract (effects on other processes' futures are not framed)",
        "Event.context is modelled as a typed record (specs/c09_meta.py, this check only): context['metadata'] with the keys "
        "request_id, connection_id, expected_last_used, _bh_request_id, _bh_name, processing_time; every other context key "
        "('id', 'created_at', tracing) is write-only for these components and not modelled",
        "Bulkhead control events (_bh_response / _bh_timeout) and pool idle timeouts are created by the component itself, so "
        "they carry the metadata keys it wrote (preconditions a-response-of-this-bulkhead / a-timeout-of-this-bulkhead / "
        "an-idle-timeout-armed-by-this-pool)",
        "Bulkhead._try_process_queued recurses: the nested call is replaced by the function's own contract (partial "
        "correctness; termination: the queue shrinks by one per call)",
        "the stubs RWLock._has_waiting_writer, ConnectionPool._remove_waiter and PreemptibleResource._try_preempt are "
        "additionally exercised by the bounded stand-in stubbed-helpers-and-close-all (triage/c09_bounded.py)",
        "ThreadPool: the processing-time extractor is an opaque pure callable; that tasks reach handle_queued_event in "
        "submission order is the queue/driver pipeline of QueuedResource (specs/C08.py part E)",
        "Condition.wait_for: the predicate is an opaque callable without effect on modelled state",
        "pyvc/loops.py fresh_only (added for this property): fields of objects a loop body allocates itself are havoc'd "
        "only for those objects; checked per iteration by the obligation `fresh-only:<Class.field>`",
    ],
}

# ============================================================================ A. Resource / Grant
cls(SimFuture, fields={"_resolved": Bool, "_value": Any, "_parked_process": Any, "_parked_event_type": Any,
                       "_parked_daemon": Bool, "_parked_target": Any, "_parked_on_complete": Any,
                       "_parked_context": Any, "_settle_callbacks": Seq(Any)},
    ghost={"g_vref": Int,       # the reference a future was resolved with (0 if not an object)
           "g_ticket": Int})    # arrival ticket of the blocked acquire() that returned this future
stub_of(SimFuture, "resolve", modifies=["_resolved", "_value", "g_vref"],
        requires=[("granted-at-most-once", lambda s: Not(s.self._resolved))],
        ensures=[lambda s: s.self._resolved,
                 lambda s: mk_bool(field_term(s.self, "_value") == Any.unwrap(s.value)),
                 lambda s: mk_bool(field_term(s.self, "g_vref") == (s.value._ref if isinstance(s.value, ObjProxy) else 0))])
RESOLVE = [(SimFuture, "resolve")]

cls(_res._Waiter, fields={"amount": Real, "future": Ref(SimFuture), "enqueue_time_ns": Int},
    const=["amount", "future", "enqueue_time_ns"])
cls(Resource, fields={"_capacity": Real, "_available": Real, "_waiters": Seq(Ref(_res._Waiter)),
                      "_acquisitions": Int, "_releases": Int, "_contentions": Int, "_total_wait_time_ns": Int,
                      "_peak_utilization": Real, "_peak_waiters": Int},
    ghost={"g_held": Real, "g_q0": Seq(Ref(_res._Waiter)), "g_total0": Real, "g_avail0": Real,
           "g_head": Int, "g_next": Int}, const=["_capacity"],
    inv=[("capacity-positive", lambda o: o._capacity > 0),
         ("never-over-admitted", lambda o: (0 <= o._available) & (o._available <= o._capacity)),
         ("held-plus-available-is-capacity", lambda o: o._available + o.g_held == o._capacity),
         ("queue-ok", queue_ok)])
# an unreleased grant is one of the summands of g_held (lemma held-dominates-member below)
cls(Grant, fields={"_resource": Ref(Resource), "_amount": Real, "_released": Bool}, const=["_resource", "_amount"],
    inv=[("unreleased-amount-is-part-of-held", lambda o: o._released | ((o._amount > 0) & (o._amount <= o._resource.g_held)))])


def _held_lemma():
    # g_held = sum of unreleased amounts (all > 0).  For a particular unreleased grant a: held = a + rest,
    # rest >= 0.  Creating a grant (rest += b) or releasing another one (rest = b + rest', rest' >= 0) keeps that.
    a, rest, b, rest2 = fresh(Real, "a"), fresh(Real, "rest"), fresh(Real, "b"), fresh(Real, "rest2")
    assume((a > 0) & (rest >= 0) & (b > 0) & (rest2 >= 0))
    oblige("member-at-most-sum", a <= a + rest)
    oblige("kept-by-another-grant", a <= (a + rest) + b)
    oblige("kept-by-another-release", implies(rest == b + rest2, a <= (a + rest) - b))


lemma("held-dominates-member", _held_lemma)


def _new_grant(s, g, amount):
    return (g._amount == amount) & Not(g._released) & same(g._resource, s.self)


_BAD_AMOUNT = {ValueError: [("only-bad-amount", lambda s: (s.amount <= 0) | (s.amount > s.self._capacity)),
                            ("frame", lambda s: unchanged(s, s.self))]}

# Constructors of entities are verified "as attached": Entity.__init__ leaves `_clock = None` until the
# simulation injects the clock, while specs/common.py types `_clock` as a present Clock (assumption 4 of
# COMMON_ASSUMPTIONS).  The setup replaces Entity.__init__ by its first statement only.
_ENTITY_INIT = [Entity.__init__]


def _attached(s):
    def _init(self, name):
        self.name = name
    Entity.__init__ = _init
    return []


def _detach(s):
    Entity.__init__ = _ENTITY_INIT[0]


ctor(Resource, args={"name": Str, "capacity": Real}, setup=_attached, teardown=_detach,
     ensures=[("starts-full-and-idle", lambda s: (s.self._available == s.capacity) & (s.self._capacity == s.capacity)
               & (slen(s.self._waiters) == 0))],
     raises={ValueError: [("only-nonpositive-capacity", lambda s: s.capacity <= 0)]})

fn(Resource, "try_acquire", args={"amount": Real}, ensures=[
    ("granted-iff-fits", lambda s: iff(s.result is not None, s.old(s.self)._available >= s.amount)),
    ("grant-takes-exactly-amount", lambda s: True if s.result is None else
        (s.self._available == s.old(s.self)._available - s.amount) & _new_grant(s, s.result, s.amount)),
    ("refusal-changes-nothing", lambda s: unchanged(s, s.self) if s.result is None else True),
    ("queue-untouched", lambda s: unchanged(s, s.self, "_waiters")),
   ], raises=_BAD_AMOUNT)


def _enqueued_last(s):
    oldq, newq = seq_term(s.old(s.self)._waiters), seq_term(s.self._waiters)
    last = newq[z3.Length(oldq)]
    w = ObjProxy(last, _res._Waiter)
    return mk_bool(newq == z3.Concat(oldq, z3.Unit(last))) & (w.amount == s.amount) & same(w.future, s.result)


def _value_is_new_grant(s):
    f = s.result
    gref = field_term(f, "g_vref")
    g = ObjProxy(gref, Grant)
    return mk_bool(field_term(f, "_value") == Any._f("ref", z3.IntSort())(gref)) & _new_grant(s, g, s.amount)


fn(Resource, "acquire", args={"amount": Real}, uses=RESOLVE, ensures=[
    ("immediate-iff-fits", lambda s: iff(s.result._resolved, s.old(s.self)._available >= s.amount)),
    ("immediate-takes-exactly-amount", lambda s: implies(s.result._resolved,
        (s.self._available == s.old(s.self)._available - s.amount) & unchanged(s, s.self, "_waiters"))),
    ("immediate-future-carries-grant-of-amount", lambda s: implies(s.result._resolved, _value_is_new_grant(s))),
    ("blocked-joins-the-tail-once", lambda s: implies(Not(s.result._resolved),
        _enqueued_last(s) & unchanged(s, s.self, "_available", "g_held"))),
    ("blocked-takes-the-next-arrival-ticket", lambda s: implies(Not(s.result._resolved),
        (s.result.g_ticket == s.old(s.self).g_next) & (s.self.g_next == s.old(s.self).g_next + 1)
        & (s.self.g_head == s.old(s.self).g_head))),
   ], raises=_BAD_AMOUNT)


def _head_does_not_fit(o):
    n = slen(o._waiters)
    return (n == 0) | (o._available < rw_amount(o, 0))


_WAKE_POST = [
    ("woken-in-arrival-order", lambda s: mk_bool(z3.SuffixOf(seq_term(s.self._waiters), seq_term(s.old(s.self)._waiters)))),
    # (that every waiter taken off the queue is the head and receives a grant of its own amount, once, is the
    #  step obligation `taken-waiter-is-the-head-and-gets-a-grant-of-its-amount` of the loop + the call-site
    #  obligation `granted-at-most-once` of SimFuture.resolve)
    ("granted-as-soon-as-capacity-allows", lambda s: _head_does_not_fit(s.self)),
]

fn(Resource, "_wake_waiters", uses=RESOLVE, ensures=_WAKE_POST + [
    ("conserved", lambda s: s.self._available + s.self.g_held == s.old(s.self)._available + s.old(s.self).g_held),
    ("only-hands-out", lambda s: s.self._available <= s.old(s.self)._available),
    ("no-new-arrivals", lambda s: s.self.g_next == s.old(s.self).g_next)])

# _do_release is the helper Grant.release calls after taking the grant out of g_held: on its own it moves
# `amount` from "held by nobody yet accounted" to available, so it is specified without the class invariant
fn(Resource, "_do_release", args={"amount": Real}, uses=RESOLVE, inv=False,
   requires=[lambda s: s.self._capacity > 0, lambda s: (0 <= s.self._available) & (s.self._available <= s.self._capacity),
             lambda s: s.amount > 0, lambda s: queue_ok(s.self)],
   ensures=[("never-above-capacity", lambda s: (0 <= s.self._available) & (s.self._available <= s.self._capacity)),
            ("amount-returned-exactly", lambda s: s.self._available + s.self.g_held
                == s.old(s.self)._available + s.old(s.self).g_held + s.amount),
            ("queue-ok", lambda s: queue_ok(s.self))] + _WAKE_POST,
   raises={ValueError: [("only-when-it-would-exceed-capacity", lambda s: s.old(s.self)._available + s.amount > s.self._capacity),
                        ("state-unchanged", lambda s: unchanged(s, s.self))]})

fn(Grant, "release", uses=RESOLVE, focus=lambda s: [s.self._resource], ensures=[
    ("idempotent", lambda s: implies(s.old(s.self)._released, unchanged(s, s.self._resource) & s.self._released)),
    ("released", lambda s: s.self._released),
    ("amount-leaves-held-once", lambda s: implies(Not(s.old(s.self)._released),
        s.self._resource._available + s.self._resource.g_held
        == s.old(s.self._resource)._available + s.old(s.self._resource).g_held)),
    ("waiters-served-in-order", lambda s: implies(Not(s.old(s.self)._released), mk_bool(
        z3.SuffixOf(seq_term(s.self._resource._waiters), seq_term(s.old(s.self._resource)._waiters))))),
    ("granted-as-soon-as-capacity-allows", lambda s: implies(Not(s.old(s.self)._released),
        _head_does_not_fit(s.self._resource))),
])

# ============================================================================ B. Mutex / Semaphore
from happysimulator.components.sync import mutex as _mut, semaphore as _sem  # noqa: E402
from happysimulator.components.sync.mutex import Mutex  # noqa: E402
from happysimulator.components.sync.semaphore import Semaphore  # noqa: E402

_K.update(SWaiter=_sem._Waiter, MWaiter=_mut._Waiter)
WAKE = Fn(None, "wake")
OPTSTR = Opt(Str)


def no_calls():
    return len(fn_calls()) == 0


def tail_of(new, old):
    """new == old[1:]"""
    return mk_bool(seq_term(old) == z3.Concat(z3.Unit(seq_term(old)[0]), seq_term(new))) & (slen(old) >= 1)


cls(_mut._Waiter, fields={"callback": WAKE, "enqueue_time_ns": Int}, const=["callback", "enqueue_time_ns"])
cls(Mutex, fields={"_locked": Bool, "_waiters": Seq(Ref(_mut._Waiter)), "_owner": OPTSTR, "_acquisitions": Int,
                   "_contentions": Int, "_releases": Int, "_total_wait_time_ns": Int},
    ghost={"g_holders": Int},
    inv=[("locked-iff-exactly-one-holder", lambda o: o.g_holders == ite(o._locked, 1, 0)),
         ("nobody-waits-for-a-free-lock", lambda o: o._locked | (slen(o._waiters) == 0))])

fn(Mutex, "try_acquire", args={"owner": OPTSTR}, ensures=[
    ("acquired-iff-was-free", lambda s: iff(s.result, Not(s.old(s.self)._locked))),
    ("locked-afterwards", lambda s: s.self._locked),
    ("refusal-changes-nothing", lambda s: implies(Not(s.result), unchanged(s, s.self))),
    ("queue-untouched", lambda s: unchanged(s, s.self, "_waiters"))])


def _mutex_release_post(s):
    old = s.old(s.self)
    head_cb = field_term(ObjProxy(seq_term(old._waiters)[0], _mut._Waiter, old._frozen), "callback")
    handed = tail_of(s.self._waiters, old._waiters) & s.self._locked & only_call_is(head_cb)
    freed = Not(s.self._locked) & no_calls() & (slen(s.self._waiters) == 0)
    return implies(slen(old._waiters) > 0, handed) & implies(slen(old._waiters) == 0, freed)


fn(Mutex, "release", ensures=[
    ("hands-over-to-the-longest-waiter-exactly-once-or-frees", _mutex_release_post),
    ("one-release-counted", lambda s: s.self._releases == s.old(s.self)._releases + 1)],
   raises={RuntimeError: [("only-when-not-locked", lambda s: Not(s.old(s.self)._locked)),
                          ("frame", lambda s: unchanged(s, s.self))]})

cls(_sem._Waiter, fields={"count": Int, "callback": WAKE, "enqueue_time_ns": Int}, const=["count", "callback", "enqueue_time_ns"])
cls(Semaphore, fields={"_count": Int, "_capacity": Int, "_waiters": Seq(Ref(_sem._Waiter)), "_acquisitions": Int,
                       "_releases": Int, "_contentions": Int, "_total_wait_time_ns": Int, "_peak_waiters": Int},
    ghost={"g_held": Int, "g_q0": Seq(Ref(_sem._Waiter)), "g_total0": Int, "g_avail0": Int}, const=["_capacity"],
    inv=[("capacity-positive", lambda o: o._capacity >= 1),
         ("never-over-admitted", lambda o: (0 <= o._count) & (o._count <= o._capacity)),
         ("held-plus-available-is-capacity", lambda o: o._count + o.g_held == o._capacity),
         ("queue-ok", sem_queue_ok)])

_BAD_COUNT = {ValueError: [("only-bad-count", lambda s: s.count < 1), ("frame", lambda s: unchanged(s, s.self))]}

fn(Semaphore, "try_acquire", args={"count": Int}, ensures=[
    ("granted-iff-fits", lambda s: iff(s.result, s.old(s.self)._count >= s.count)),
    ("grant-takes-exactly-count", lambda s: s.self._count == s.old(s.self)._count - ite(s.result, s.count, 0)),
    ("queue-untouched", lambda s: unchanged(s, s.self, "_waiters"))], raises=_BAD_COUNT)


def _sem_head_does_not_fit(o):
    return (slen(o._waiters) == 0) | (o._count < mk_num(field_term(sw_at(o, 0), "count")))


_SEM_WAKE_POST = [
    ("woken-in-arrival-order", lambda s: mk_bool(z3.SuffixOf(seq_term(s.self._waiters), seq_term(s.old(s.self)._waiters)))),
    ("granted-as-soon-as-capacity-allows", lambda s: _sem_head_does_not_fit(s.self))]

fn(Semaphore, "_wake_waiters", ensures=_SEM_WAKE_POST + [
    ("conserved", lambda s: s.self._count + s.self.g_held == s.old(s.self)._count + s.old(s.self).g_held)])

fn(Semaphore, "release", args={"count": Int}, ensures=_SEM_WAKE_POST + [
    ("permits-returned-exactly", lambda s: s.self.g_held + s.self._count == s.old(s.self).g_held + s.old(s.self)._count)],
   raises={ValueError: [("only-bad-count-or-above-capacity", lambda s: (s.count < 1) | (s.old(s.self)._count + s.count > s.self._capacity)),
                        ("frame", lambda s: unchanged(s, s.self))]})

# ============================================================================ B2. RWLock
from pyvc import ctx as _pctx  # noqa: E402
from happysimulator.components.sync import rwlock as _rwl, barrier as _bar, condition as _cnd  # noqa: E402
from happysimulator.components.sync.rwlock import RWLock  # noqa: E402
from happysimulator.components.sync.barrier import Barrier  # noqa: E402
from happysimulator.components.sync.condition import Condition  # noqa: E402


class EnumTy(T.Ty):
    """a field holding a member of a Python Enum: Int index of the member (as in specs/C19.py)"""

    def __init__(self, enum):
        self.enum = enum
        self.members = list(enum)
        self.name = f"Enum({enum.__name__})"

    def sort(self):
        return z3.IntSort()

    def assume_wf(self, term):
        _pctx.cur().assume(z3.And(term >= 0, term < len(self.members)))

    def wrap(self, term, loc=None):
        term = z3.simplify(term)
        if z3.is_int_value(term):
            return self.members[term.as_long()]
        k = _pctx.cur().choose([term == i for i in range(len(self.members))], site="enum:" + self.name)
        return self.members[k]

    def unwrap(self, v):
        if isinstance(v, self.enum):
            return z3.IntVal(self.members.index(v))
        raise OutOfReach(f"{type(v).__name__} stored where {self.name} is declared")

    def concretize(self, model, term):
        v = model.eval(term, model_completion=True).as_long()
        return str(self.members[min(max(v, 0), len(self.members) - 1)])


WTYPE = EnumTy(_rwl._WaiterType)
assert WTYPE.members.index(_rwl._WaiterType.READER) == 0 and WTYPE.members.index(_rwl._WaiterType.WRITER) == 1
cls(_rwl._Waiter, fields={"waiter_type": WTYPE, "callback": WAKE, "enqueue_time_ns": Int},
    const=["waiter_type", "callback", "enqueue_time_ns"])
cls(RWLock, fields={"_max_readers": Opt(Int), "_active_readers": Int, "_write_locked": Bool, "_waiters": Seq(Ref(_rwl._Waiter)),
                    "_read_acquisitions": Int, "_write_acquisitions": Int, "_read_releases": Int, "_write_releases": Int,
                    "_read_contentions": Int, "_write_contentions": Int, "_total_read_wait_ns": Int,
                    "_total_write_wait_ns": Int, "_peak_readers": Int},
    ghost={"g_q0": Seq(Ref(_rwl._Waiter)), "g_r0": Int}, const=["_max_readers"],
    inv=[("writer-excludes-everyone", lambda o: implies(o._write_locked, o._active_readers == 0)),
         ("readers-within-limit", lambda o: (o._active_readers >= 0) & rw_max_ok(o))])


def rww_at(o, i):
    return ObjProxy(seq_term(o._waiters)[zi(i)], _rwl._Waiter, o._frozen)


def rw_is_writer(o, i):
    return mk_bool(field_term(rww_at(o, i), "waiter_type") == 1)


def rw_writer_waiting(o):
    return exists(Int, lambda i: (0 <= i) & (i < slen(o._waiters)) & rw_is_writer(o, i))


# the body is `any(w.waiter_type == WRITER for w in self._waiters)`: a generator expression over a queue of
# symbolic length is out of reach, so its (evident) meaning is assumed
stub_of(RWLock, "_has_waiting_writer", returns=Bool, modifies=[], ensures=[lambda s: iff(s.result, rw_writer_waiting(s.self))])
HWW = [(RWLock, "_has_waiting_writer")]


def rw_room(o):
    m = o._max_readers
    if m is None:
        return True
    return o._active_readers < m


fn(RWLock, "try_acquire_read", uses=HWW, ensures=[
    ("readers-excluded-by-writer-holding-or-waiting", lambda s: iff(s.result,
        Not(s.old(s.self)._write_locked) & Not(rw_writer_waiting(s.old(s.self))) & rw_room(s.old(s.self)))),
    ("one-more-reader-iff-granted", lambda s: s.self._active_readers == s.old(s.self)._active_readers + ite(s.result, 1, 0)),
    ("rest-untouched", lambda s: unchanged(s, s.self, "_write_locked", "_waiters"))])

fn(RWLock, "try_acquire_write", ensures=[
    ("writer-needs-the-lock-empty", lambda s: iff(s.result, Not(s.old(s.self)._write_locked) & (s.old(s.self)._active_readers == 0))),
    ("write-locked-iff-granted-or-was", lambda s: iff(s.self._write_locked, s.result | s.old(s.self)._write_locked)),
    ("rest-untouched", lambda s: unchanged(s, s.self, "_active_readers", "_waiters"))])


def _rw_head_blocked(o):
    """nobody at the head of the queue could be admitted right now"""
    n = slen(o._waiters)
    m = o._max_readers
    full = False if m is None else (o._active_readers >= m)
    return (n == 0) | o._write_locked | (rw_is_writer(o, 0) & (o._active_readers > 0)) | (Not(rw_is_writer(o, 0)) & full)


_RW_WAKE_POST = [
    ("woken-in-arrival-order", lambda s: mk_bool(z3.SuffixOf(seq_term(s.self._waiters), seq_term(s.old(s.self)._waiters)))),
    ("granted-as-soon-as-the-lock-allows", lambda s: _rw_head_blocked(s.self)),
    ("a-woken-writer-is-alone", lambda s: implies(s.self._write_locked & Not(s.old(s.self)._write_locked),
        (s.self._active_readers == 0) & tail_of(s.self._waiters, s.old(s.self)._waiters)
        & only_call_is(field_term(rww_at(s.old(s.self), 0), "callback")))),
    ("woken-readers-are-counted", lambda s: implies(Not(s.self._write_locked),
        s.self._active_readers - s.old(s.self)._active_readers == slen(s.old(s.self)._waiters) - slen(s.self._waiters))),
]

fn(RWLock, "_wake_waiters", ensures=_RW_WAKE_POST)
fn(RWLock, "release_read", ensures=[
    ("granted-as-soon-as-the-lock-allows", lambda s: _rw_head_blocked(s.self)),
    ("woken-in-arrival-order", lambda s: mk_bool(z3.SuffixOf(seq_term(s.self._waiters), seq_term(s.old(s.self)._waiters))))],
   raises={RuntimeError: [("only-without-readers", lambda s: s.old(s.self)._active_readers < 1),
                          ("frame", lambda s: unchanged(s, s.self))]})
fn(RWLock, "release_write", ensures=[
    ("granted-as-soon-as-the-lock-allows", lambda s: _rw_head_blocked(s.self)),
    ("woken-in-arrival-order", lambda s: mk_bool(z3.SuffixOf(seq_term(s.self._waiters), seq_term(s.old(s.self)._waiters))))],
   raises={RuntimeError: [("only-when-not-write-locked", lambda s: Not(s.old(s.self)._write_locked)),
                          ("frame", lambda s: unchanged(s, s.self))]})

# ============================================================================ B3. Barrier / Condition
cls(_bar._BarrierWaiter, fields={"callback": WAKE, "enqueue_time_ns": Int}, const=["callback", "enqueue_time_ns"])
cls(Barrier, fields={"_parties": Int, "_waiters": Seq(Ref(_bar._BarrierWaiter)), "_generation": Int, "_broken": Bool,
                     "_wait_calls": Int, "_barrier_breaks": Int, "_resets": Int, "_total_wait_time_ns": Int},
    ghost={"g_q0": Seq(Ref(_bar._BarrierWaiter))}, const=["_parties"],
    inv=[("parties-positive", lambda o: o._parties >= 1),
         # a generation is released the moment its last party arrives: never `parties` processes left waiting
         ("fewer-waiters-than-parties", lambda o: slen(o._waiters) < o._parties)])

_ALL_RELEASED = ("every-waiter-released", lambda s: slen(s.self._waiters) == 0)
fn(Barrier, "_break_barrier", args={"trigger_time_ns": Int}, ensures=[
    _ALL_RELEASED, ("next-generation", lambda s: s.self._generation == s.old(s.self)._generation + 1),
    ("one-break-counted", lambda s: s.self._barrier_breaks == s.old(s.self)._barrier_breaks + 1)])
fn(Barrier, "reset", ensures=[
    _ALL_RELEASED, ("next-generation", lambda s: s.self._generation == s.old(s.self)._generation + 1),
    ("usable-again", lambda s: Not(s.self._broken))])
fn(Barrier, "abort", ensures=[
    _ALL_RELEASED, ("broken", lambda s: s.self._broken), ("same-generation", lambda s: unchanged(s, s.self, "_generation"))])

cls(_cnd._Waiter, fields={"callback": WAKE, "enqueue_time_ns": Int}, const=["callback", "enqueue_time_ns"])
cls(Condition, fields={"_lock": Ref(Mutex), "_waiters": Seq(Ref(_cnd._Waiter)), "_waits": Int, "_notifies": Int,
                       "_notify_alls": Int, "_wakeups": Int, "_total_wait_time_ns": Int},
    ghost={"g_q0": Seq(Ref(_cnd._Waiter))}, const=["_lock"])


def _notify_post(s):
    n0 = slen(s.old(s.self)._waiters)
    woken = n0 - slen(s.self._waiters)
    k = ite(s.n < 0, 0, ite(s.n < n0, s.n, n0))        # min(max(n, 0), waiting)
    return (woken == k) & (s.self._wakeups == s.old(s.self)._wakeups + k)


fn(Condition, "notify", args={"n": Int}, ensures=[
    ("wakes-the-n-longest-waiting", lambda s: mk_bool(z3.SuffixOf(seq_term(s.self._waiters), seq_term(s.old(s.self)._waiters)))),
    ("exactly-min-n-waiting", _notify_post)])
fn(Condition, "notify_all", ensures=[
    ("wakes-everyone", lambda s: slen(s.self._waiters) == 0),
    ("counted", lambda s: s.self._wakeups == s.old(s.self)._wakeups + slen(s.old(s.self)._waiters))])

# ============================================================================ B4. blocking acquire / wait generators
_K.update(Mutex=Mutex, Semaphore=Semaphore, RWLock=RWLock, Barrier=Barrier, Condition=Condition)


def parks_or_progresses(just_acquired):
    """'waiting consumes no simulated activity, so the clock advances to the release': a process suspends either
    on a future (woken by the releaser), or for a positive delay, or - once - for zero delay right after it
    obtained what it asked for.  A blocked process that re-schedules itself at zero delay keeps the event heap
    busy at the current instant for ever (findings/c09_spin_wait.py)."""
    def clause(s, y):
        granted = take_granted()                       # ghost mark set right before the fast-path yield
        if isinstance(y, ObjProxy):                    # a SimFuture
            return True
        return (y > 0) | ((y == 0) & granted)
    return ("blocked-process-parks-instead-of-polling-at-zero-delay", clause)


_CLOCK_RELY = lambda s, b, y: ns(s.self._clock._current_time) >= ns(b.pre(s.self._clock)._current_time)      # noqa: E731
_STABLE = [("Entity", "_clock")]

fn(Mutex, "acquire", args={"owner": OPTSTR}, uses=RESOLVE,
   yields=Yields(at_yield=[parks_or_progresses(lambda s: s.self._acquisitions == s.pre(s.self)._acquisitions + 1)],
                 stable=_STABLE, rely=[_CLOCK_RELY,
                     # while this process holds the lock or waits in its queue, nobody unlocks it (release hands over)
                     lambda s, b, y: implies(b.pre(s.self)._locked, s.self._locked)]),
   ensures=[("caller-holds-the-lock-on-return", lambda s: s.self._locked)])

fn(Semaphore, "acquire", args={"count": Int}, uses=RESOLVE,
   yields=Yields(at_yield=[parks_or_progresses(lambda s: s.self._acquisitions == s.pre(s.self)._acquisitions + s.count)],
                 stable=_STABLE, rely=[_CLOCK_RELY]),
   ensures=[],
   raises={ValueError: [("only-bad-count", lambda s: (s.count < 1) | (s.count > s.self._capacity)),
                        ("frame", lambda s: unchanged(s, s.self))]})

fn(RWLock, "acquire_read", uses=HWW + RESOLVE,
   yields=Yields(at_yield=[parks_or_progresses(lambda s: s.self._read_acquisitions == s.pre(s.self)._read_acquisitions + 1)],
                 stable=_STABLE, rely=[_CLOCK_RELY]), ensures=[])
fn(RWLock, "acquire_write", uses=RESOLVE,
   yields=Yields(at_yield=[parks_or_progresses(lambda s: s.self._write_acquisitions == s.pre(s.self)._write_acquisitions + 1)],
                 stable=_STABLE, rely=[_CLOCK_RELY]), ensures=[])

fn(Barrier, "wait", uses=RESOLVE,
   yields=Yields(at_yield=[parks_or_progresses(lambda s: False)], stable=_STABLE, rely=[_CLOCK_RELY]),
   ensures=[("arrival-index-in-range", lambda s: (0 <= s.result) & (s.result < s.self._parties)),
            # the last party of a generation releases everybody at once, without suspending
            ("last-arrival-releases-exactly-the-generation", lambda s: implies(
                slen(s.old(s.self)._waiters) + 1 >= s.self._parties,
                (slen(s.old(s.self)._waiters) + 1 == s.self._parties) & (slen(s.self._waiters) == 0)
                & (s.self._generation == s.old(s.self)._generation + 1) & (s.result == 0)))],
   raises={RuntimeError: []})

fn(Condition, "wait", uses=RESOLVE, focus=lambda s: [s.self._lock],
   yields=Yields(at_yield=[parks_or_progresses(lambda s: s.self._lock._acquisitions == s.pre(s.self._lock)._acquisitions + 1)],
                 stable=_STABLE + [("Condition", "_lock")], rely=[_CLOCK_RELY,
                     lambda s, b, y: implies(b.pre(s.self._lock)._locked, s.self._lock._locked)]),
   requires=[("caller-holds-the-lock", lambda s: s.self._lock._locked)],
   ensures=[("lock-reacquired-on-return", lambda s: s.self._lock._locked)],
   raises={RuntimeError: []})

PREDICATE = Fn(Bool, "predicate")


def _wait_for_result(s):
    """True only right after the predicate held; False only after the timeout elapsed on the simulated clock"""
    calls = fn_calls()
    if s.result is True or s.result is False:
        res = s.result
    else:
        return False
    if res:
        return (len(calls) >= 1) and (calls[-1][3] == True)     # noqa: E712  (symbolic comparison)
    if s.timeout is None:
        return False
    return (now_ns(s.self) - ns(s.old(s.self._clock)._current_time)) >= s.timeout * 1000000000


fn(Condition, "wait_for", args={"predicate": PREDICATE, "timeout": Opt(Real)}, uses=RESOLVE, focus=lambda s: [s.self._lock],
   yields=Yields(at_yield=[parks_or_progresses(lambda s: False)],
                 stable=_STABLE + [("Condition", "_lock")], rely=[_CLOCK_RELY,
                     lambda s, b, y: implies(b.pre(s.self._lock)._locked, s.self._lock._locked)]),
   ensures=[("lock-held-on-return", lambda s: s.self._lock._locked),
            ("true-after-the-predicate-held--false-only-after-the-timeout", _wait_for_result)],
   raises={RuntimeError: [("only-when-called-without-the-lock", lambda s: Not(s.old(s.self._lock)._locked))]})

# ============================================================================ C. ConnectionPool
from happysimulator.components.client import connection_pool as _cp  # noqa: E402
from happysimulator.components.client.connection_pool import ConnectionPool, Connection  # noqa: E402
from happysimulator.distributions.latency_distribution import LatencyDistribution  # noqa: E402

_K.update(Connection=Connection, ConnectionPool=ConnectionPool)
cls(LatencyDistribution, fields={"_mean_latency": Real})
stub_of(LatencyDistribution, "get_latency", returns=DURATION, modifies=[], ensures=[lambda s: s.result.nanoseconds >= 0])
GET_LAT = [(LatencyDistribution, "get_latency")]

cls(Connection, fields={"id": Int, "created_at": TIME, "last_used_at": TIME, "is_active": Bool}, ghost={"g_slot": Int},
    const=["id", "created_at"])
POOL_CB = Fn(None, "pool_cb")
POOL_WAITER = Tuple(Int, TIME, POOL_CB)
_POOL_CONST = ["_target", "_min_connections", "_max_connections", "_connection_timeout", "_idle_timeout",
               "_connection_latency", "_on_acquire", "_on_release", "_on_timeout"]
cls(ConnectionPool, fields={
    "_target": Ref(Entity), "_min_connections": Int, "_max_connections": Int, "_connection_timeout": Real,
    "_idle_timeout": Real, "_connection_latency": Ref(LatencyDistribution), "_on_acquire": Opt(POOL_CB),
    "_on_release": Opt(POOL_CB), "_on_timeout": Opt(POOL_CB), "_idle_connections": Seq(Ref(Connection)),
    "_active_connections": Map(Int, Ref(Connection)), "_next_connection_id": Int, "_total_connections": Int,
    "_waiters": Seq(POOL_WAITER), "_next_waiter_id": Int, "_connections_created": Int, "_connections_closed": Int,
    "_acquisitions": Int, "_releases": Int, "_timeouts": Int, "_total_wait_time": Real},
    ghost={"g_pending": Int, "g_owner": Map(Int, Ref(Connection)), "g_ihead": Int, "g_inext": Int}, const=_POOL_CONST,
    inv=[("config", lambda o: (o._min_connections >= 0) & (o._max_connections >= 1) & (o._max_connections >= o._min_connections)
          & (o._connection_timeout > 0) & (o._idle_timeout > 0)),
         # the limit: connections that exist or are being set up never exceed max_connections
         ("never-more-connections-than-max", lambda o: o._total_connections <= o._max_connections),
         # conservation: every counted connection is lent out, idle, or still being set up
         ("active-plus-idle-plus-pending-is-total", lambda o:
             slen(o._active_connections) + slen(o._idle_connections) + o.g_pending == o._total_connections),
         ("pending-nonneg", lambda o: o.g_pending >= 0),
         # active and idle are disjoint, ids are issued once: lent-out ids were issued, an idle connection is not lent out
         ("lent-ids-were-issued", lambda o: forall(Int, lambda k: implies(
             contains(o._active_connections, k),
             (1 <= k) & (k <= o._next_connection_id) & owner_is(o, k, map_val(o._active_connections, k))), "k")
             & (o._next_connection_id >= 0)),
         ("idle-connection-is-not-lent-out", lambda o: forall(Int, lambda i: also_at(i + 1) & implies(
                 (0 <= i) & (i < slen(o._idle_connections)),
                 Not(contains(o._active_connections, idle_id(o, i))) & (1 <= idle_id(o, i))
                 & (idle_id(o, i) <= o._next_connection_id) & allocated(idle_at(o, i))
                 & owner_is(o, idle_id(o, i), idle_at(o, i)._ref)
                 & (idle_slot(o, i) < o.g_inext)), "i")),
         # the entries of the idle queue are pairwise different connections: their parking tickets (issued at the tail,
         # never reused) increase along the queue - also after the idle timer took an entry out of the middle
         ("idle-connections-are-distinct", lambda o: forall(Int, lambda i: forall(Int, lambda j: also_at(i + 1) & also_at(j + 1)
             & implies((0 <= i) & (i < j) & (j < slen(o._idle_connections)), idle_slot(o, i) < idle_slot(o, j)), "j"), "i"))])


def idle_slot(o, i):
    return mk_num(field_term(idle_at(o, i), "g_slot"))


def map_val(d, k):
    return z3.Select(d._ty.dt.val(d.term), zi(k))


def owner_is(o, k, ref):
    """connection `ref` is the one created under id k"""
    return contains(o.g_owner, k) & mk_bool(map_val(o.g_owner, k) == ref)


def idle_at(o, i):
    return ObjProxy(seq_nth(seq_term(o._idle_connections), zi(i)), Connection, o._frozen)


def idle_id(o, i):
    return mk_num(field_term(idle_at(o, i), "id"))


# body: `deque(t for t in self._waiters if t[0] != waiter_id)` - a generator expression over a queue of symbolic
# length is out of reach; assumed: it only removes entries
stub_of(ConnectionPool, "_remove_waiter", modifies=["_waiters"],
        ensures=[lambda s: slen(s.self._waiters) <= slen(s.old(s.self)._waiters)])


# (the rely "my reserved slot is still counted when I resume" is the ghost assume after the set-up yield above)
_POOL_YIELDS = dict(
    stable=[("Entity", "_clock")],
    rely=[lambda s, b, y: ns(s.self._clock._current_time) >= ns(b.pre(s.self._clock)._current_time)])


def _lent_out(s, c):
    """connection c is lent out: registered under its id in the active table"""
    a = s.self._active_connections
    return contains(a, c.id) & mk_bool(z3.Select(a._ty.dt.val(a.term), zi(c.id)) == c._ref) & c.is_active


def _yielded_in(fname):
    """path predicate: this path suspended at a yield of function `fname`"""
    return any(p[0] == "yield" and str(p[1]).startswith(fname + ":") for p in _pctx.cur().sig if isinstance(p, tuple))


POOL_USES = GET_LAT + [(ConnectionPool, "_remove_waiter")]
fn(ConnectionPool, "acquire", uses=POOL_USES,
   yields=Yields(at_yield=[("delay-nonnegative", lambda s, y: y >= 0)], **_POOL_YIELDS),
   ensures=[("returns-a-connection", lambda s: s.result is not None),
            # reused idle connection / freshly created one: lent out to the caller when acquire returns
            # (a connection handed over by release() was registered by the releaser while this process slept)
            ("connection-is-lent-to-the-caller", lambda s: True if _yielded_in("acquire") else _lent_out(s, s.result)),
            ("idle-connections-reused-first", lambda s: implies(slen(s.old(s.self)._idle_connections) > 0,
                mk_bool(s.result._ref == seq_term(s.old(s.self)._idle_connections)[0]) & (not _yielded_in("_create_connection"))))],
   raises={TimeoutError: []})      # giving up after connection_timeout is allowed (invariants still checked)


fn(ConnectionPool, "_handle_warmup", args={"event": Ref(Event)}, uses=GET_LAT,
   yields=Yields(at_yield=[("delay-nonnegative", lambda s, y: y >= 0)], **_POOL_YIELDS),
   ensures=[("warmed-up-to-min", lambda s: s.self._total_connections >= s.self._min_connections)])


def _release_post(s):
    old = s.old(s.self)
    known = contains(old._active_connections, s.connection.id)
    had_waiters = slen(old._waiters) > 0
    cb0 = POOL_WAITER.acc(2)(seq_term(old._waiters)[0])
    handed = tail_of(s.self._waiters, old._waiters) & _lent_out(s, s.connection) \
        & unchanged(s, s.self, "_idle_connections", "_total_connections") & (len(s.result) == 0)
    idle = mk_bool(seq_term(s.self._idle_connections) == z3.Concat(seq_term(old._idle_connections), z3.Unit(s.connection._ref))) \
        & Not(contains(s.self._active_connections, s.connection.id)) & Not(s.connection.is_active) \
        & unchanged(s, s.self, "_total_connections", "_waiters")
    return implies(Not(known), unchanged(s, s.self) & (len(s.result) == 0)) \
        & implies(known & had_waiters, handed) & implies(known & Not(had_waiters), idle)


fn(ConnectionPool, "release", args={"connection": Ref(Connection)},
   requires=[("released-object-is-the-one-lent-under-its-id", lambda s: Not(contains(s.self._active_connections, s.connection.id))
              | mk_bool(map_val(s.self._active_connections, s.connection.id) == s.connection._ref))],
   ensures=[
    ("handed-to-the-longest-waiter-or-parked-idle", _release_post),
    ("held-connections-conserved", lambda s: slen(s.self._active_connections) + slen(s.self._idle_connections)
        == slen(s.old(s.self)._active_connections) + slen(s.old(s.self)._idle_connections))])


def _idle_timer_post(s):
    """the idle timer closes at most the ONE idle connection it was armed for (same id, not used since), keeps the
    warm minimum, and never touches a lent-out connection"""
    old = s.old(s.self)
    ctx = field_term(s.event, "context")
    cid, stamp = md_val(ctx, "connection_id"), md_val(ctx, "expected_last_used")
    n = slen(old._idle_connections)
    d = n - slen(s.self._idle_connections)
    old_t = seq_term(old._idle_connections)

    def armed(k):
        return (idle_id(old, k) == cid) & (ns(idle_at(old, k).last_used_at) == ns(stamp))
    removed = exists(Int, lambda k: (0 <= k) & (k < n) & armed(k) & mk_bool(
        seq_term(s.self._idle_connections) == z3.Concat(z3.Extract(old_t, z3.IntVal(0), zi(k)),
                                                        z3.Extract(old_t, zi(k) + 1, zi(n) - zi(k) - 1))))
    return ((d == 0) | (d == 1)) \
        & (s.self._total_connections == old._total_connections - d) & (s.self._connections_closed == old._connections_closed + d) \
        & implies(d == 1, (old._total_connections > s.self._min_connections) & removed) \
        & implies(d == 0, unchanged(s, s.self)) \
        & implies(forall(Int, lambda k: implies((0 <= k) & (k < n), Not(armed(k))), "k"), d == 0)


fn(ConnectionPool, "_handle_idle_timeout", args={"event": Ref(Event)},
   requires=[("an-idle-timeout-armed-by-this-pool", lambda s: md_has(field_term(s.event, "context"), "connection_id")
              & md_has(field_term(s.event, "context"), "expected_last_used"))],
   ensures=[
    ("closes-at-most-the-idle-connection-it-was-armed-for", _idle_timer_post),
    ("an-active-connection-is-never-closed-by-the-idle-timer", lambda s: unchanged(s, s.self, "_active_connections", "g_pending")),
    ("re-arms-itself-only-when-it-kept-the-connection", lambda s: True if s.result is None else
        ((len(s.result) == 1) & (s.result[0].event_type == "_pool_idle_timeout") & same(s.result[0].target, s.self)
         & unchanged(s, s.self)))])

# ============================================================================ D. PreemptibleResource
from happysimulator.components.industrial import preemptible_resource as _pre  # noqa: E402
from happysimulator.components.industrial.preemptible_resource import PreemptibleResource, PreemptibleGrant  # noqa: E402

PREEMPT_CB = Fn(None, "on_preempt")
PW = valueclass("PriorityWaiter", [_pre._PriorityWaiter], [("priority", Real), ("insert_order", Int), ("amount", Int),
                                                            ("future", Ref(SimFuture)), ("on_preempt", Opt(PREEMPT_CB))])
PHEAP = Bag(PW, pw_lt)
_K.update(PW=PW, PHEAP=PHEAP, PGrant=PreemptibleGrant)
PROPERTY["trusted"].append("heapq contract (pyvc/bag.py): heappush adds one occurrence; heappop removes and returns an element "
                           "with no remaining element below it; h[0] is such an element")

cls(PreemptibleResource, fields={"_capacity": Int, "_available": Int, "_active_grants": Seq(Ref(PreemptibleGrant)),
                                 "_waiters": PHEAP, "_insert_counter": Int, "_acquisitions": Int, "_releases": Int,
                                 "_preemptions": Int, "_contentions": Int},
    ghost={"g_held": Int, "g_total0": Int, "g_avail0": Int}, const=["_capacity"],
    inv=[("capacity-positive", lambda o: o._capacity > 0),
         ("never-over-admitted", lambda o: (0 <= o._available) & (o._available <= o._capacity)),
         ("held-plus-available-is-capacity", lambda o: o._available + o.g_held == o._capacity),
         ("queue-ok", pre_queue_ok),
         ("granted-as-soon-as-capacity-allows", pre_head_blocked)])
cls(PreemptibleGrant, fields={"_resource": Ref(PreemptibleResource), "_amount": Int, "_priority": Real, "_released": Bool,
                              "_preempted": Bool, "_on_preempt": Opt(PREEMPT_CB)},
    const=["_resource", "_amount", "_priority", "_on_preempt"],
    inv=[("unreleased-amount-is-part-of-held", lambda o: o._released | ((o._amount > 0) & (o._amount <= o._resource.g_held))),
         ("preempted-implies-released", lambda o: implies(o._preempted, o._released))])

fn(_pre._PriorityWaiter, "__lt__", self_ty=PW, args={"other": PW}, inv=False, ensures=[
    ("is-the-heap-order", lambda s: iff(s.result, mk_bool(pw_lt(PW.unwrap(s.self), PW.unwrap(s.other)))))])

# _try_preempt sorts a filtered copy of the grant list by priority (`sorted(..., key=...)` over a list of symbolic
# length: out of reach).  Assumed: it only moves capacity from held grants back to available.
stub_of(PreemptibleResource, "_try_preempt", returns=Int, modifies=["_available", "_active_grants", "_preemptions", "g_held"],
        ensures=[lambda s: s.self._available >= s.old(s.self)._available,
                 lambda s: s.self._available + s.self.g_held == s.old(s.self)._available + s.old(s.self).g_held,
                 lambda s: s.self.g_held >= 0])
TRY_PREEMPT = [(PreemptibleResource, "_try_preempt")]

# (also used as a stub by `acquire` on the repaired tree: `modifies` lists the fields of the resource it writes; the
#  futures it resolves and the grants it creates belong to other processes and no clause of acquire speaks about them)
fn(PreemptibleResource, "_wake_waiters", uses=RESOLVE, inv=False,
   modifies=["_waiters", "_available", "_acquisitions", "_active_grants", "g_held", "g_total0", "g_avail0"],
   requires=[lambda s: s.self._capacity > 0, lambda s: (0 <= s.self._available) & (s.self.g_held >= 0),
             lambda s: pre_queue_ok(s.self)],
   ensures=[("granted-as-soon-as-capacity-allows", lambda s: pre_head_blocked(s.self)),
            ("conserved", lambda s: s.self._available + s.self.g_held == s.old(s.self)._available + s.old(s.self).g_held),
            ("only-hands-out", lambda s: (0 <= s.self._available) & (s.self._available <= s.old(s.self)._available)),
            ("queue-ok", lambda s: pre_queue_ok(s.self))])

fn(PreemptibleResource, "acquire", args={"amount": Int, "priority": Real, "preempt": Bool, "on_preempt": Opt(PREEMPT_CB)},
   uses=RESOLVE + TRY_PREEMPT + [(PreemptibleResource, "_wake_waiters")], ensures=[
    ("immediate-only-if-it-fits", lambda s: implies(s.result._resolved,
        s.self._available + s.amount <= s.self._capacity)),
    ("blocked-only-if-it-does-not-fit", lambda s: implies(Not(s.result._resolved), s.self._available < s.amount)),
   ], raises={ValueError: [("only-bad-amount", lambda s: (s.amount <= 0) | (s.amount > s.self._capacity)),
                           ("frame", lambda s: unchanged(s, s.self))]})

fn(PreemptibleGrant, "release", uses=RESOLVE, focus=lambda s: [s.self._resource], ensures=[
    ("idempotent", lambda s: implies(s.old(s.self)._released, unchanged(s, s.self._resource))),
    ("released", lambda s: s.self._released)])

# ============================================================================ E. Bulkhead
from happysimulator.components.resilience import bulkhead as _bh  # noqa: E402
from happysimulator.components.resilience.bulkhead import Bulkhead  # noqa: E402

cls(_bh.WaitingRequest, fields={"event": Ref(Event), "enqueue_time": TIME, "request_id": Int},
    const=["event", "enqueue_time", "request_id"])
cls(Bulkhead, fields={"_target": Ref(Entity), "_max_concurrent": Int, "_max_wait_queue": Int, "_max_wait_time": Opt(Real),
                      "_active_count": Int, "_wait_queue": Seq(Ref(_bh.WaitingRequest)), "_next_request_id": Int,
                      "_in_flight": Map(Int, Any), "_total_requests": Int, "_accepted_requests": Int,
                      "_rejected_requests": Int, "_timed_out_requests": Int, "_queued_requests": Int,
                      "_peak_concurrent": Int, "_peak_queue_depth": Int},
    const=["_target", "_max_concurrent", "_max_wait_queue", "_max_wait_time"],
    inv=[("config", lambda o: (o._max_concurrent >= 1) & (o._max_wait_queue >= 0)),
         ("never-more-in-flight-than-max-concurrent", lambda o: (0 <= o._active_count) & (o._active_count <= o._max_concurrent)),
         ("active-count-is-the-in-flight-table", lambda o: o._active_count == slen(o._in_flight)),
         ("wait-queue-bounded", lambda o: slen(o._wait_queue) <= o._max_wait_queue),
         ("request-ids-issued-once", lambda o: (o._next_request_id >= 0) & forall(Int, lambda k: implies(
             contains(o._in_flight, k), k <= o._next_request_id), "k")),
         # queued requests carry issued ids in arrival order: an id names one queued request
         ("queued-ids-were-issued", lambda o: bh_queue_ok(o)),
         ("queue-in-arrival-order", lambda o: bh_queue_sorted(o)),
         # granted as soon as capacity allows: nobody waits while a permit is free
         ("no-request-waits-while-a-permit-is-free", lambda o: bh_work_conserving(o))])
_K.update(WaitingRequest=_bh.WaitingRequest, Bulkhead=Bulkhead)


def bh_queue_ok(o):
    n = slen(o._wait_queue)
    alloc = _pctx_cur().heap.alloc      # read NOW: an assumed forall is instantiated lazily, possibly after allocations
    return forall(Int, lambda i: also_at(i + 1) & implies(
        (0 <= i) & (i < n), mk_bool(z3.And(bq_at(o, i)._ref >= 1, bq_at(o, i)._ref <= alloc))
        & (1 <= bq_id(o, i)) & (bq_id(o, i) <= o._next_request_id)), "i")


def also_at(t):
    """instantiation hint: while a quantified clause is a GOAL (its variable is a skolem constant), the assumed facts
    are instantiated on the neighbouring index too (an entry of a queue after a removal is entry i or i+1 of the old one)"""
    c = _pctx_cur()
    t = z3.simplify(zi(t))
    if getattr(c, "inst_depth", 0) == 0 and "sk_" in str(t):
        c.note_term(t)
    return True


def bh_queue_sorted(o):
    """ids strictly increase along the queue (so an id names one queued request); in the adjacent form, which is
    inductive for append / popleft / del of one entry"""
    n = slen(o._wait_queue)
    return forall(Int, lambda i: also_at(i + 1) & also_at(i + 2) & implies(
        (0 <= i) & (i + 1 < n), bq_id(o, i) < bq_id(o, i + 1)), "i")


def bh_work_conserving(o):
    return (slen(o._wait_queue) == 0) | (o._active_count == o._max_concurrent)


def bh_unaccounted(o):
    """requests received and not yet accounted as accepted / rejected / timed out / still waiting: 0 between events -
    every request ends in exactly one of these"""
    return o._total_requests - o._accepted_requests - o._rejected_requests - o._timed_out_requests - slen(o._wait_queue)


def _bh_inv(*names):
    """class invariants of the bulkhead by name, as requires/ensures of the helpers that run between two consistent
    states (`inv=False`)"""
    return [(n, lambda s, n=n: dict(REG.classes[Bulkhead].inv)[n](s.self)) for n in names]


_BH_CORE = ("config", "never-more-in-flight-than-max-concurrent", "active-count-is-the-in-flight-table", "wait-queue-bounded",
            "request-ids-issued-once", "queued-ids-were-issued", "queue-in-arrival-order")


def ev0(seq):
    """first event of a result list (no fork, no IndexError: the clause states the length separately)"""
    if isinstance(seq, list):
        return seq[0] if seq else ObjProxy(z3.IntVal(0), Event)
    return ObjProxy(seq_term(seq)[0], Event)


def _fwd_event(s):
    e = ev0(s.result)
    ctx = field_term(e, "context")
    return same(e.target, s.self._target) & (e.event_type == s.event.event_type) & (ns(e.time) == now_ns(s.self)) \
        & md_has(ctx, "_bh_request_id") & (md_val(ctx, "_bh_request_id") == s.self._next_request_id)


# helper between two consistent states (the caller has checked / just freed the permit): no class invariant, the
# needed ones are explicit
fn(Bulkhead, "_forward_request", args={"event": Ref(Event)}, inv=False, returns=Seq(Ref(Event)),
   modifies=["_next_request_id", "_active_count", "_accepted_requests", "_peak_concurrent", "_in_flight"],
   requires=[("a-permit-is-free", lambda s: s.self._active_count < s.self._max_concurrent)] + _bh_inv(*_BH_CORE),
   ensures=_bh_inv(*_BH_CORE) + [
       ("takes-exactly-one-permit", lambda s: s.self._active_count == s.old(s.self)._active_count + 1),
       ("under-a-fresh-request-id", lambda s: (s.self._next_request_id == s.old(s.self)._next_request_id + 1)
           & (slen(s.self._in_flight) == slen(s.old(s.self)._in_flight) + 1)
           & forall(Int, lambda k: iff(contains(s.self._in_flight, k),
                                       contains(s.old(s.self)._in_flight, k) | (k == s.self._next_request_id)), "k")),
       ("accepted-once", lambda s: (s.self._accepted_requests == s.old(s.self)._accepted_requests + 1)
           & unchanged(s, s.self, "_wait_queue", "_total_requests", "_rejected_requests", "_timed_out_requests")),
       ("emits-exactly-one-event", lambda s: slen(s.result) == 1),
       ("forwards-the-request-to-the-target-now-tagged-with-its-id", _fwd_event)])
FWD = [(Bulkhead, "_forward_request")]

fn(Bulkhead, "_enqueue_request", args={"event": Ref(Event)}, inv=False,
   requires=[("queue-has-room", lambda s: slen(s.self._wait_queue) < s.self._max_wait_queue),
             ("no-permit-is-free", lambda s: s.self._active_count >= s.self._max_concurrent)] + _bh_inv(*_BH_CORE),
   ensures=_bh_inv(*_BH_CORE, "no-request-waits-while-a-permit-is-free") + [
            ("joins-the-tail-once", lambda s: (slen(s.self._wait_queue) == slen(s.old(s.self)._wait_queue) + 1)
             & mk_bool(z3.PrefixOf(seq_term(s.old(s.self)._wait_queue), seq_term(s.self._wait_queue)))
             & same(bq_at(s.self, slen(s.old(s.self)._wait_queue)).event, s.event)),
            ("no-permit-taken", lambda s: unchanged(s, s.self, "_active_count", "_in_flight")),
            ("accounted-as-waiting", lambda s: unchanged(s, s.self, "_total_requests", "_accepted_requests",
                                                         "_rejected_requests", "_timed_out_requests")),
            ("timeout-event-names-the-request", lambda s: (len(s.result) == 0) if s.self._max_wait_time is None else
                ((len(s.result) == 1) & (s.result[0].event_type == "_bh_timeout") & same(s.result[0].target, s.self)
                 & md_has(field_term(s.result[0], "context"), "request_id")
                 & (md_val(field_term(s.result[0], "context"), "request_id") == s.self._next_request_id)))])


def _bh_own_event(s):
    """_bh_response / _bh_timeout events are created by the bulkhead itself (on_complete hook, _enqueue_request):
    they carry metadata.request_id"""
    return md_has(field_term(s.event, "context"), "request_id")


def _bh_rid(s):
    return md_val(field_term(s.event, "context"), "request_id")


def _queue_suffix(s):
    """the queue afterwards is the old queue without its first `taken` entries (stated entry by entry: the sequence
    solver is slow on suffixof over slices)"""
    new_t, old_t = seq_term(s.self._wait_queue), seq_term(s.old(s.self)._wait_queue)
    n = slen(s.self._wait_queue)
    taken = slen(s.old(s.self)._wait_queue) - n
    return (taken >= 0) & forall(Int, lambda i: implies((0 <= i) & (i < n), mk_bool(
        seq_nth(new_t, zi(i)) == seq_nth(old_t, zi(i) + zi(taken)))), "i")


def _tpq_started(s):
    """the request that was started is the longest-waiting one that had not expired; everything taken off the queue
    before it expired"""
    old = s.old(s.self)
    taken = slen(old._wait_queue) - slen(s.self._wait_queue)
    started = s.self._accepted_requests - old._accepted_requests
    expired = s.self._timed_out_requests - old._timed_out_requests
    if s.result is None:
        return (started == 0) & (expired == taken)
    last = bq_at(old, taken - 1)
    mw = s.self._max_wait_time
    fresh_enough = True if mw is None else (now_ns(s.self) - ns(last.enqueue_time) <= mw * 1000000000)
    return (started == 1) & (expired == taken - 1) & (slen(s.result) == 1) & fresh_enough \
        & (ev0(s.result).event_type == last.event.event_type) & same(ev0(s.result).target, s.self._target)


TPQ = [(Bulkhead, "_try_process_queued")]
fn(Bulkhead, "_try_process_queued", inv=False, uses=FWD + TPQ, returns=Opt(Seq(Ref(Event))),
   modifies=["_wait_queue", "_timed_out_requests", "_next_request_id", "_active_count", "_accepted_requests",
             "_peak_concurrent", "_in_flight"],
   requires=_bh_inv(*_BH_CORE) + [
       # called when one permit has just been freed: the state before that satisfied no-request-waits-while-a-permit-is-free
       ("at-most-one-permit-is-free-while-requests-wait", lambda s: (slen(s.self._wait_queue) == 0)
           | (s.self._active_count >= s.self._max_concurrent - 1))],
   ensures=_bh_inv(*_BH_CORE, "no-request-waits-while-a-permit-is-free") + [
       ("queued-requests-start-in-arrival-order", _queue_suffix),
       ("starts-at-most-one-request-into-a-free-permit", lambda s:
           (s.self._active_count - s.old(s.self)._active_count == s.self._accepted_requests - s.old(s.self)._accepted_requests)
           & ((s.self._active_count == s.old(s.self)._active_count) | (s.self._active_count == s.old(s.self)._active_count + 1))),
       ("each-dequeued-request-started-or-timed-out-exactly-once", lambda s: bh_unaccounted(s.self) == bh_unaccounted(s.old(s.self))),
       ("started-request-is-the-longest-waiting-unexpired", _tpq_started),
       ("in-flight-table-gains-exactly-the-started-request-under-a-fresh-id", lambda s:
           (s.self._next_request_id == s.old(s.self)._next_request_id
            + (s.self._accepted_requests - s.old(s.self)._accepted_requests))
           & forall(Int, lambda k: iff(contains(s.self._in_flight, k), contains(s.old(s.self)._in_flight, k)
                                       | ((s.self._accepted_requests == s.old(s.self)._accepted_requests + 1)
                                          & (k == s.self._next_request_id))), "k"))])

fn(Bulkhead, "_handle_response", args={"event": Ref(Event)}, uses=TPQ,
   requires=[("a-response-of-this-bulkhead", _bh_own_event)],
   ensures=[
    ("unknown-or-repeated-response-changes-nothing", lambda s: implies(
        Not(contains(s.old(s.self)._in_flight, _bh_rid(s))), unchanged(s, s.self) & (s.result is None))),
    ("request-completes-exactly-once", lambda s: implies(
        contains(s.old(s.self)._in_flight, _bh_rid(s)), Not(contains(s.self._in_flight, _bh_rid(s))))),
    ("freed-permit-goes-to-at-most-one-queued-request", lambda s: implies(
        contains(s.old(s.self)._in_flight, _bh_rid(s)),
        s.self._active_count == s.old(s.self)._active_count - 1
        + (s.self._accepted_requests - s.old(s.self)._accepted_requests))),
    ("queued-requests-start-in-arrival-order", _queue_suffix),
    ("each-request-accounted-exactly-once", lambda s: bh_unaccounted(s.self) == bh_unaccounted(s.old(s.self)))])


def _timeout_post(s):
    old = s.old(s.self)
    rid = _bh_rid(s)
    n = slen(old._wait_queue)
    d = s.self._timed_out_requests - old._timed_out_requests
    waiting = exists(Int, lambda i: (0 <= i) & (i < n) & (bq_id(old, i) == rid))
    removed = exists(Int, lambda k: (0 <= k) & (k < n) & (bq_id(old, k) == rid) & mk_bool(
        seq_term(s.self._wait_queue) == z3.Concat(z3.Extract(seq_term(old._wait_queue), z3.IntVal(0), zi(k)),
                                                  z3.Extract(seq_term(old._wait_queue), zi(k) + 1, zi(n) - zi(k) - 1))))
    return implies(Not(waiting), unchanged(s, s.self)) & implies(waiting, (d == 1) & removed)


fn(Bulkhead, "_handle_timeout", args={"event": Ref(Event)},
   requires=[("a-timeout-of-this-bulkhead", _bh_own_event)],
   ensures=[
    ("exactly-the-expired-request-leaves-the-queue-once", _timeout_post),
    ("no-permit-involved", lambda s: unchanged(s, s.self, "_active_count", "_in_flight", "_accepted_requests",
                                               "_rejected_requests", "_total_requests")),
    ("each-request-accounted-exactly-once", lambda s: bh_unaccounted(s.self) == bh_unaccounted(s.old(s.self)))])

def _bh_client(s):
    return (s.event.event_type != "_bh_response") & (s.event.event_type != "_bh_timeout")


# one entry point for client requests and for the bulkhead's own control events (dispatched to _handle_response /
# _handle_timeout, which run inlined here; their own contracts are above)
fn(Bulkhead, "handle_event", args={"event": Ref(Event)}, uses=FWD + TPQ,
   requires=[("a-client-request-or-an-own-control-event", lambda s: _bh_client(s) | _bh_own_event(s))],
   ensures=[
    ("admitted-iff-a-permit-is-free", lambda s: implies(_bh_client(s), iff(s.self._active_count == s.old(s.self)._active_count + 1,
        s.old(s.self)._active_count < s.self._max_concurrent))),
    ("queued-iff-no-permit-but-room-in-the-queue", lambda s: implies(_bh_client(s), iff(
        slen(s.self._wait_queue) == slen(s.old(s.self)._wait_queue) + 1,
        (s.old(s.self)._active_count >= s.self._max_concurrent) & (slen(s.old(s.self)._wait_queue) < s.self._max_wait_queue)))),
    ("rejected-otherwise", lambda s: implies(_bh_client(s), iff(s.self._rejected_requests == s.old(s.self)._rejected_requests + 1,
        (s.old(s.self)._active_count >= s.self._max_concurrent) & (slen(s.old(s.self)._wait_queue) >= s.self._max_wait_queue)))),
    ("counted-once", lambda s: s.self._total_requests == s.old(s.self)._total_requests + ite(_bh_client(s), 1, 0)),
    ("control-events-never-take-more-than-the-freed-permit", lambda s: implies(Not(_bh_client(s)),
        s.self._active_count <= s.old(s.self)._active_count)),
    ("each-request-accounted-exactly-once", lambda s: bh_unaccounted(s.self) == bh_unaccounted(s.old(s.self)))])

fn(PreemptibleGrant, "_do_preempt", inv=False, requires=[lambda s: Not(s.self._released)], ensures=[
    ("marked-preempted-and-released", lambda s: s.self._preempted & s.self._released),
    ("amount-leaves-held", lambda s: s.self._resource.g_held == s.old(s.self._resource).g_held - s.self._amount)])

# ============================================================================ bounded stand-ins (labelled bounded, never counted as proved)
def _c09_standins(seed, tier):
    """the three functions kept as assumed stubs (RWLock._has_waiting_writer, ConnectionPool._remove_waiter,
    PreemptibleResource._try_preempt - generator expressions / sorted(key=) over containers of symbolic length) and
    ConnectionPool.close_all (three loops, one over an unordered dict: needs the cardinality of the visited set) are
    driven natively through the public API against oracles written from the statement (triage/c09_bounded.py)"""
    return run_native_script("triage/c09_bounded.py", 300 if tier == "quick" else 6000, seed)


PROPERTY.setdefault("bounded", []).append({
    "name": "stubbed-helpers-and-close-all",
    "bound": "300 (quick) / 6000 (thorough) seeded models each: RWLock interleavings of <= 25 steps; waiter queues of <= 7 entries; "
             "PreemptibleResource capacity <= 6, <= 20 acquire/release steps over 5 priority levels; pools of <= 4 connections with "
             "<= 7 workers and one close_all",
    "fn": _c09_standins})

# ============================================================================ F. ThreadPool
# The worker-slot counter is a FixedConcurrency (its own functions are under contract in specs/C08.py part B; here
# they run inlined and its class invariant is re-checked at every exit and yield of the pool's functions).  That
# tasks reach handle_queued_event in submission order is the FIFO queue + driver pipeline of QueuedResource (C08 part E).
from happysimulator.components.server.thread_pool import ThreadPool  # noqa: E402
from happysimulator.components.server.concurrency import FixedConcurrency  # noqa: E402

cls(FixedConcurrency, fields={"_max_concurrent": Int, "_active": Int}, const=["_max_concurrent"],
    inv=[("never-more-workers-busy-than-the-pool-has", lambda o: (0 <= o._active) & (o._active <= o._max_concurrent)),
         ("limit", lambda o: o._max_concurrent >= 1)])
PTIME = Fn(Real, "processing_time_extractor")
cls(ThreadPool, fields={"_num_workers": Int, "_worker_pool": Ref(FixedConcurrency), "_processing_time_extractor": Opt(PTIME),
                        "_default_processing_time": Real, "_tasks_completed": Int, "_tasks_rejected": Int,
                        "_total_processing_time": Real, "_processing_times": Seq(Real)},
    const=["_num_workers", "_worker_pool", "_processing_time_extractor", "_default_processing_time"],
    inv=[("worker-slots-are-the-pool-size", lambda o: o._worker_pool._max_concurrent == o._num_workers)])

fn(ThreadPool, "has_capacity", focus=lambda s: [s.self._worker_pool], ensures=[
    ("capacity-iff-a-worker-is-idle", lambda s: iff(s.result, s.self._worker_pool._active < s.self._num_workers)),
    ("pure", lambda s: unchanged(s, s.self) & unchanged(s, s.self._worker_pool))])

fn(ThreadPool, "handle_queued_event", args={"event": Ref(Event)}, focus=lambda s: [s.self._worker_pool],
   yields=Yields(
       at_yield=[("worker-taken-before-the-task-runs", lambda s, y:
                  s.self._worker_pool._active == s.old(s.self._worker_pool)._active + 1),
                 ("never-more-workers-busy-than-the-pool-has", lambda s, y: s.self._worker_pool._active <= s.self._num_workers)],
       stable=[("Entity", "_clock"), ("Event", "event_type"), ("Event", "context")]
              + [("ThreadPool", f) for f in ("_num_workers", "_worker_pool", "_processing_time_extractor", "_default_processing_time")],
       rely=[lambda s, b, y: ns(s.self._clock._current_time) >= ns(b.pre(s.self._clock)._current_time)]),
   ensures=[
    ("each-task-completed-or-rejected-exactly-once", lambda s:
        (s.self._tasks_completed - s.pre(s.self)._tasks_completed) + (s.self._tasks_rejected - s.pre(s.self)._tasks_rejected) == 1),
    ("rejected-only-when-every-worker-is-busy-and-takes-no-worker", lambda s: implies(
        s.self._tasks_rejected == s.pre(s.self)._tasks_rejected + 1,
        (s.old(s.self._worker_pool)._active >= s.self._num_workers) & unchanged(s, s.self._worker_pool))),
    ("worker-released-exactly-at-completion", lambda s: implies(
        s.self._tasks_completed == s.pre(s.self)._tasks_completed + 1,
        s.self._worker_pool._active == ite(s.pre(s.self._worker_pool)._active >= 1, s.pre(s.self._worker_pool)._active - 1, 0)))])

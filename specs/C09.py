"""C09 - capacity primitives never over-admit or leak, wake in order, and let time pass.

Part A: Resource / Grant (ghost `g_held` = sum of the amounts of unreleased grants).
See DESIGN.md section 3-C09.  The concurrency models (FixedConcurrency, DynamicConcurrency,
WeightedConcurrency) are under contract in specs/C08.py part B and are not repeated here.
"""
from pyvc.spec import *

F_RES = "happysimulator/components/resource.py"

# ---------------------------------------------------------------------------- ghost statements
# held = sum of amounts of unreleased grants: a grant adds its amount when it is created and
# takes it away the first (only effective) time it is released
ghost(F_RES, "Grant.__init__", "self._released = False",
      "self._resource.g_held = self._resource.g_held + self._amount")
ghost(F_RES, "Grant.release", "self._released = True",
      "self._resource.g_held = self._resource.g_held - self._amount")
ghost(F_RES, "Resource.__init__", "self._available = capacity", "self.g_held = 0")     # no grant exists yet
# state at the start of a wake-up round (the loop below is also reached inlined from
# _do_release / Grant.release, so its invariant speaks about this snapshot, not the task's entry state)
ghost(F_RES, "Resource._wake_waiters", None,
      "self.g_q0 = list(self._waiters); self.g_total0 = self._available + self.g_held; self.g_avail0 = self._available",
      where="entry")

_K = {}     # classes, filled after the repo import (loop contracts are declared before it)


def zi(i):
    return i.t if hasattr(i, "t") else (i if z3.is_expr(i) else z3.IntVal(i))


def rw_at(o, i, seq=None):
    """i-th waiter of the queue (or of the ghost sequence `seq`) of resource view o (no fork)"""
    q = seq_term(o._waiters if seq is None else seq)
    return ObjProxy(q[zi(i)], _K["RWaiter"], o._frozen)


def rw_amount(o, i, seq=None):
    return mk_num(field_term(rw_at(o, i, seq), "amount"))


def rw_future(o, i, seq=None):
    return ObjProxy(field_term(rw_at(o, i, seq), "future"), _K["SimFuture"], o._frozen)


def allocated(p):
    """heap typing of a reference read under a quantifier: it denotes an existing object (A-typing)"""
    from pyvc import ctx as _ctx
    return mk_bool(z3.And(p._ref >= 1, p._ref <= _ctx.cur().heap.alloc))


def fut_resolved(f):
    return mk_bool(field_term(f, "_resolved"))


def queue_ok(o):
    """every queued request is satisfiable (0 < amount <= capacity), still pending, and no two queue
    entries share a future (so serving one never serves another)"""
    n = slen(o._waiters)
    return forall(Int, lambda i: implies((0 <= i) & (i < n),
                                         (rw_amount(o, i) > 0) & (rw_amount(o, i) <= o._capacity)
                                         & allocated(rw_at(o, i)) & allocated(rw_future(o, i))
                                         & Not(fut_resolved(rw_future(o, i)))), "i") \
        & forall(Int, lambda i: forall(Int, lambda j: implies(
            (0 <= i) & (i < j) & (j < n), mk_bool(rw_future(o, i)._ref != rw_future(o, j)._ref)), "j"), "i")


def served_now(L):
    """step clause of the wake-up loop (locals `waiter`, `grant` exist once the body ran): the waiter taken
    in this iteration was the head of the queue, and its future now carries a fresh unreleased grant of this
    resource for exactly the amount it asked for"""
    if not hasattr(L, "grant") or not hasattr(L, "waiter"):
        return True
    w, g, f = L.waiter, L.grant, L.waiter.future
    return mk_bool(z3.SuffixOf(z3.Concat(z3.Unit(w._ref), seq_term(L.self._waiters)), seq_term(L.self.g_q0))) \
        & f._resolved & mk_bool(field_term(f, "_value") == Any.unwrap(g)) \
        & (g._amount == w.amount) & same(g._resource, L.self) & Not(g._released)


def _wake_inv():
    return [
        ("conserved", lambda L: L.self._available + L.self.g_held == L.self.g_total0),
        ("available-only-handed-out", lambda L: (L.self._available >= 0) & (L.self._available <= L.self.g_avail0)),
        ("remaining-queue-is-a-suffix-of-arrival-order", lambda L: mk_bool(
            z3.SuffixOf(seq_term(L.self._waiters), seq_term(L.self.g_q0)))),
        ("queue-ok", lambda L: queue_ok(L.self)),
        ("taken-waiter-is-the-head-and-gets-a-grant-of-its-amount", served_now),
    ]


_WAKE_LOOP = loop(F_RES, "Resource._wake_waiters", 1, inv=_wake_inv(), modifies=[
    ("Resource", "_waiters"), ("Resource", "_available"), ("Resource", "_acquisitions"),
    ("Resource", "_peak_utilization"), ("Resource", "_total_wait_time_ns"), ("Resource", "g_held"),
    ("SimFuture", "_resolved"), ("SimFuture", "_value"), ("SimFuture", "g_vref"),
    ("Grant", "_resource"), ("Grant", "_amount"), ("Grant", "_released")])
# grants are only written by their own constructor inside the loop (pyvc/loops.py fresh_only): grants that
# exist when the loop starts - in particular the one being released - are untouched
_WAKE_LOOP.fresh_only = [("Grant", "_resource"), ("Grant", "_amount"), ("Grant", "_released")]

from specs.common import *  # noqa: E402,F401

from happysimulator.core.sim_future import SimFuture  # noqa: E402
from happysimulator.components import resource as _res  # noqa: E402
from happysimulator.components.resource import Resource, Grant  # noqa: E402

_K.update(RWaiter=_res._Waiter, SimFuture=SimFuture, Grant=Grant)

PROPERTY = {
    "id": "C09",
    "level": "proof",
    "trusted": ["heap typing of the fields declared in specs/C09.py and specs/common.py"],
    "assumptions": COMMON_ASSUMPTIONS + [
        "amounts and capacities (int | float) are modelled as reals",
        "SimFuture.resolve(v) on a pending future marks it resolved with value v and reschedules the parked "
        "process at the current time; it touches no state of the capacity primitive (stub contract; the future "
        "mechanics are property C02)",
        "futures handed out by Resource.acquire are resolved only by the resource (clients do not call "
        "resolve() on them): needed for 'each waiter is granted at most once'",
    ],
}

# ============================================================================ A. Resource / Grant
cls(SimFuture, fields={"_resolved": Bool, "_value": Any, "_parked_process": Any, "_parked_event_type": Any,
                       "_parked_daemon": Bool, "_parked_target": Any, "_parked_on_complete": Any,
                       "_parked_context": Any, "_settle_callbacks": Seq(Any)},
    ghost={"g_vref": Int})      # the reference a future was resolved with (0 if not an object)
stub_of(SimFuture, "resolve", modifies=["_resolved", "_value", "g_vref"],
        requires=[("granted-at-most-once", lambda s: Not(s.self._resolved))],
        ensures=[lambda s: s.self._resolved,
                 lambda s: mk_bool(field_term(s.self, "_value") == Any.unwrap(s.value)),
                 lambda s: mk_bool(field_term(s.self, "g_vref") == (s.value._ref if isinstance(s.value, ObjProxy) else 0))])
RESOLVE = [(SimFuture, "resolve")]

cls(_res._Waiter, fields={"amount": Real, "future": Ref(SimFuture), "enqueue_time_ns": Int},
    const=["amount", "future", "enqueue_time_ns"])
cls(Resource, fields={"_capacity": Real, "_available": Real, "_waiters": Seq(Ref(_res._Waiter)),
                      "_acquisitions": Int, "_releases": Int, "_contentions": Int, "_total_wait_time_ns": Int,
                      "_peak_utilization": Real, "_peak_waiters": Int},
    ghost={"g_held": Real, "g_q0": Seq(Ref(_res._Waiter)), "g_total0": Real, "g_avail0": Real}, const=["_capacity"],
    inv=[("capacity-positive", lambda o: o._capacity > 0),
         ("never-over-admitted", lambda o: (0 <= o._available) & (o._available <= o._capacity)),
         ("held-plus-available-is-capacity", lambda o: o._available + o.g_held == o._capacity),
         ("queue-ok", queue_ok)])
# an unreleased grant is one of the summands of g_held (lemma held-dominates-member below)
cls(Grant, fields={"_resource": Ref(Resource), "_amount": Real, "_released": Bool}, const=["_resource", "_amount"],
    inv=[("unreleased-amount-is-part-of-held", lambda o: o._released | ((o._amount > 0) & (o._amount <= o._resource.g_held)))])


def _held_lemma():
    # g_held = sum of unreleased amounts (all > 0).  For a particular unreleased grant a: held = a + rest,
    # rest >= 0.  Creating a grant (rest += b) or releasing another one (rest = b + rest', rest' >= 0) keeps that.
    a, rest, b, rest2 = fresh(Real, "a"), fresh(Real, "rest"), fresh(Real, "b"), fresh(Real, "rest2")
    assume((a > 0) & (rest >= 0) & (b > 0) & (rest2 >= 0))
    oblige("member-at-most-sum", a <= a + rest)
    oblige("kept-by-another-grant", a <= (a + rest) + b)
    oblige("kept-by-another-release", implies(rest == b + rest2, a <= (a + rest) - b))


lemma("held-dominates-member", _held_lemma)


def _new_grant(s, g, amount):
    return (g._amount == amount) & Not(g._released) & same(g._resource, s.self)


_BAD_AMOUNT = {ValueError: [("only-bad-amount", lambda s: (s.amount <= 0) | (s.amount > s.self._capacity)),
                            ("frame", lambda s: unchanged(s, s.self))]}

# Constructors of entities are verified "as attached": Entity.__init__ leaves `_clock = None` until the
# simulation injects the clock, while specs/common.py types `_clock` as a present Clock (assumption 4 of
# COMMON_ASSUMPTIONS).  The setup replaces Entity.__init__ by its first statement only.
_ENTITY_INIT = [Entity.__init__]


def _attached(s):
    def _init(self, name):
        self.name = name
    Entity.__init__ = _init
    return []


def _detach(s):
    Entity.__init__ = _ENTITY_INIT[0]


ctor(Resource, args={"name": Str, "capacity": Real}, setup=_attached, teardown=_detach,
     ensures=[("starts-full-and-idle", lambda s: (s.self._available == s.capacity) & (s.self._capacity == s.capacity)
               & (slen(s.self._waiters) == 0))],
     raises={ValueError: [("only-nonpositive-capacity", lambda s: s.capacity <= 0)]})

fn(Resource, "try_acquire", args={"amount": Real}, ensures=[
    ("granted-iff-fits", lambda s: iff(s.result is not None, s.old(s.self)._available >= s.amount)),
    ("grant-takes-exactly-amount", lambda s: True if s.result is None else
        (s.self._available == s.old(s.self)._available - s.amount) & _new_grant(s, s.result, s.amount)),
    ("refusal-changes-nothing", lambda s: unchanged(s, s.self) if s.result is None else True),
    ("queue-untouched", lambda s: unchanged(s, s.self, "_waiters")),
   ], raises=_BAD_AMOUNT)


def _enqueued_last(s):
    oldq, newq = seq_term(s.old(s.self)._waiters), seq_term(s.self._waiters)
    last = newq[z3.Length(oldq)]
    w = ObjProxy(last, _res._Waiter)
    return mk_bool(newq == z3.Concat(oldq, z3.Unit(last))) & (w.amount == s.amount) & same(w.future, s.result)


def _value_is_new_grant(s):
    f = s.result
    gref = field_term(f, "g_vref")
    g = ObjProxy(gref, Grant)
    return mk_bool(field_term(f, "_value") == Any._f("ref", z3.IntSort())(gref)) & _new_grant(s, g, s.amount)


fn(Resource, "acquire", args={"amount": Real}, uses=RESOLVE, ensures=[
    ("immediate-iff-fits", lambda s: iff(s.result._resolved, s.old(s.self)._available >= s.amount)),
    ("immediate-takes-exactly-amount", lambda s: implies(s.result._resolved,
        (s.self._available == s.old(s.self)._available - s.amount) & unchanged(s, s.self, "_waiters"))),
    ("immediate-future-carries-grant-of-amount", lambda s: implies(s.result._resolved, _value_is_new_grant(s))),
    ("blocked-joins-the-tail-once", lambda s: implies(Not(s.result._resolved),
        _enqueued_last(s) & unchanged(s, s.self, "_available", "g_held"))),
   ], raises=_BAD_AMOUNT)


def _head_does_not_fit(o):
    n = slen(o._waiters)
    return (n == 0) | (o._available < rw_amount(o, 0))


_WAKE_POST = [
    ("woken-in-arrival-order", lambda s: mk_bool(z3.SuffixOf(seq_term(s.self._waiters), seq_term(s.old(s.self)._waiters)))),
    # (that every waiter taken off the queue is the head and receives a grant of its own amount, once, is the
    #  step obligation `taken-waiter-is-the-head-and-gets-a-grant-of-its-amount` of the loop + the call-site
    #  obligation `granted-at-most-once` of SimFuture.resolve)
    ("granted-as-soon-as-capacity-allows", lambda s: _head_does_not_fit(s.self)),
]

fn(Resource, "_wake_waiters", uses=RESOLVE, ensures=_WAKE_POST + [
    ("conserved", lambda s: s.self._available + s.self.g_held == s.old(s.self)._available + s.old(s.self).g_held),
    ("only-hands-out", lambda s: s.self._available <= s.old(s.self)._available)])

# _do_release is the helper Grant.release calls after taking the grant out of g_held: on its own it moves
# `amount` from "held by nobody yet accounted" to available, so it is specified without the class invariant
fn(Resource, "_do_release", args={"amount": Real}, uses=RESOLVE, inv=False,
   requires=[lambda s: s.self._capacity > 0, lambda s: (0 <= s.self._available) & (s.self._available <= s.self._capacity),
             lambda s: s.amount > 0, lambda s: queue_ok(s.self)],
   ensures=[("never-above-capacity", lambda s: (0 <= s.self._available) & (s.self._available <= s.self._capacity)),
            ("amount-returned-exactly", lambda s: s.self._available + s.self.g_held
                == s.old(s.self)._available + s.old(s.self).g_held + s.amount),
            ("queue-ok", lambda s: queue_ok(s.self))] + _WAKE_POST,
   raises={ValueError: [("only-when-it-would-exceed-capacity", lambda s: s.old(s.self)._available + s.amount > s.self._capacity),
                        ("state-unchanged", lambda s: unchanged(s, s.self))]})

fn(Grant, "release", uses=RESOLVE, focus=lambda s: [s.self._resource], ensures=[
    ("idempotent", lambda s: implies(s.old(s.self)._released, unchanged(s, s.self._resource) & s.self._released)),
    ("released", lambda s: s.self._released),
    ("amount-leaves-held-once", lambda s: implies(Not(s.old(s.self)._released),
        s.self._resource._available + s.self._resource.g_held
        == s.old(s.self._resource)._available + s.old(s.self._resource).g_held)),
    ("waiters-served-in-order", lambda s: implies(Not(s.old(s.self)._released), mk_bool(
        z3.SuffixOf(seq_term(s.self._resource._waiters), seq_term(s.old(s.self._resource)._waiters))))),
    ("granted-as-soon-as-capacity-allows", lambda s: implies(Not(s.old(s.self)._released),
        _head_does_not_fit(s.self._resource))),
])

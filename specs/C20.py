"""C20 - sketches keep one-sided guarantees and merge like the union of their inputs.

Ghost state: each sketch carries the (multi)set of items added so far (`g_items` / `g_true`), updated by
ghost statements next to the real updates.  Hash functions are uninterpreted functions of
(seed, dimensions, item, index) - `_hash` is replaced by that contract (assumption, listed).
See DESIGN.md section 3-C20.
"""
from pyvc.spec import *
from pyvc import bits as _bits
from pyvc.vec import Vec, SymVec, _consts as _vec_consts, HOOKS as _VEC_HOOKS

F_BLOOM = "happysimulator/sketching/bloom_filter.py"

I_ = z3.IntSort()


REPR = z3.Function("py_repr", T.Any.sort(), z3.StringSort())     # repr(item) of an opaque item (deterministic: a function)
ICODE = z3.Function("item_code_of_repr", z3.StringSort(), I_)    # the int standing for an item with that repr


def _t(x):
    """raw z3 int term of a python int / SymInt; an OPAQUE (Any-typed) item is identified by its repr - that is all
    the Bloom / Count-Min / HyperLogLog hash functions read of an item"""
    if isinstance(x, T.SymAny):
        return ICODE(REPR(x.t))
    return num(x)


def vmax(a, b):
    return ite(a >= b, a, b)


# ============================================================================ Bloom: helpers
BH = z3.Function("bloom_hash", I_, I_, I_, I_, I_)       # (seed, size_bits, item, i) -> bit index


def bh(o, item, i):
    return mk_num(BH(_t(o._seed), _t(o._size_bits), _t(item), _t(i)))


def bitat(o, n):
    """bit n of the filter's bit array (raw terms: no fork on the list index)"""
    n = mk_num(_t(n))
    return mk_bool(_bits.BIT(z3.Select(o._bits.arr(), _t(n // 64)), _t(n % 64)))


def in_bits(o, n):
    return (0 <= n) & (n < o._size_bits)


def hbit(o, item, i):
    """the i-th hash position of item is a valid bit index and that bit is set"""
    h = bh(o, item, i)
    return in_bits(o, h) & bitat(o, h)


def _hash_positions(o, item, n, upto):
    """exists j in [0, upto): n == hash(item, j)"""
    return exists(Int, lambda j: (0 <= j) & (j < upto) & (n == bh(o, item, j)))


def items_of(o):
    """ghost set of added items as a z3 set (Array Int Bool)"""
    return SET_I.dt.dom(o.g_items.term)


def ite_set(c, a, b):
    if isinstance(c, bool):
        return a if c else b
    return z3.If(to_z3_bool(c), a, b)


def to_b(x):
    return x if not isinstance(x, bool) else mk_bool(z3.BoolVal(x))


SET_I = Set(Int)

# BloomFilter.add: for i in range(self._num_hashes)
loop(F_BLOOM, "BloomFilter.add", 1, modifies=[("BloomFilter", "_bits"), ("BloomFilter", "_bits_set")], inv=[
    ("len-kept", lambda L: slen(L.self._bits) == slen(L.old(L.self)._bits)),
    ("bits-only-grow", lambda L: forall(Int, lambda n: implies(
        in_bits(L.self, n) & bitat(L.old(L.self), n), bitat(L.self, n)))),
    ("hashed-so-far-set", lambda L: forall(Int, lambda j: implies(
        (0 <= j) & (j < L.i), hbit(L.self, L.item, j)))),
    ("nothing-else-set", lambda L: forall(Int, lambda n: implies(
        in_bits(L.self, n) & bitat(L.self, n),
        bitat(L.old(L.self), n) | _hash_positions(L.self, L.item, n, L.i)))),
])

# BloomFilter.contains: for i in range(self._num_hashes)
loop(F_BLOOM, "BloomFilter.contains", 1, inv=[
    ("all-so-far-set", lambda L: forall(Int, lambda j: implies(
        (0 <= j) & (j < L.i), hbit(L.self, L.item, j)))),
])

# BloomFilter.merge: for i in range(len(self._bits))
loop(F_BLOOM, "BloomFilter.merge", 1, modifies=[("BloomFilter", "_bits")], inv=[
    ("len-kept", lambda L: slen(L.self._bits) == slen(L.old(L.self)._bits)),
    ("other-kept", lambda L: same(L.self, L.other) | mk_bool(L.other._bits.term == L.old(L.other)._bits.term)),
    ("done-words-are-or", lambda L: forall(Int, lambda n: implies(
        (0 <= n) & (n < 64 * L.i),
        iff(bitat(L.self, n), bitat(L.old(L.self), n) | bitat(L.old(L.other), n))))),
    ("rest-untouched", lambda L: forall(Int, lambda n: implies(
        (64 * L.i <= n) & (n < 64 * slen(L.self._bits)),
        iff(bitat(L.self, n), bitat(L.old(L.self), n))))),
])

ghost(F_BLOOM, "BloomFilter.__init__", "self._total_count = 0", "self.g_items = set()")
ghost(F_BLOOM, "BloomFilter.add", "self._total_count += count", "self.g_items.add(_c20_item_key(item))")
ghost(F_BLOOM, "BloomFilter.merge", "self._total_count += other._total_count", "self.g_items |= other.g_items")

# ============================================================================ Count-Min: helpers
F_CMS = "happysimulator/sketching/count_min_sketch.py"
CH = z3.Function("cms_hash", I_, I_, I_, I_, I_)         # (seed, width, item, row) -> column
V1 = Vec(Int)
V2 = Vec(V1)
CNT = Map(Int, Int)


def ch(o, item, row):
    return mk_num(CH(_t(o._seed), _t(o._width), _t(item), _t(row)))


def _row(o, r):
    return z3.Select(V2.dt.arr(o._counters.term), _t(r))


def cell(o, r, c):
    """counter (r, c) as a raw term (no fork on the indices)"""
    return mk_num(z3.Select(V1.dt.arr(_row(o, r)), _t(c)))


def rowlen(o, r):
    return mk_num(V1.dt.len(_row(o, r)))


def tru(o, x):
    """ghost: true count of item x in the stream fed to sketch o (0 if never added)"""
    return o.g_true.get(x, 0)


def in_row(o, r):
    return (0 <= r) & (r < o._depth)


def in_col(o, c):
    return (0 <= c) & (c < o._width)


def cms_shape(o):
    return (slen(o._counters) == o._depth) & forall(Int, lambda r: implies(in_row(o, r), rowlen(o, r) == o._width))


def _is_inf(v):
    return isinstance(v, float)


# CountMinSketch.add: for row in range(self._depth)
loop(F_CMS, "CountMinSketch.add", 1, modifies=[("CountMinSketch", "_counters")], inv=[
    ("shape", lambda L: cms_shape(L.self)),
    ("hashed-columns-in-range", lambda L: forall(Int, lambda r: implies(
        (0 <= r) & (r < L.i), in_col(L.self, ch(L.self, L.item, r))))),
    ("done-rows-incremented-at-hash", lambda L: forall(Int, lambda r: forall(Int, lambda c: implies(
        (0 <= r) & (r < L.i) & in_col(L.self, c),
        cell(L.self, r, c) == cell(L.old(L.self), r, c) + ite(c == ch(L.self, L.item, r), L.count, 0))))),
    ("other-rows-untouched", lambda L: forall(Int, lambda r: forall(Int, lambda c: implies(
        (L.i <= r) & (r < L.self._depth) & in_col(L.self, c),
        cell(L.self, r, c) == cell(L.old(L.self), r, c))))),
])


def _est_inv_min(L):
    m = L.min_count
    if _is_inf(m):
        return L.i == 0
    return (L.i >= 1) & forall(Int, lambda r: implies((0 <= r) & (r < L.i), m <= cell(L.self, r, ch(L.self, L.item, r)))) \
        & exists(Int, lambda r: (0 <= r) & (r < L.i) & (m == cell(L.self, r, ch(L.self, L.item, r))))


# CountMinSketch.estimate: for row in range(self._depth)
loop(F_CMS, "CountMinSketch.estimate", 1, types={"min_count": IntInf}, inv=[
    ("hashed-columns-in-range", lambda L: forall(Int, lambda r: implies(
        (0 <= r) & (r < L.i), in_col(L.self, ch(L.self, L.item, r))))),
    ("min-of-rows-so-far", _est_inv_min),
])

# CountMinSketch.merge: for row in range(self._depth): for col in range(self._width)
def _cms_other_kept(L):
    return same(L.self, L.other) | mk_bool(L.other._counters.term == L.old(L.other)._counters.term)


def _sum_cell(L, r, c):
    return cell(L.self, r, c) == cell(L.old(L.self), r, c) + cell(L.old(L.other), r, c)


def _same_cell(L, r, c):
    return cell(L.self, r, c) == cell(L.old(L.self), r, c)


def _merged_cell(L, r, c, done):
    """cell (r, c) == its entry value, plus other's entry value where `done` (one clause per loop: fewer nested facts)"""
    return cell(L.self, r, c) == cell(L.old(L.self), r, c) + ite(done, cell(L.old(L.other), r, c), 0)


loop(F_CMS, "CountMinSketch.merge", 1, modifies=[("CountMinSketch", "_counters")], inv=[
    ("shape", lambda L: cms_shape(L.self)),
    ("other-kept", _cms_other_kept),
    ("done-rows-summed-other-rows-untouched", lambda L: forall(Int, lambda r: forall(Int, lambda c: implies(
        in_row(L.self, r) & in_col(L.self, c), _merged_cell(L, r, c, r < L.i))))),
])
loop(F_CMS, "CountMinSketch.merge", 2, modifies=[("CountMinSketch", "_counters")], inv=[
    ("shape", lambda L: cms_shape(L.self)),
    ("other-kept", _cms_other_kept),
    ("row-in-range", lambda L: in_row(L.self, L.row)),
    ("rows-above-and-done-columns-summed-rest-untouched", lambda L: forall(Int, lambda r: forall(Int, lambda c: implies(
        in_row(L.self, r) & in_col(L.self, c),
        _merged_cell(L, r, c, (r < L.row) | ((r == L.row) & (c < L.i))))))),
])

ghost(F_CMS, "CountMinSketch.add", "self._total_count += count", "self.g_true[item] = self.g_true.get(item, 0) + count")
ghost(F_CMS, "CountMinSketch.__init__", "self._total_count = 0", "self.g_true = {}")
ghost(F_CMS, "CountMinSketch.merge", "self._total_count += other._total_count",
      "self.g_true = _c20_sum_counts(self.g_true, other.g_true)")

# ============================================================================ HyperLogLog: helpers
F_HLL = "happysimulator/sketching/hyperloglog.py"
M_HLL = "happysimulator.sketching.hyperloglog"
HH = z3.Function("hll_hash", I_, I_, I_)                 # (seed, item) -> 64-bit hash value
CLZ = z3.Function("hll_clz", I_, I_, I_)                 # _count_leading_zeros(value, max_bits)
PRECISIONS = range(4, 17)


def _by_precision(o, f):
    """f(p) for the sketch's precision p (a 13-way case split: the code's shifts need a concrete p)"""
    p = _t(o._precision)
    t = f(16)
    for q in reversed(PRECISIONS[:-1]):
        t = z3.If(p == q, f(q), t)
    return t


def hll_idx(o, item):
    """register index of item: the top `precision` bits of its hash"""
    h = HH(_t(o._seed), _t(item))
    return mk_num(_by_precision(o, lambda p: h / z3.IntVal(1 << (64 - p))))


def hll_rho(o, item):
    """run length of item: leading zeros of the remaining bits, plus one"""
    h = HH(_t(o._seed), _t(item))
    return mk_num(_by_precision(o, lambda p: CLZ(h % z3.IntVal(1 << (64 - p)), z3.IntVal(64 - p)) + 1))


def reg(o, i):
    return mk_num(z3.Select(V1.dt.arr(o._registers.term), _t(i)))


def in_regs(o, i):
    return (0 <= i) & (i < o._num_registers)


# HyperLogLog.merge: for i in range(self._num_registers)
loop(F_HLL, "HyperLogLog.merge", 1, modifies=[("HyperLogLog", "_registers")], inv=[
    ("len-kept", lambda L: slen(L.self._registers) == slen(L.old(L.self)._registers)),
    ("other-kept", lambda L: same(L.self, L.other) | mk_bool(L.other._registers.term == L.old(L.other)._registers.term)),
    ("done-are-max", lambda L: forall(Int, lambda k: implies(
        (0 <= k) & (k < L.i), reg(L.self, k) == vmax(reg(L.old(L.self), k), reg(L.old(L.other), k))))),
    ("rest-untouched", lambda L: forall(Int, lambda k: implies(
        (L.i <= k) & (k < L.self._num_registers), reg(L.self, k) == reg(L.old(L.self), k)))),
])

ghost(F_HLL, "HyperLogLog.add", "self._total_count += count", "self.g_items.add(item)")
ghost(F_HLL, "HyperLogLog.merge", "self._total_count += other._total_count", "self.g_items |= other.g_items")
ghost(F_HLL, "HyperLogLog.__init__", "self._total_count = 0", "self.g_items = set()")

# ============================================================================ TopK: helpers
F_TOPK = "happysimulator/sketching/topk.py"
ghost(F_TOPK, "TopK.add", "self._total_count += count", "self.g_true[item] = self.g_true.get(item, 0) + count")
ghost(F_TOPK, "TopK.__init__", "self._total_count = 0", "self.g_true = {}")

# ============================================================================ Reservoir: helpers
F_RES = "happysimulator/sketching/reservoir.py"


def vmin(a, b):
    return ite(a <= b, a, b)


def res_at(o, j):
    return mk_num(z3.Select(V1.dt.arr(o._reservoir.term), _t(j)))


def seen(o, x):
    return mk_bool(z3.Select(SET_I.dt.dom(o.g_stream.term), _t(x)))


def _vec_at(v, j):
    """element j of a list local that is a Python list before the loop cut and a SymVec after it"""
    return mk_num(z3.Select(V1.dt.arr(V1.unwrap(v)), _t(j)))


# ReservoirSampler.add: for _ in range(count)
loop(F_RES, "ReservoirSampler.add", 1,
     modifies=[("ReservoirSampler", "_reservoir"), ("ReservoirSampler", "_total_count"), ("ReservoirSampler", "g_stream")],
     inv=[
    ("counted-so-far", lambda L: L.self._total_count == L.old(L.self)._total_count + L.i),
    ("holds-min-k-n", lambda L: slen(L.self._reservoir) == vmin(L.self._size, L.self._total_count)),
    ("held-items-are-stream-items", lambda L: forall(Int, lambda j: implies(
        (0 <= j) & (j < slen(L.self._reservoir)), seen(L.self, res_at(L.self, j))))),
    ("stream-grows-by-item-only", lambda L: forall(Int, lambda x: iff(
        seen(L.self, x), seen(L.old(L.self), x) | ((x == L.item) & (L.i > 0))))),
])

# ReservoirSampler.merge: for _i in range(min(self._size, combined_total))
loop(F_RES, "ReservoirSampler.merge", 1, types={"new_reservoir": V1}, inv=[
    ("one-pick-per-round", lambda L: slen(L.new_reservoir) == L.i),
    ("picks-are-stream-items", lambda L: forall(Int, lambda j: implies(
        (0 <= j) & (j < slen(L.new_reservoir)), seen(L.self, _vec_at(L.new_reservoir, j))))),
])

ghost(F_RES, "ReservoirSampler._add_one", "self._total_count += 1", "self.g_stream.add(item)")
ghost(F_RES, "ReservoirSampler.merge", "combined_total = self._total_count + other._total_count",
      "self.g_stream |= other.g_stream")

# ============================================================================ t-digest: helpers
F_TD = "happysimulator/sketching/tdigest.py"
VR = Vec(Real)


def buf_at(o, j):
    return mk_num(z3.Select(VR.dt.arr(o._buffer.term), _t(j)))


# TDigest.add: for _ in range(count): self._buffer.append(value)
loop(F_TD, "TDigest.add", 1, modifies=[("TDigest", "_buffer")], inv=[
    ("one-copy-per-round", lambda L: slen(L.self._buffer) == slen(L.old(L.self)._buffer) + L.i),
    ("appended-copies-are-the-value", lambda L: forall(Int, lambda j: implies(
        (slen(L.old(L.self)._buffer) <= j) & (j < slen(L.self._buffer)), buf_at(L.self, j) == L.value))),
    ("earlier-buffer-kept", lambda L: forall(Int, lambda j: implies(
        (0 <= j) & (j < slen(L.old(L.self)._buffer)), buf_at(L.self, j) == buf_at(L.old(L.self), j)))),
])

# ---- centroid list: a Vec of immutable (mean, count) VALUES (no statement of tdigest.py assigns a field of a
#      _Centroid after construction - checked by a source scan below), weights through the prefix-sum function
#      W(arr, i) = sum of the counts of arr[0..i)   (uninterpreted; used only through the facts listed at `Wt`)
_CV_CLASSES = []                                                   # [_Centroid], filled in after the repo import
CV = valueclass("TDCentroid", _CV_CLASSES, [("mean", Real), ("count", Int)])
VC = Vec(CV)
OPTR = Opt(Real)
_CARR = z3.ArraySort(I_, CV.sort())
TDW = z3.Function("td_prefix_weight", _CARR, I_, I_)


def cnt1(x):
    """weight of a centroid term, clamped at 1 (every centroid weighs >= 1 by invariant; the clamp makes
    `W(j) - W(i) >= j - i` hold unconditionally)"""
    return z3.If(CV.dt.count(x) >= 1, CV.dt.count(x), z3.IntVal(1))


def _w_store_frame(c, arr, i, depth=0):
    # W(Store(b, k, x), i) == W(b, i) for i <= k  (W(., i) reads only the elements below i; lemma td-weight-frame)
    if depth < 4 and z3.is_store(arr):
        b, k = arr.arg(0), arr.arg(1)
        for x in (i, z3.simplify(i - 1)):
            c.assume(z3.Implies(z3.And(0 <= x, x <= k), TDW(arr, x) == TDW(b, x)))
            _w_defs(c, b, x, depth + 1)


def _w_defs(c, arr, i, depth=0):
    key = ("tdW", arr.get_id(), i.get_id())
    if key in c._pool_seen:
        return
    c._pool_seen.add(key)
    w = TDW(arr, i)
    c.assume(TDW(arr, z3.IntVal(0)) == 0)
    # defining equation at i and at i-1, and W(i) >= i (lemma td-weight-monotone with j = 0)
    c.assume(z3.Implies(i >= 0, z3.And(w >= i, TDW(arr, i + 1) == w + cnt1(z3.Select(arr, i)))))
    c.assume(z3.Implies(i >= 1, w == TDW(arr, i - 1) + cnt1(z3.Select(arr, i - 1))))
    _w_store_frame(c, arr, i, depth)


def Wt(arr, i):
    """raw term W(arr, i); as a side effect the DEFINING equations of W around i (and the frame fact for an
    array that is syntactically a store) are added to the path: they hold for the sum by definition"""
    arr, i = z3.simplify(arr), z3.simplify(_t(i))
    _w_defs(_pctx.cur(), arr, i)
    return TDW(arr, i)


def _w_mono_everywhere(arr):
    """W(arr, k) - W(arr, j) >= k - j for 0 <= j <= k (lemma td-weight-monotone), as a hand-instantiated fact"""
    c = _pctx.cur()
    key = ("tdWmono", arr.get_id())
    if key in c._pool_seen:
        return
    c._pool_seen.add(key)
    c.assume_value(forall(Int, lambda j: forall(Int, lambda k: implies(
        (0 <= j) & (j <= k), mk_bool(TDW(arr, k.t) - TDW(arr, j.t) >= k.t - j.t)), "wk"), "wj"))


def _hint(*terms):
    """proof hint (no logical content): register ground index terms so that the assumed index facts are
    instantiated on them"""
    if _pctx.active():
        c = _pctx.cur()
        for t in terms:
            t = z3.simplify(_t(t))
            if not _has_bound_var(t):
                c.note_term(t)
    return True


def _has_bound_var(t):
    return any(str(x).startswith(("q_", "e_")) for x in _vec_consts(t))


def vterm(v):
    """raw term of a centroid list local (a Python list before the loop cut, a SymVec after it)"""
    return z3.simplify(VC.unwrap(v))


def varr(v):
    return z3.simplify(VC.dt.arr(vterm(v)))


def vlen(v):
    return mk_num(z3.simplify(VC.dt.len(vterm(v))))


def v_mean(arr, j):
    return mk_num(CV.dt.mean(z3.Select(arr, _t(j))))


def v_cnt(arr, j):
    return mk_num(CV.dt.count(z3.Select(arr, _t(j))))


def cterm(o):
    return field_term(o, "_centroids")


def carr(o):
    return z3.simplify(VC.dt.arr(cterm(o)))


def clen(o):
    return mk_num(VC.dt.len(cterm(o)))


def cmean(o, j):
    return v_mean(carr(o), j)


def ccnt(o, j):
    return v_cnt(carr(o), j)


def blen(o):
    return mk_num(VR.dt.len(field_term(o, "_buffer")))


def td_lo(o):
    return mk_num(OPTR.dt.val(field_term(o, "_min_value")))


def td_hi(o):
    return mk_num(OPTR.dt.val(field_term(o, "_max_value")))


def td_empty(o):
    return mk_bool(OPTR.dt.is_none(field_term(o, "_min_value")))


def td_weight(o):
    """total weight of the centroid list"""
    return mk_num(Wt(carr(o), clen(o)))


def within(o, x):
    return (td_lo(o) <= x) & (x <= td_hi(o))


def arr_sound(o, arr, n):
    """every centroid of arr[0..n) weighs >= 1 and its mean lies within [min, max] of digest o"""
    return forall(Int, lambda j: implies((0 <= j) & (j < n), (v_cnt(arr, j) >= 1) & within(o, v_mean(arr, j))), "cj")


def arr_sorted(arr, n):
    return forall(Int, lambda j: forall(Int, lambda k: implies(
        (0 <= j) & (j < k) & (k < n), v_mean(arr, j) <= v_mean(arr, k)), "ck"), "cj")


def td_minmax(o):
    no_max = mk_bool(OPTR.dt.is_none(field_term(o, "_max_value")))
    return iff(td_empty(o), no_max) & implies(td_empty(o), o._total_count == 0) \
        & implies(Not(td_empty(o)), (o._total_count > 0) & (td_lo(o) <= td_hi(o)))


TD_INV = [
    ("count-nonneg", lambda o: (o._total_count >= 0) & (clen(o) >= 0) & (blen(o) >= 0)),
    ("min-max-known-iff-something-was-added", td_minmax),
    ("buffered-values-within-min-max", lambda o: forall(Int, lambda j: implies(
        (0 <= j) & (j < blen(o)), within(o, buf_at(o, j))), "bj")),
    ("centroids-weigh-at-least-one-and-lie-within-min-max", lambda o: arr_sound(o, carr(o), clen(o))),
    # what quantile()/cdf() rely on: the list they walk is ordered by mean at every public-method boundary
    ("centroids-sorted-by-mean", lambda o: arr_sorted(carr(o), clen(o))),
    ("centroid-weights-plus-buffered-values-equal-total-count", lambda o: td_weight(o) + blen(o) == o._total_count),
]


def td_rep_ok(o):
    """all representation invariants of a digest as one clause (contracts used as stubs do not assume class
    invariants: _flush / _compress hand them to their callers through this postcondition)"""
    r = None
    for _n, f in TD_INV:
        r = f(o) if r is None else (r & f(o))
    return r


# TDigest._flush: for value in self._buffer (sorted): self._centroids.append(_Centroid(mean=value, count=1))
loop(F_TD, "TDigest._flush", 1, modifies=[("TDigest", "_centroids")], inv=[
    ("one-centroid-per-buffered-value", lambda L: clen(L.self) == clen(L.old(L.self)) + L.i),
    ("earlier-centroids-kept", lambda L: forall(Int, lambda j: implies(
        (0 <= j) & (j < clen(L.old(L.self))),
        mk_bool(z3.Select(carr(L.self), j.t) == z3.Select(carr(L.old(L.self)), j.t))), "cj")),
    ("appended-centroids-are-unit-weight-buffered-values", lambda L: _hint(L.i) and forall(Int, lambda j: implies(
        (clen(L.old(L.self)) <= j) & (j < clen(L.self)),
        (ccnt(L.self, j) == 1) & within(L.self, cmean(L.self, j))
        & (cmean(L.self, j) == buf_at(L.self, j - clen(L.old(L.self))))), "cj")),
    ("weight-grows-by-one-per-value", lambda L: td_weight(L.self) == td_weight(L.old(L.self)) + L.i),
])


# TDigest._compress: for centroid in self._centroids (sorted): merge into the last compressed centroid or append
def _cmp_last_below(L):
    n = vlen(L.compressed)
    _hint(n - 1, L.i - 1, L.i)
    return implies(L.i >= 1, v_mean(varr(L.compressed), n - 1) <= cmean(L.self, L.i - 1))


loop(F_TD, "TDigest._compress", 1, types={"compressed": VC, "running_count": Int}, inv=[
    ("compressed-empty-only-before-the-first-centroid", lambda L:
        iff(L.i == 0, vlen(L.compressed) == 0) & (vlen(L.compressed) <= L.i)),
    ("running-count-is-the-weight-seen", lambda L: L.running_count == mk_num(Wt(carr(L.self), L.i))),
    ("compressed-weight-is-the-weight-seen", lambda L:
        mk_num(Wt(varr(L.compressed), vlen(L.compressed))) == mk_num(Wt(carr(L.self), L.i))),
    ("compressed-centroids-weigh-at-least-one-and-lie-within-min-max", lambda L:
        arr_sound(L.self, varr(L.compressed), vlen(L.compressed))),
    ("compressed-sorted-by-mean", lambda L: arr_sorted(varr(L.compressed), vlen(L.compressed))),
    ("last-compressed-mean-not-above-last-seen-mean", _cmp_last_below),
])


# TDigest.quantile: for i, centroid in enumerate(self._centroids)
def _q_walk(L):
    a = carr(L.self)
    _hint(L.i, L.i + 1, L.i - 1)
    _w_mono_everywhere(a)
    return (L.running_count == mk_num(Wt(a, L.i))) & ((L.i == 0) | (L.target_count > L.running_count))


loop(F_TD, "TDigest.quantile", 1, types={"running_count": Real}, inv=[
    ("running-count-is-the-weight-before-i-and-below-the-target", _q_walk),
])


# TDigest.cdf: for i, centroid in enumerate(self._centroids)
def _cdf_walk(L):
    a = carr(L.self)
    _hint(L.i, L.i + 1, L.i - 1)
    _w_mono_everywhere(a)
    return (L.count_below == mk_num(Wt(a, L.i))) & forall(Int, lambda k: implies(
        (0 <= k) & (k < L.i), cmean(L.self, k) < L.value), "ck")


loop(F_TD, "TDigest.cdf", 1, types={"count_below": Real}, inv=[
    ("count-below-is-the-weight-before-i-and-earlier-means-are-below-the-value", _cdf_walk),
])

# ============================================================================ Merkle tree: helpers
F_MK = "happysimulator/sketching/merkle_tree.py"
# representation only (no logical content): the accumulator of _diff_nodes starts as an EMPTY symbolic list, so
# that `result.extend(<list returned by the recursive call>)` is a sequence concatenation
ghost(F_MK, "_diff_nodes", "result: list[KeyRange] = []", "result = _c20_empty_ranges()")

from specs.common import *  # noqa: E402,F401
from happysimulator.sketching.bloom_filter import BloomFilter  # noqa: E402
from happysimulator.sketching.tdigest import TDigest, _Centroid as TCentroid  # noqa: E402
from happysimulator.sketching.merkle_tree import MerkleTree, MerkleNode, KeyRange  # noqa: E402
from happysimulator.sketching.base import Sketch  # noqa: E402
from happysimulator.components.sketching.sketch_collector import SketchCollector  # noqa: E402
from happysimulator.components.sketching.topk_collector import TopKCollector  # noqa: E402
from happysimulator.components.sketching.quantile_estimator import QuantileEstimator  # noqa: E402
from happysimulator.sketching.reservoir import ReservoirSampler  # noqa: E402
from happysimulator.sketching.hyperloglog import HyperLogLog  # noqa: E402
from happysimulator.sketching.topk import TopK, _Counter  # noqa: E402
from happysimulator.sketching.base import FrequencyEstimate  # noqa: E402
from happysimulator.sketching.count_min_sketch import CountMinSketch  # noqa: E402

PROPERTY = {
    "id": "C20",
    "level": "proof",
    "trusted": ["heap typing of the fields declared in specs/C20.py (lists used as tables are typed Vec: array + length)",
                "bit model of pyvc/bits.py (|, &, ^, <<, >> on ints: uninterpreted bit predicate + defining facts; "
                "bin(x).count('1') an uninterpreted non-negative int)",
                "min(d.values(), key=f) / min(f(v) for v in d.values()) over a symbolic dict return an ARBITRARY minimal "
                "element/value (pyvc/rt.py _map_extreme); sum(<genexpr over a list of symbolic length>) is an arbitrary number",
                "list.sort() / list.extend() on a Vec (pyvc/vec.py): sort returns an ordered permutation (index maps pi/pinv), "
                "extend the concatenation; the spec-registered facts `a finite sum does not depend on the order of its terms` "
                "and `the sum of a concatenation is the sum of the sums` are assumed for the t-digest prefix weight W "
                "(_td_sort_extend_facts)",
                "tasks `_hash[range]`: hashlib.sha256 digests unpacked with struct '>Q' are arbitrary ints in [0, 2**64) "
                "and builtin hash() is an arbitrary int (spec-local models _ModelHashlib/_ModelStruct/_model_hash)"],
    "assumptions": COMMON_ASSUMPTIONS + [
        "A-python: no monkey-patching/reflection; list, dict, range, min, max behave as documented",
        "items are modelled as ints: only equality and the sketch's hash of an item are observed; one relational task "
        "(bloom_add_then_contains) runs add / contains on OPAQUE (Any) items identified by repr(item) (uninterpreted, "
        "deterministic): Bloom / Count-Min / HyperLogLog read an item only through repr, so their one-sided guarantees "
        "are guarantees PER REPR - keys equal under == with different reprs (1, 1.0, True) are different items for them "
        "(natively: add(1); 1.0 in bf is False - triage/c20_equal_keys_different_repr.py); TopK / reservoir use ==/hash",
        "hashlib.sha256 / struct.pack / repr / builtin hash (within one process) are deterministic: "
        "BloomFilter._hash(item, i) is a fixed function of (seed, size_bits, item, i), CountMinSketch._hash(item, row) of "
        "(seed, width, item, row) [its _hash_seeds are a function of seed and row], HyperLogLog._hash(item) of (seed, item); "
        "callers use this stub (fixed function + range; the range half is proved from the real code in tasks `_hash[range]`)",
        "_count_leading_zeros(value, max_bits) is a fixed function of its arguments (stub; its value range is not needed)",
        "random.Random.randint(a, b) returns an int in [a, b], random() a float in [0, 1) (stubs); the seed is irrelevant",
        "t-digest centroids are immutable after construction (no statement of tdigest.py assigns `.mean` / `.count`: "
        "checked by a source scan at spec import), so the centroid list is a list of (mean, count) VALUES",
        "t-digest weights: W(list, i) = sum of max(1, count) over the first i centroids is an uninterpreted function used "
        "through its defining equations (D0/D1) plus three consequences whose induction base and step are machine-checked "
        "(lemma tdigest-prefix-weight-facts: frame under a store, W(j)-W(i) >= j-i, concatenation); the inductions "
        "themselves are not machine-checked",
        "TDigest._max_size returns some float without effect on modelled state (stub without clauses: the size bound only "
        "steers how much _compress merges, no clause depends on it; its sqrt / division are not verified to be defined)",
        "TDigest.merge(other) with other is self is not covered (precondition of the merge task)",
        "floats are reals (A-float): the t-digest clauses are proved for exact arithmetic; rounding inside the "
        "interpolation is covered by the bounded stand-in tdigest-quantiles only",
        "CountMinSketch._generate_hash_seeds returns one seed per row (stub, used by the constructor task only)",
        "value / weight extractors of the collectors are arbitrary total functions without effect on modelled state "
        "(spec-side classes _ValueFn/_WeightFn/_RealFn record their answer in ghost fields); Sketch.add of the "
        "collector's sketch is the interface stub (records the call in ghost fields)",
        "stubs TopK.add / TDigest.add used by TopKCollector / QuantileEstimator are sub-contracts of the clauses proved "
        "for those functions in this file (true-count-recorded, total / weight-counted)",
        "homomorphism: merge(sk(S1), sk(S2)) == sk(S1 ++ S2) follows from the proved ctor/add/merge clauses by induction on "
        "S2 with the machine-checked base and step lemmas (*-merge-homomorphism); the induction itself is not machine-checked",
        "TopK heavy hitters: lemma topk-heavy-hitters-are-tracked assumes `sum of tracked counts == N` (follows from the "
        "proved per-branch clauses of TopK.add by induction; a sum over a symbolic dict is not expressible) and "
        "`a sum of n counts each >= m is >= n*m`; cross-checked natively by bounded stand-in topk-sum-and-heavy-hitters",
        "HyperLogLog precision is one of 4..16 (constructor check) - add/ctor are verified once per precision",
        "Merkle trees: SHA-256 over the leaf / inner-node encodings is collision-free, in the form `the hash of a subtree "
        "determines its key/value content` (uninterpreted CDOM / CVAL of the hash); every MerkleNode on the heap is "
        "well-formed (mk_wf: children both present or both absent, keys of the content within the key range, content of "
        "an inner node = union of its children's) - this is what _build_tree establishes, NOT machine-checked "
        "(construction of a frozen dataclass is out of reach), cross-checked end-to-end by the bounded stand-in merkle-diff",
        "_diff_nodes is verified by induction on the tree depth (recursive calls through its own contract): partial "
        "correctness, termination (finite trees) is not proved; its accumulator starts as an empty symbolic list "
        "(representation-only ghost statement)",
        "`diff == [] whenever the two maps are equal` needs `equal maps build equal root hashes` (determinism of "
        "build): bounded stand-in only; proved: equal root hashes give [], and [] implies no key differs (coverage)",
    ],
}

ITEM = Int

# ============================================================================ Bloom filter
cls(BloomFilter,
    fields={"_size_bits": Int, "_num_hashes": Int, "_seed": Int, "_bits": Vec(Int), "_bits_set": Int,
            "_total_count": Int},
    ghost={"g_items": Set(ITEM)},
    const=["_size_bits", "_num_hashes", "_seed"],
    inv=[("dimensions", lambda o: (o._size_bits >= 1) & (o._num_hashes >= 1)),
         ("words-cover-bits", lambda o: slen(o._bits) == (o._size_bits + 63) // 64),
         # the one-sided guarantee as a representation invariant: every bit of every added item is set
         ("added-items-bits-set", lambda o: forall(Int, lambda x: forall(Int, lambda i: implies(
             contains(o.g_items, x) & (0 <= i) & (i < o._num_hashes), hbit(o, x, i)))))])

stub_of(BloomFilter, "_hash", returns=Int, modifies=[], ensures=[
    lambda s: s.result == bh(s.self, s.item, s.i),
    lambda s: (0 <= s.result) & (s.result < s.self._size_bits)])

fn(BloomFilter, "_set_bit", args={"bit_idx": Int}, modifies=["_bits"], returns=Bool,
   requires=[lambda s: (0 <= s.bit_idx) & (s.bit_idx < s.self._size_bits)],
   ensures=[
    ("sets-exactly-that-bit", lambda s: forall(Int, lambda n: implies(
        (0 <= n) & (n < 64 * slen(s.self._bits)),
        iff(bitat(s.self, n), bitat(s.old(s.self), n) | (n == s.bit_idx))))),
    ("reports-whether-new", lambda s: iff(s.result, Not(bitat(s.old(s.self), s.bit_idx)))),
    ("len-kept", lambda s: slen(s.self._bits) == slen(s.old(s.self)._bits)),
    ("frame", lambda s: unchanged(s, s.self, "_size_bits", "_num_hashes", "_seed", "_bits_set", "_total_count"))])

fn(BloomFilter, "_get_bit", args={"bit_idx": Int}, modifies=[], returns=Bool,
   requires=[lambda s: (0 <= s.bit_idx) & (s.bit_idx < s.self._size_bits)],
   ensures=[("reads-that-bit", lambda s: iff(s.result, bitat(s.self, s.bit_idx))),
            ("pure", lambda s: unchanged(s, s.self))])

BLOOM_HELPERS = [(BloomFilter, "_hash"), (BloomFilter, "_set_bit"), (BloomFilter, "_get_bit")]


def _opt_or(v, default):
    return default if v is None else v


ctor(BloomFilter, args={"size_bits": Int, "num_hashes": Opt(Int), "seed": Opt(Int)},
     setup=lambda s: _bits.zero_fact(),
     ensures=[
         ("dimensions-as-given", lambda s: (s.self._size_bits == s.size_bits)
             & (s.self._num_hashes == _opt_or(s.num_hashes, 7)) & (s.self._seed == _opt_or(s.seed, 0))),
         ("sketch-of-empty-stream", lambda s: forall(Int, lambda n: implies(in_bits(s.self, n), Not(bitat(s.self, n))))),
         ("no-items", lambda s: s_is_empty(items_of(s.self))),
         ("counters-zero", lambda s: (s.self._total_count == 0) & (s.self._bits_set == 0))],
     raises={ValueError: [("only-bad-dimensions", lambda s: (s.size_bits <= 0)
                           | (False if s.num_hashes is None else s.num_hashes <= 0))]})

fn(BloomFilter, "add", args={"item": ITEM, "count": Int}, uses=BLOOM_HELPERS,
   ensures=[
    ("item-recorded", lambda s: s_eq(items_of(s.self), ite_set(
        s.count > 0, s_add(items_of(s.old(s.self)), _t(s.item)), items_of(s.old(s.self))))),
    ("old-bits-kept", lambda s: forall(Int, lambda n: implies(
        in_bits(s.self, n) & bitat(s.old(s.self), n), bitat(s.self, n)))),
    ("item-bits-set", lambda s: forall(Int, lambda j: implies(
        (s.count > 0) & (0 <= j) & (j < s.self._num_hashes), hbit(s.self, s.item, j)))),
    ("nothing-else-set", lambda s: forall(Int, lambda n: implies(
        in_bits(s.self, n) & bitat(s.self, n),
        bitat(s.old(s.self), n) | ((s.count > 0) & _hash_positions(s.self, s.item, n, s.self._num_hashes))))),
    ("total", lambda s: s.self._total_count == s.old(s.self)._total_count + s.count)],
   raises={ValueError: [("only-negative-count", lambda s: s.count < 0), ("frame", lambda s: unchanged(s, s.self))]})

fn(BloomFilter, "contains", args={"item": ITEM}, uses=BLOOM_HELPERS, returns=Bool, modifies=[],
   ensures=[
    # the property: every inserted item is reported present
    ("no-false-negative", lambda s: implies(contains(s.self.g_items, s.item), s.result)),
    ("true-means-all-bits-set", lambda s: forall(Int, lambda j: implies(
        to_b(s.result) & (0 <= j) & (j < s.self._num_hashes), hbit(s.self, s.item, j)))),
    ("false-means-some-bit-clear", lambda s: implies(Not(s.result), exists(Int, lambda j: (0 <= j)
        & (j < s.self._num_hashes) & Not(bitat(s.self, bh(s.self, s.item, j)))))),
    ("pure", lambda s: unchanged(s, s.self))])

fn(BloomFilter, "__contains__", args={"item": ITEM}, uses=[(BloomFilter, "contains")],
   ensures=[("no-false-negative", lambda s: implies(contains(s.self.g_items, s.item), s.result)),
            ("pure", lambda s: unchanged(s, s.self))])

fn(BloomFilter, "merge", args={"other": Ref(BloomFilter)},
   ensures=[
    # sketch(s1 ++ s2): bit set iff set in either input (see lemma bloom-merge-homomorphism)
    ("bits-are-the-union", lambda s: forall(Int, lambda n: implies(
        in_bits(s.self, n), iff(bitat(s.self, n), bitat(s.old(s.self), n) | bitat(s.old(s.other), n))))),
    ("items-are-the-union", lambda s: s_eq(items_of(s.self), s_union(items_of(s.old(s.self)), items_of(s.old(s.other))))),
    ("other-unchanged", lambda s: same(s.self, s.other) | unchanged(s, s.other)),
    # mismatched parameters are rejected: a merge that returns normally had equal size, hash count and seed
    ("accepted-only-with-equal-parameters", lambda s: (s.self._size_bits == s.other._size_bits)
        & (s.self._num_hashes == s.other._num_hashes) & (s.self._seed == s.other._seed)),
    ("total", lambda s: s.self._total_count == s.old(s.self)._total_count + s.old(s.other)._total_count)],
   raises={ValueError: [
       ("only-incompatible", lambda s: (s.self._size_bits != s.other._size_bits)
           | (s.self._num_hashes != s.other._num_hashes) | (s.self._seed != s.other._seed)),
       ("frame", lambda s: unchanged(s, s.self))]})

# ---- opaque items.  Everywhere else items are ints.  Here the two items are OPAQUE (Any) values that the filter reads
# only through repr(item) (uninterpreted REPR; the hash stub is a function of (seed, size, repr, i)).  Two REAL calls:
# add(x) then contains(y).  What the code promises is "present when the REPRS are equal" - for keys that are equal
# under == but print differently (1 / 1.0 / True) there is NO guarantee (natively: add(1); 1.0 in bf is False;
# triage/c20_equal_keys_different_repr.py), which the clause states by being conditional on the repr only.
import happysimulator.sketching.bloom_filter as _bloom_mod0  # noqa: E402


def _item_key(item):
    return mk_num(_t(item)) if isinstance(item, T.SymAny) else item


_bloom_mod0._c20_item_key = _item_key


def bloom_add_then_contains(bf, x, y):
    bf.add(x)
    return bf.contains(y)


fn("specs.C20", "bloom_add_then_contains", kind="function", args={"bf": Ref(BloomFilter), "x": Any, "y": Any},
   uses=BLOOM_HELPERS,
   ensures=[
    ("an-item-with-the-same-repr-is-reported-present", lambda s: implies(mk_bool(REPR(s.x.t) == REPR(s.y.t)), s.result)),
    ("recorded-under-its-repr", lambda s: contains(s.bf.g_items, mk_num(_t(s.x)))),
    ("earlier-items-still-present", lambda s: forall(Int, lambda z: implies(
        contains(s.old(s.bf).g_items, z), contains(s.bf.g_items, z))))])

# ============================================================================ Count-Min sketch
import happysimulator.sketching.count_min_sketch as _cms_mod  # noqa: E402


def _ghost_sum_counts(a, b):
    """ghost: the pointwise sum of two count maps (multiset union of the two streams)"""
    m = CNT.fresh("g_sum")
    assume(forall(Int, lambda x: m.get(x, 0) == a.get(x, 0) + b.get(x, 0)))
    return m


_cms_mod._c20_sum_counts = _ghost_sum_counts

cls(CountMinSketch,
    fields={"_width": Int, "_depth": Int, "_seed": Int, "_counters": V2, "_total_count": Int, "_hash_seeds": V1},
    ghost={"g_true": CNT},
    const=["_width", "_depth", "_seed", "_hash_seeds"],
    inv=[("dimensions", lambda o: (o._width >= 1) & (o._depth >= 1)),
         ("shape", cms_shape),
         ("one-hash-seed-per-row", lambda o: slen(o._hash_seeds) == o._depth),
         ("true-counts-nonneg", lambda o: forall(Int, lambda x: tru(o, x) >= 0)),
         ("counters-nonneg", lambda o: forall(Int, lambda r: forall(Int, lambda c: implies(
             in_row(o, r) & in_col(o, c), cell(o, r, c) >= 0)))),
         # the one-sided guarantee as a representation invariant: in every row the counter an item hashes
         # to is at least the item's true count
         ("row-counters-dominate-true-count", lambda o: forall(Int, lambda x: forall(Int, lambda r: implies(
             in_row(o, r) & (tru(o, x) > 0),
             in_col(o, ch(o, x, r)) & (cell(o, r, ch(o, x, r)) >= tru(o, x))))))])

stub_of(CountMinSketch, "_hash", returns=Int, modifies=[], ensures=[
    lambda s: s.result == ch(s.self, s.item, s.row),
    lambda s: (0 <= s.result) & (s.result < s.self._width)])
CMS_HASH = [(CountMinSketch, "_hash")]

fn(CountMinSketch, "add", args={"item": ITEM, "count": Int}, uses=CMS_HASH,
   ensures=[
    ("increments-the-hashed-counter-of-every-row", lambda s: forall(Int, lambda r: forall(Int, lambda c: implies(
        in_row(s.self, r) & in_col(s.self, c),
        cell(s.self, r, c) == cell(s.old(s.self), r, c) + ite(c == ch(s.self, s.item, r), s.count, 0))))),
    ("true-count-recorded", lambda s: forall(Int, lambda x:
        tru(s.self, x) == tru(s.old(s.self), x) + ite(x == s.item, s.count, 0))),
    ("total", lambda s: s.self._total_count == s.old(s.self)._total_count + s.count)],
   raises={ValueError: [("only-negative-count", lambda s: s.count < 0), ("frame", lambda s: unchanged(s, s.self))]})

fn(CountMinSketch, "estimate", args={"item": ITEM}, uses=CMS_HASH, returns=Int, modifies=[],
   ensures=[
    # the property: a Count-Min sketch never underestimates
    ("never-underestimates", lambda s: s.result >= tru(s.self, s.item)),
    ("is-the-minimum-over-rows", lambda s: forall(Int, lambda r: implies(
        in_row(s.self, r), s.result <= cell(s.self, r, ch(s.self, s.item, r))))),
    ("is-some-rows-counter", lambda s: exists(Int, lambda r: in_row(s.self, r)
        & (s.result == cell(s.self, r, ch(s.self, s.item, r))))),
    ("pure", lambda s: unchanged(s, s.self))])

fn(CountMinSketch, "estimate_with_error", args={"item": ITEM}, uses=[(CountMinSketch, "estimate")],
   ensures=[
    ("reports-the-item", lambda s: s.result.item == s.item),
    ("reported-count-never-underestimates", lambda s: s.result.count >= tru(s.self, s.item)),
    ("pure", lambda s: unchanged(s, s.self))])

fn(CountMinSketch, "merge", args={"other": Ref(CountMinSketch)},
   ensures=[
    # sketch(s1 ++ s2): counters add up cell by cell (see lemma cms-merge-homomorphism)
    ("counters-are-the-sum", lambda s: forall(Int, lambda r: forall(Int, lambda c: implies(
        in_row(s.self, r) & in_col(s.self, c),
        cell(s.self, r, c) == cell(s.old(s.self), r, c) + cell(s.old(s.other), r, c))))),
    ("true-counts-are-the-sum", lambda s: forall(Int, lambda x:
        tru(s.self, x) == tru(s.old(s.self), x) + tru(s.old(s.other), x))),
    ("other-unchanged", lambda s: same(s.self, s.other) | unchanged(s, s.other)),
    ("accepted-only-with-equal-parameters", lambda s: (s.self._width == s.other._width)
        & (s.self._depth == s.other._depth) & (s.self._seed == s.other._seed)),
    ("total", lambda s: s.self._total_count == s.old(s.self)._total_count + s.old(s.other)._total_count)],
   raises={ValueError: [
       ("only-incompatible", lambda s: (s.self._width != s.other._width) | (s.self._depth != s.other._depth)
           | (s.self._seed != s.other._seed)),
       ("frame", lambda s: unchanged(s, s.self))]})

# ============================================================================ HyperLogLog
# view: register i holds the maximum run length rho(x) over the added items x whose index idx(x) is i
# (idx / rho: the top `precision` bits / leading zeros of the rest of the item's 64-bit hash).


def _hll_dims(o):
    p = _t(o._precision)
    return mk_bool(z3.Or(*[z3.And(p == q, _t(o._num_registers) == (1 << q)) for q in PRECISIONS]))


cls(HyperLogLog,
    fields={"_precision": Int, "_num_registers": Int, "_registers": V1, "_seed": Int, "_total_count": Int},
    ghost={"g_items": SET_I},
    const=["_precision", "_num_registers", "_seed"],
    inv=[("registers-are-2^precision", _hll_dims),
         ("one-slot-per-register", lambda o: slen(o._registers) == o._num_registers),
         ("registers-cover-added-items", lambda o: forall(Int, lambda x: implies(
             contains(o.g_items, x),
             in_regs(o, hll_idx(o, x)) & (reg(o, hll_idx(o, x)) >= hll_rho(o, x)))))])

stub_of(HyperLogLog, "_hash", returns=Int, modifies=[], ensures=[
    lambda s: s.result == mk_num(HH(_t(s.self._seed), _t(s.item))),
    lambda s: (0 <= s.result) & (s.result < (1 << 64))])
stub_of(M_HLL, "_count_leading_zeros", returns=Int, modifies=[], ensures=[
    lambda s: s.result == mk_num(CLZ(_t(s.value), _t(s.max_bits)))])
HLL_HELPERS = [(HyperLogLog, "_hash"), (M_HLL, "_count_leading_zeros")]

for _p in PRECISIONS:
    fn(HyperLogLog, "add", label=f"precision={_p}", args={"item": ITEM, "count": Int}, uses=HLL_HELPERS,
       requires=[lambda s, _p=_p: s.self._precision == _p],
       ensures=[
        ("register-of-item-raised-to-its-run-length", lambda s: implies(s.count > 0, reg(s.self, hll_idx(s.self, s.item))
            == vmax(reg(s.old(s.self), hll_idx(s.self, s.item)), hll_rho(s.self, s.item)))),
        ("index-in-range", lambda s: implies(s.count > 0, in_regs(s.self, hll_idx(s.self, s.item)))),
        ("other-registers-untouched", lambda s: forall(Int, lambda k: implies(
            in_regs(s.self, k) & ((k != hll_idx(s.self, s.item)) | (s.count == 0)),
            reg(s.self, k) == reg(s.old(s.self), k)))),
        ("item-recorded", lambda s: s_eq(items_of(s.self), ite_set(
            s.count > 0, s_add(items_of(s.old(s.self)), _t(s.item)), items_of(s.old(s.self))))),
        ("total", lambda s: s.self._total_count == s.old(s.self)._total_count + s.count)],
       raises={ValueError: [("only-negative-count", lambda s: s.count < 0), ("frame", lambda s: unchanged(s, s.self))]})

fn(HyperLogLog, "merge", args={"other": Ref(HyperLogLog)},
   ensures=[
    # sketch(s1 ++ s2): registers are the pointwise maximum (see lemma hll-merge-homomorphism)
    ("registers-are-the-pointwise-max", lambda s: forall(Int, lambda k: implies(
        in_regs(s.self, k), reg(s.self, k) == vmax(reg(s.old(s.self), k), reg(s.old(s.other), k))))),
    ("items-are-the-union", lambda s: s_eq(items_of(s.self), s_union(items_of(s.old(s.self)), items_of(s.old(s.other))))),
    ("other-unchanged", lambda s: same(s.self, s.other) | unchanged(s, s.other)),
    ("accepted-only-with-equal-parameters", lambda s: (s.self._precision == s.other._precision)
        & (s.self._seed == s.other._seed)),
    ("total", lambda s: s.self._total_count == s.old(s.self)._total_count + s.old(s.other)._total_count)],
   raises={ValueError: [
       ("only-incompatible", lambda s: (s.self._precision != s.other._precision) | (s.self._seed != s.other._seed)),
       ("frame", lambda s: unchanged(s, s.self))]})

# ============================================================================ TopK (space-saving)
# ghost g_true: true count of every item.  Representation invariant (Metwally et al.):
#   tracked x:    count - error <= true(x) <= count
#   untracked x:  true(x) <= every tracked count (hence <= max_error()); true(x) == 0 while there is room
from pyvc import ctx as _pctx  # noqa: E402

cls(_Counter, fields={"item": ITEM, "count": Int, "error": Int})
TKMAP = Map(Int, Ref(_Counter))


def tracked(o, x):
    return mk_bool(z3.Select(TKMAP.dt.dom(o._counters.term), _t(x)))


def _cref(o, x):
    return z3.Select(TKMAP.dt.val(o._counters.term), _t(x))


def _cobj(o, x):
    return ObjProxy(_cref(o, x), _Counter, o._frozen)


def cnt(o, x):
    """count of the counter tracked for x (raw; meaningful when tracked(o, x))"""
    return mk_num(field_term(_cobj(o, x), "count"))


def err(o, x):
    return mk_num(field_term(_cobj(o, x), "error"))


def citem(o, x):
    return mk_num(field_term(_cobj(o, x), "item"))


def _allocated(rt):
    h = _pctx.cur().heap
    return mk_bool(z3.And(rt >= 1, rt <= h.alloc))


def tk_size(o):
    return mk_num(TKMAP.dt.size(o._counters.term))


cls(TopK, fields={"_k": Int, "_counters": TKMAP, "_total_count": Int}, ghost={"g_true": CNT}, const=["_k"],
    inv=[("k-positive", lambda o: o._k >= 1),
         ("at-most-k-counters", lambda o: (tk_size(o) <= o._k) & (slen(o._counters) >= 0)),
         ("counters-are-live-objects-keyed-by-their-item", lambda o: forall(Int, lambda x: implies(
             tracked(o, x), _allocated(_cref(o, x)) & (citem(o, x) == x)))),
         ("true-counts-nonneg", lambda o: forall(Int, lambda x: tru(o, x) >= 0)),
         ("tracked-count-brackets-true-count", lambda o: forall(Int, lambda x: implies(
             tracked(o, x), (err(o, x) >= 0) & (cnt(o, x) - err(o, x) <= tru(o, x)) & (tru(o, x) <= cnt(o, x))))),
         ("untracked-true-count-below-every-counter", lambda o: forall(Int, lambda x: forall(Int, lambda y: implies(
             Not(tracked(o, x)) & tracked(o, y), tru(o, x) <= cnt(o, y))))),
         ("untracked-items-unseen-while-there-is-room", lambda o: forall(Int, lambda x: implies(
             Not(tracked(o, x)) & (tk_size(o) < o._k), tru(o, x) == 0)))])

ctor(TopK, args={"k": Int, "seed": Opt(Int)},
     ensures=[("empty", lambda s: (tk_size(s.self) == 0) & (s.self._total_count == 0) & (s.self._k == s.k)),
              ("nothing-seen", lambda s: forall(Int, lambda x: tru(s.self, x) == 0))],
     raises={ValueError: [("only-bad-k", lambda s: s.k <= 0)]})


def _was_untracked_full(s):
    return Not(tracked(s.old(s.self), s.item)) & (tk_size(s.old(s.self)) >= s.self._k) & (s.count > 0)


fn(TopK, "add", args={"item": ITEM, "count": Int},
   ensures=[
    ("true-count-recorded", lambda s: forall(Int, lambda x:
        tru(s.self, x) == tru(s.old(s.self), x) + ite(x == s.item, s.count, 0))),
    ("item-tracked-afterwards", lambda s: implies(s.count > 0, tracked(s.self, s.item))),
    ("zero-count-is-a-no-op", lambda s: implies(s.count == 0, unchanged(s, s.self))),
    # (a) item already tracked: its counter grows by `count`
    ("tracked-item-count-raised", lambda s: implies(tracked(s.old(s.self), s.item) & (s.count > 0),
        (cnt(s.self, s.item) == cnt(s.old(s.self), s.item) + s.count)
        & (err(s.self, s.item) == err(s.old(s.self), s.item)) & (tk_size(s.self) == tk_size(s.old(s.self))))),
    # (b) room left: a new exact counter
    ("new-item-with-room-counted-exactly", lambda s: implies(
        Not(tracked(s.old(s.self), s.item)) & (tk_size(s.old(s.self)) < s.self._k) & (s.count > 0),
        (cnt(s.self, s.item) == s.count) & (err(s.self, s.item) == 0)
        & (tk_size(s.self) == tk_size(s.old(s.self)) + 1))),
    # (c) full: a minimal counter is replaced; the newcomer inherits its count as error
    ("replacement-error-is-the-minimum-count", lambda s: implies(_was_untracked_full(s), forall(Int, lambda y: implies(
        tracked(s.old(s.self), y), err(s.self, s.item) <= cnt(s.old(s.self), y))))),
    ("replacement-count-is-minimum-plus-count", lambda s: implies(_was_untracked_full(s),
        (cnt(s.self, s.item) == err(s.self, s.item) + s.count) & (tk_size(s.self) == tk_size(s.old(s.self))))),
    ("replacement-evicts-a-minimal-counter", lambda s: implies(_was_untracked_full(s), exists(Int, lambda e:
        tracked(s.old(s.self), e) & Not(tracked(s.self, e)) & (cnt(s.old(s.self), e) == err(s.self, s.item))))),
    # frame: no other counter changes, no other key appears
    ("other-counters-untouched", lambda s: forall(Int, lambda y: implies(
        (y != s.item) & tracked(s.self, y),
        tracked(s.old(s.self), y) & (cnt(s.self, y) == cnt(s.old(s.self), y)) & (err(s.self, y) == err(s.old(s.self), y))))),
    ("only-a-full-sketch-drops-a-key", lambda s: forall(Int, lambda y: implies(
        tracked(s.old(s.self), y) & Not(tracked(s.self, y)), _was_untracked_full(s)))),
    ("total", lambda s: s.self._total_count == s.old(s.self)._total_count + s.count)],
   raises={ValueError: [("only-negative-count", lambda s: s.count < 0), ("frame", lambda s: unchanged(s, s.self))]})

fn(TopK, "estimate", args={"item": ITEM},
   ensures=[
    ("tracked-gives-count-else-zero", lambda s: s.result == ite(tracked(s.self, s.item), cnt(s.self, s.item), 0)),
    # the property: an estimate exceeds the true count by at most the reported error, and never undercounts a tracked item
    ("tracked-estimate-within-error-above-true-count", lambda s: implies(tracked(s.self, s.item),
        (s.result >= tru(s.self, s.item)) & (s.result - tru(s.self, s.item) <= err(s.self, s.item)))),
    ("untracked-estimate-does-not-exceed-true-count", lambda s: implies(Not(tracked(s.self, s.item)),
        s.result <= tru(s.self, s.item))),
    ("pure", lambda s: unchanged(s, s.self))])

fn(TopK, "max_error", modifies=[], returns=Int,
   ensures=[
    ("zero-when-empty", lambda s: implies(tk_size(s.self) == 0, s.result == 0)),
    ("below-every-counter", lambda s: forall(Int, lambda y: implies(tracked(s.self, y), s.result <= cnt(s.self, y)))),
    ("is-some-counter", lambda s: implies(tk_size(s.self) > 0, exists(Int, lambda y:
        tracked(s.self, y) & (s.result == cnt(s.self, y))))),
    # the property for untracked items: their true count is at most the reported error
    ("bounds-every-untracked-true-count", lambda s: forall(Int, lambda x: implies(
        Not(tracked(s.self, x)), tru(s.self, x) <= s.result))),
    ("pure", lambda s: unchanged(s, s.self))])

fn(TopK, "estimate_with_error", args={"item": ITEM}, uses=[(TopK, "max_error")],
   ensures=[
    ("reports-the-item", lambda s: s.result.item == s.item),
    ("estimate-exceeds-true-count-by-at-most-the-reported-error", lambda s:
        s.result.count - tru(s.self, s.item) <= s.result.error),
    ("true-count-within-reported-error-of-estimate", lambda s:
        (tru(s.self, s.item) - s.result.count <= s.result.error) & (s.result.error >= 0)),
    ("tracked-never-undercounted", lambda s: implies(tracked(s.self, s.item), s.result.count >= tru(s.self, s.item))),
    ("pure", lambda s: unchanged(s, s.self))])

fn(TopK, "guaranteed_threshold",
   ensures=[("is-floor-of-N-over-k", lambda s: (s.result * s.self._k <= s.self._total_count)
             & (s.self._total_count < (s.result + 1) * s.self._k)),
            ("pure", lambda s: unchanged(s, s.self))])

fn(TopK, "__contains__", args={"item": ITEM},
   ensures=[("iff-tracked", lambda s: iff(s.result, tracked(s.self, s.item))), ("pure", lambda s: unchanged(s, s.self))])

# ============================================================================ Reservoir sampler
import random as _random  # noqa: E402

cls(_random.Random, fields={}).alloc = False
stub_of(_random.Random, "randint", returns=Int, modifies=[], ensures=[lambda s: (s.a <= s.result) & (s.result <= s.b)])
stub_of(_random.Random, "random", returns=Real, modifies=[], ensures=[lambda s: (0 <= s.result) & (s.result < 1)])
RNG = [(_random.Random, "randint"), (_random.Random, "random")]

cls(ReservoirSampler,
    fields={"_size": Int, "_reservoir": V1, "_total_count": Int, "_rng": Ref(_random.Random)},
    ghost={"g_stream": SET_I}, const=["_size", "_rng"],
    inv=[("capacity-positive", lambda o: o._size >= 1),
         ("count-nonneg", lambda o: o._total_count >= 0),
         # the property: the reservoir holds min(k, n) items ...
         ("holds-min-k-n-items", lambda o: slen(o._reservoir) == vmin(o._size, o._total_count)),
         # ... of the stream
         ("held-items-are-stream-items", lambda o: forall(Int, lambda j: implies(
             (0 <= j) & (j < slen(o._reservoir)), seen(o, res_at(o, j)))))])

fn(ReservoirSampler, "_add_one", args={"item": ITEM}, uses=RNG, modifies=["_reservoir", "_total_count", "g_stream"],
   ensures=[
    ("counts-one", lambda s: s.self._total_count == s.old(s.self)._total_count + 1),
    ("holds-min-k-n-items", lambda s: slen(s.self._reservoir) == vmin(s.self._size, s.self._total_count)),
    ("held-items-are-stream-items", lambda s: forall(Int, lambda j: implies(
        (0 <= j) & (j < slen(s.self._reservoir)), seen(s.self, res_at(s.self, j))))),
    ("stream-grows-by-item", lambda s: forall(Int, lambda x: iff(seen(s.self, x), seen(s.old(s.self), x) | (x == s.item)))),
    ("appended-while-room", lambda s: implies(slen(s.old(s.self)._reservoir) < s.self._size,
        (res_at(s.self, slen(s.old(s.self)._reservoir)) == s.item) & forall(Int, lambda j: implies(
            (0 <= j) & (j < slen(s.old(s.self)._reservoir)), res_at(s.self, j) == res_at(s.old(s.self), j))))),
    ("full-replaces-at-most-one-slot-with-item", lambda s: implies(slen(s.old(s.self)._reservoir) >= s.self._size,
        forall(Int, lambda j: implies((0 <= j) & (j < slen(s.self._reservoir)),
                                      (res_at(s.self, j) == res_at(s.old(s.self), j)) | (res_at(s.self, j) == s.item)))))])

fn(ReservoirSampler, "add", args={"item": ITEM, "count": Int}, uses=[(ReservoirSampler, "_add_one")],
   ensures=[
    ("counts-every-occurrence", lambda s: s.self._total_count == s.old(s.self)._total_count + s.count),
    ("stream-grows-by-item-only", lambda s: forall(Int, lambda x: iff(
        seen(s.self, x), seen(s.old(s.self), x) | ((x == s.item) & (s.count > 0)))))],
   raises={ValueError: [("only-negative-count", lambda s: s.count < 0), ("frame", lambda s: unchanged(s, s.self))]})

fn(ReservoirSampler, "__len__",
   ensures=[("is-min-k-n", lambda s: s.result == vmin(s.self._size, s.self._total_count)),
            ("pure", lambda s: unchanged(s, s.self))])

fn(ReservoirSampler, "merge", args={"other": Ref(ReservoirSampler)}, uses=RNG,
   ensures=[
    ("counts-add-up", lambda s: s.self._total_count == s.old(s.self)._total_count + s.old(s.other)._total_count),
    ("stream-is-the-union", lambda s: forall(Int, lambda x: iff(
        seen(s.self, x), seen(s.old(s.self), x) | seen(s.old(s.other), x)))),
    ("other-unchanged", lambda s: same(s.self, s.other) | unchanged(s, s.other)),
    ("accepted-only-with-equal-capacity", lambda s: s.self._size == s.other._size)],
   raises={ValueError: [("only-capacity-mismatch", lambda s: s.self._size != s.other._size),
                        ("frame", lambda s: unchanged(s, s.self))]})

# ============================================================================ t-digest
# Representation invariants TD_INV (helpers section): centroid list sorted by mean, every mean within [min, max],
# every weight >= 1, centroid weights + buffered values == total count.  quantile / cdf are proved against them,
# add / _flush / _compress / merge / clear re-establish them.  Floats are reals here: the float-only part
# (rounding inside the interpolation) stays with the bounded stand-in `tdigest-quantiles`.
_CV_CLASSES.append(TCentroid)


def _centroid_fields_never_reassigned():
    """value semantics of the centroid list are sound only while centroids are immutable after construction"""
    import ast as _ast
    import inspect as _inspect
    import happysimulator.sketching.tdigest as _m
    for node in _ast.walk(_ast.parse(_inspect.getsource(_m))):
        tg = []
        if isinstance(node, _ast.Assign):
            tg = node.targets
        elif isinstance(node, (_ast.AugAssign, _ast.AnnAssign)):
            tg = [node.target]
        for t in tg:
            if isinstance(t, _ast.Attribute) and t.attr in ("mean", "count"):
                raise SpecError(f"tdigest.py line {node.lineno} assigns a centroid field after construction: the "
                                f"value model of the centroid list in specs/C20.py does not cover that")


_centroid_fields_never_reassigned()


def _td_sort_extend_facts(kind, old, other, new, ty):
    """facts about the spec-defined prefix weight W that the list model cannot derive (listed under trusted)"""
    if str(ty.sort()) != str(VC.sort()):
        return None
    n_old, n_new = VC.dt.len(old), VC.dt.len(new)
    if kind == "sort":          # a sum does not depend on the order of its terms
        return TDW(VC.dt.arr(new), n_new) == TDW(VC.dt.arr(old), n_old)
    if kind == "extend":        # the sum of a concatenation is the sum of the sums (lemma td-weight-concat)
        return TDW(VC.dt.arr(new), n_new) == TDW(VC.dt.arr(old), n_old) + TDW(VC.dt.arr(other), VC.dt.len(other))
    return None


_VEC_HOOKS.append(_td_sort_extend_facts)

cls(TDigest,
    fields={"_compression": Real, "_centroids": VC, "_total_count": Int, "_min_value": Opt(Real),
            "_max_value": Opt(Real), "_buffer": VR, "_buffer_size": Int},
    const=["_compression", "_buffer_size"],
    inv=TD_INV)

fn(TCentroid, "merge", self_ty=CV, args={"other": CV}, inv=False, returns=CV,
   requires=[lambda s: (s.self.count >= 1) & (s.other.count >= 1)],
   ensures=[
    ("weights-add-up", lambda s: s.result.count == s.self.count + s.other.count),
    ("mean-lies-between-the-merged-means", lambda s:
        (vmin(s.self.mean, s.other.mean) <= s.result.mean) & (s.result.mean <= vmax(s.self.mean, s.other.mean)))])

# the size bound of a centroid only steers HOW MUCH is merged; no clause of the property depends on it
stub_of(TDigest, "_max_size", returns=Real, modifies=[], ensures=[])


def _td_frame(s, *more):
    return unchanged(s, s.self, "_total_count", "_min_value", "_max_value", "_compression", "_buffer_size", *more)


fn(TDigest, "_compress", inv=False, uses=[(TDigest, "_max_size"), (TCentroid, "merge")], returns=None,
   modifies=["_centroids"],
   requires=[("min-max-shape", lambda s: td_minmax(s.self)),
             ("centroids-sound", lambda s: arr_sound(s.self, carr(s.self), clen(s.self))),
             ("centroid-weights-equal-total-count", lambda s: td_weight(s.self) == s.self._total_count)],
   ensures=[
    ("centroids-sorted-by-mean", lambda s: arr_sorted(carr(s.self), clen(s.self))),
    ("centroids-weigh-at-least-one-and-lie-within-min-max", lambda s: arr_sound(s.self, carr(s.self), clen(s.self))),
    ("total-weight-unchanged", lambda s: td_weight(s.self) == td_weight(s.old(s.self))),
    ("never-more-centroids-and-none-only-if-none", lambda s: (0 <= clen(s.self)) & (clen(s.self) <= clen(s.old(s.self)))
        & iff(clen(s.self) == 0, clen(s.old(s.self)) == 0)),
    ("frame", lambda s: _td_frame(s, "_buffer"))])

fn(TDigest, "_flush", uses=[(TDigest, "_compress")], returns=None, modifies=["_buffer", "_centroids"],
   ensures=[
    ("buffer-emptied", lambda s: blen(s.self) == 0),
    ("centroids-sorted-by-mean", lambda s: arr_sorted(carr(s.self), clen(s.self))),
    ("total-weight-unchanged", lambda s: td_weight(s.self) == td_weight(s.old(s.self)) + blen(s.old(s.self))),
    ("representation-invariant", lambda s: td_rep_ok(s.self)),
    ("no-op-on-an-empty-buffer", lambda s: implies(blen(s.old(s.self)) == 0, unchanged(s, s.self))),
    ("frame", lambda s: _td_frame(s))])


def _td_add_min(s):
    lo = s.old(s.self)._min_value
    new = s.self._min_value
    if new is None:
        return False
    return new == (s.value if lo is None else vmin(lo, s.value))


def _td_add_max(s):
    hi = s.old(s.self)._max_value
    new = s.self._max_value
    if new is None:
        return False
    return new == (s.value if hi is None else vmax(hi, s.value))


fn(TDigest, "add", args={"value": Real, "count": Int}, uses=[(TDigest, "_flush")],
   modifies=["_buffer", "_centroids", "_total_count", "_min_value", "_max_value"],
   ensures=[
    # "t-digest quantiles lie within the observed minimum and maximum": min / max are the stream's
    ("min-is-the-streams-minimum", lambda s: implies(s.count > 0, _td_add_min(s))),
    ("max-is-the-streams-maximum", lambda s: implies(s.count > 0, _td_add_max(s))),
    ("weight-counted", lambda s: s.self._total_count == s.old(s.self)._total_count + s.count),
    ("zero-count-is-a-no-op", lambda s: implies(s.count == 0, unchanged(s, s.self)))],
   raises={ValueError: [("only-negative-count", lambda s: s.count < 0), ("frame", lambda s: unchanged(s, s.self))]})

def _q_rejected(s):
    return (s.q < 0) | (s.q > 1) | (s.old(s.self)._total_count == 0)


TD_FLUSH = [(TDigest, "_flush")]
fn(TDigest, "quantile", args={"q": Real}, uses=TD_FLUSH, returns=Real, modifies=["_buffer", "_centroids"],
   ensures=[
    # the property: t-digest quantiles lie within the observed minimum and maximum
    ("within-observed-min-and-max", lambda s: within(s.self, s.result)),
    ("extreme-levels-give-min-and-max", lambda s: implies(s.q == 0, s.result == td_lo(s.self))
        & implies(s.q == 1, s.result == td_hi(s.self))),
    ("buffer-flushed-weight-kept", lambda s: (blen(s.self) == 0)
        & (td_weight(s.self) == td_weight(s.old(s.self)) + blen(s.old(s.self)))),
    ("frame", lambda s: _td_frame(s))],
   raises={ValueError: [("only-bad-level-or-empty-digest", _q_rejected)]})


def quantile_at_two_levels(td, q1, q2):
    return td.quantile(q1), td.quantile(q2)


# "t-digest quantiles are non-decreasing in q": two REAL calls on one digest (the first call flushes; the
# second runs on the state the first one left)
fn("specs.C20", "quantile_at_two_levels", kind="function", args={"td": Ref(TDigest), "q1": Real, "q2": Real},
   inv=False,       # (the invariants are assumed through the precondition; TDigest.quantile proves them at its exit)
   requires=[lambda s: (0 <= s.q1) & (s.q1 <= s.q2) & (s.q2 <= 1), lambda s: td_rep_ok(s.td)], uses=TD_FLUSH,
   ensures=[("quantiles-non-decreasing-in-q", lambda s: s.result[0] <= s.result[1])],
   raises={ValueError: [("only-empty-digest", lambda s: s.old(s.td)._total_count == 0)]})


def _cdf_range(s):
    r = s.result
    if isinstance(r, float):
        return (r == 0.0) or (r == 1.0)
    return (0 <= r) & (r <= 1)


fn(TDigest, "cdf", args={"value": Real}, uses=TD_FLUSH, returns=Real, modifies=["_buffer", "_centroids"],
   ensures=[
    ("is-a-fraction", _cdf_range),
    ("zero-at-or-below-min-one-at-or-above-max", lambda s: implies(s.self._total_count > 0,
        implies(s.value <= td_lo(s.self), s.result == 0)
        & implies((s.value >= td_hi(s.self)) & (s.value > td_lo(s.self)), s.result == 1))),
    ("buffer-flushed-weight-kept", lambda s: (blen(s.self) == 0)
        & (td_weight(s.self) == td_weight(s.old(s.self)) + blen(s.old(s.self)))),
    ("frame", lambda s: _td_frame(s))])


def cdf_at_two_values(td, v1, v2):
    return td.cdf(v1), td.cdf(v2)


# FINDING (triage/c20_tdigest_cdf.py): on the pinned tree cdf(1.99) > cdf(2.0) for the stream 1, 2, 3 - at the mean of
# a centroid the half weight counted by the interpolation just below it is dropped.  The relational task is
# registered once fixes/C20_tdigest_cdf_monotone.diff is applied (source test); without it the obligation
# cdf-non-decreasing-in-the-value is REFUTED.
import happysimulator.sketching.tdigest as _td_mod  # noqa: E402
import inspect as _inspect  # noqa: E402
CDF_REPAIRED = "prev.mean < value <= centroid.mean" in _inspect.getsource(_td_mod)
if CDF_REPAIRED:
    fn("specs.C20", "cdf_at_two_values", kind="function", args={"td": Ref(TDigest), "v1": Real, "v2": Real},
       inv=False, requires=[lambda s: s.v1 <= s.v2, lambda s: td_rep_ok(s.td)], uses=TD_FLUSH,
       ensures=[("cdf-non-decreasing-in-the-value", lambda s: s.result[0] <= s.result[1])])


def _td_merged_min(s):
    a, b, new = s.old(s.self)._min_value, s.old(s.other)._min_value, s.self._min_value
    if a is None or b is None:
        return _same_opt(new, b if a is None else a)
    return (new is not None) and (new == vmin(a, b))


def _td_merged_max(s):
    a, b, new = s.old(s.self)._max_value, s.old(s.other)._max_value, s.self._max_value
    if a is None or b is None:
        return _same_opt(new, b if a is None else a)
    return (new is not None) and (new == vmax(a, b))


fn(TDigest, "merge", args={"other": Ref(TDigest)}, uses=[(TDigest, "_flush"), (TDigest, "_compress")],
   requires=[lambda s: Not(same(s.self, s.other))],
   ensures=[
    # merge behaves like the union of the two streams: weights add up, min / max are those of the union
    ("weights-add-up", lambda s: (s.self._total_count == s.old(s.self)._total_count + s.old(s.other)._total_count)
        & (td_weight(s.self) == s.self._total_count) & (blen(s.self) == 0)),
    ("min-is-the-smaller-minimum", _td_merged_min),
    ("max-is-the-larger-maximum", _td_merged_max),
    ("other-keeps-its-stream", lambda s: unchanged(s, s.other, "_total_count", "_min_value", "_max_value")
        & (td_weight(s.other) == td_weight(s.old(s.other)) + blen(s.old(s.other))))])

fn(TDigest, "clear", ensures=[
    ("sketch-of-the-empty-stream", lambda s: (s.self._total_count == 0) & (clen(s.self) == 0) & (blen(s.self) == 0)
        & td_empty(s.self))])

fn(TDigest, "centroid_count", uses=TD_FLUSH, returns=Int, ensures=[
    ("counts-the-flushed-centroids", lambda s: (s.result == clen(s.self)) & (blen(s.self) == 0)),
    ("frame", lambda s: _td_frame(s))])

ctor(TDigest, args={"compression": Real, "seed": Opt(Int)},
     ensures=[("sketch-of-the-empty-stream", lambda s: (s.self._total_count == 0) & (clen(s.self) == 0)
               & (blen(s.self) == 0) & td_empty(s.self) & (s.self._compression == s.compression))],
     raises={ValueError: [("only-non-positive-compression", lambda s: s.compression <= 0)]})

fn(TDigest, "min", ensures=[("is-recorded-minimum", lambda s: _same_opt(s.result, s.self._min_value))])
fn(TDigest, "max", ensures=[("is-recorded-maximum", lambda s: _same_opt(s.result, s.self._max_value))])


def _same_opt(a, b):
    if a is None or b is None:
        return (a is None) and (b is None)
    return a == b


# ============================================================================ Merkle tree (the parts within reach)
# diff / _diff_nodes (recursive, by induction on the depth) under contract; _build_tree / build / update / remove:
# bounded native stand-in `merkle-diff` below.
KR = valueclass("KeyRange", [KeyRange], [("start", Str), ("end", Str)])
fn(KeyRange, "contains", self_ty=KR, args={"key": Str}, inv=False, ensures=[
    ("inclusive-range", lambda s: iff(s.result, (s.self.start <= s.key) & (s.key <= s.self.end)))])

M_MK = "happysimulator.sketching.merkle_tree"
cls(MerkleNode, fields={"hash": Str, "key_range": KR, "left": OptRef(MerkleNode), "right": OptRef(MerkleNode)})
cls(MerkleTree, fields={"_root": OptRef(MerkleNode), "_data": Map(Str, Any)})

# ---- the recursive diff, by induction on the tree depth: the recursive calls are used through THIS contract
# content of a subtree = the key/value map it was built from, as a function of its HASH (collision-freeness of
# SHA-256 over the encodings used: a hash determines the content - assumption, listed):
#     CDOM(h) = key set, CVAL(h, k) = value of k.     A node is well-formed (mk_wf) when both children are present or
# both absent, every key of its content lies within its key range, and the content of an inner node is the union of
# its children's contents.  _build_tree establishes it (task below), _diff_nodes relies on it for every node.
import happysimulator.sketching.merkle_tree as _mk_mod  # noqa: E402
from pyvc.heap import Box as _Box  # noqa: E402
S_ = z3.StringSort()
ANY_ = Any.sort()
CDOM = z3.Function("mk_content_keys", S_, z3.ArraySort(S_, z3.BoolSort()))
CVAL = z3.Function("mk_content_value", S_, S_, ANY_)
SKR = Seq(KR)
COVF = z3.Function("mk_covered", SKR.sort(), S_, z3.BoolSort())      # some range of the list contains the key


def _empty_ranges():
    return SymList(_Box(z3.Empty(SKR.sort())), KR)


_mk_mod._c20_empty_ranges = _empty_ranges


def n_hash(n):
    return field_term(n, "hash")


def n_start(n):
    return KR.dt.start(field_term(n, "key_range"))


def n_end(n):
    return KR.dt.end(field_term(n, "key_range"))


def _kid(n, side):
    return ObjProxy(field_term(n, side), MerkleNode, n._frozen)


def mk_union_of(h, hl, hr):
    """content(h) is the union of content(hl) and content(hr)"""
    return mk_bool(CDOM(h) == z3.SetUnion(CDOM(hl), CDOM(hr))) & forall(Str, lambda k: mk_bool(
        CVAL(h, k.t) == z3.If(z3.Select(CDOM(hl), k.t), CVAL(hl, k.t), CVAL(hr, k.t))), "mv")


def mk_wf(n):
    l, r, h = field_term(n, "left"), field_term(n, "right"), n_hash(n)
    inner = mk_bool(l != 0)
    return mk_bool((l == 0) == (r == 0)) \
        & implies(inner, _allocated(l) & _allocated(r)) \
        & implies(inner, mk_union_of(h, n_hash(_kid(n, "left")), n_hash(_kid(n, "right")))) \
        & forall(Str, lambda k: implies(mk_bool(z3.Select(CDOM(h), k.t)),
                                        mk_bool(z3.And(n_start(n) <= k.t, k.t <= n_end(n)))), "mk")


def mk_all_wf(s):
    return forall(Ref(MerkleNode), lambda n: implies(_allocated(n._ref), mk_wf(n)), "mn")


def mk_differs(ha, hb, k):
    """the contents with hashes ha / hb disagree on key k (present in one only, or different values)"""
    da, db = z3.Select(CDOM(ha), k), z3.Select(CDOM(hb), k)
    return mk_bool(z3.And(z3.Or(da, db), z3.Not(z3.And(da, db, CVAL(ha, k) == CVAL(hb, k)))))


def _cov_term(t, k):
    """COVF(t, k) with its definition unfolded along the syntactic structure of the sequence term"""
    c = _pctx.cur()
    t = z3.simplify(t)
    if z3.is_app_of(t, z3.Z3_OP_SEQ_CONCAT):
        c.assume(COVF(t, k) == z3.Or(*[_cov_term(x, k) for x in t.children()]))
    elif z3.is_app_of(t, z3.Z3_OP_SEQ_EMPTY):
        c.assume(z3.Not(COVF(t, k)))
    elif z3.is_app_of(t, z3.Z3_OP_SEQ_UNIT):
        x = t.arg(0)
        c.assume(COVF(t, k) == z3.And(KR.dt.start(x) <= k, k <= KR.dt.end(x)))
    return COVF(t, k)


def mk_covered(ranges, k):
    """some KeyRange of the returned list contains key k"""
    if isinstance(ranges, SymList):
        return mk_bool(_cov_term(ranges.term, k.t))
    r = False
    for x in ranges:
        r = ((x.start <= k) & (k <= x.end)) | r
    return r


fn(M_MK, "_diff_nodes", kind="function", args={"a": Ref(MerkleNode), "b": Ref(MerkleNode)}, returns=SKR, modifies=[],
   uses=[(M_MK, "_diff_nodes")], requires=[("every-node-well-formed", mk_all_wf)],
   ensures=[
    # the property: the ranges cover every key whose value differs (or that only one side holds)
    ("ranges-cover-every-differing-key", lambda s: forall(Str, lambda k: implies(
        mk_differs(n_hash(s.a), n_hash(s.b), k.t), mk_covered(s.result, k)), "dk")),
    ("equal-hashes-give-no-range", lambda s: implies(mk_bool(n_hash(s.a) == n_hash(s.b)), slen(s.result) == 0)),
    ("pure", lambda s: unchanged(s, s.a) & unchanged(s, s.b))])


def _one_range(r, node):
    if isinstance(r, SymList) or len(r) != 1:
        return False
    return (r[0].start == node.key_range.start) & (r[0].end == node.key_range.end)


def _mk_diff_post(s):
    a, b = s.self._root, s.other._root
    r = s.result
    if a is None and b is None:
        return (not isinstance(r, SymList)) and len(r) == 0        # two empty maps: empty diff
    if a is None:
        return _one_range(r, b)                                      # everything the other tree holds is reported
    if b is None:
        return _one_range(r, a)
    if isinstance(r, SymList):                                       # descended into _diff_nodes: root hashes differ
        return a.hash != b.hash
    return (len(r) == 0) & (a.hash == b.hash)                        # equal root hash: empty diff


# ---- tree construction (recursive, through its own contract): establishes mk_wf for every node it allocates
ITEMS = Seq(Tuple(Str, Any))
_ITEM = Tuple(Str, Any)
HL = z3.Function("mk_hash_leaf", S_, ANY_, S_)
HC = z3.Function("mk_hash_children", S_, S_, S_)
# collision-freeness of the two hash encodings, in the form the proof uses: the hash determines the content
stub_of(M_MK, "_hash_leaf", returns=Str, modifies=[], ensures=[
    lambda s: mk_bool(s.result.t == HL(s.key.t, Any.unwrap(s.value))),
    lambda s: mk_bool(CDOM(s.result.t) == z3.Store(z3.K(S_, z3.BoolVal(False)), s.key.t, z3.BoolVal(True)))
        & mk_bool(CVAL(s.result.t, s.key.t) == Any.unwrap(s.value))])
stub_of(M_MK, "_hash_children", returns=Str, modifies=[], ensures=[
    lambda s: mk_bool(s.result.t == HC(Str.unwrap(s.left_hash), Str.unwrap(s.right_hash))),
    lambda s: mk_union_of(s.result.t, Str.unwrap(s.left_hash), Str.unwrap(s.right_hash))])


def item_key(items, i):
    return _ITEM.acc(0)(seq_term(items)[_t(i)])


def item_val(items, i):
    return _ITEM.acc(1)(seq_term(items)[_t(i)])


def items_sorted(items):
    return forall(Int, lambda i: forall(Int, lambda j: implies(
        (0 <= i) & (i < j) & (j < slen(items)), mk_bool(item_key(items, i) < item_key(items, j))), "ij"), "ii")


def _bt_holds_items(s):
    h = n_hash(s.result)
    return forall(Int, lambda i: implies((0 <= i) & (i < slen(s.sorted_items)), mk_bool(z3.And(
        z3.Select(CDOM(h), item_key(s.sorted_items, i)),
        CVAL(h, item_key(s.sorted_items, i)) == item_val(s.sorted_items, i)))), "bi")


def _bt_holds_nothing_else(s):
    h = n_hash(s.result)
    n = num(slen(s.sorted_items))
    i = z3.Int("bt_w")
    return forall(Str, lambda k: implies(mk_bool(z3.Select(CDOM(h), k.t)), mk_bool(z3.Exists(
        [i], z3.And(0 <= i, i < n, _ITEM.acc(0)(seq_term(s.sorted_items)[i]) == k.t)))), "bk")


# NOT REGISTERED (tried, out of reach): the contract of _build_tree drafted above needs (1) construction of a FROZEN
# dataclass on a symbolic reference (its generated __init__ uses object.__setattr__, which bypasses the proxy:
# OUT-OF-REACH "'ObjProxy' object has no attribute 'hash'") and (2) sortedness of the two slices at the recursive
# call sites (string order under two nested index quantifiers over Extract terms: UNDECIDED after 530 s).
# mk_wf of the nodes _build_tree allocates therefore stays an ASSUMPTION of _diff_nodes / diff (listed); build /
# update / remove and the end-to-end statement on maps are covered by the bounded stand-in `merkle-diff`.
_BUILD_TREE_DRAFT = dict(
   uses=[(M_MK, "_build_tree"), (M_MK, "_hash_leaf"), (M_MK, "_hash_children")],
   requires=[("at-least-one-item", lambda s: slen(s.sorted_items) >= 1),
             ("items-strictly-sorted-by-key", lambda s: items_sorted(s.sorted_items)),
             ("every-node-well-formed", mk_all_wf)],
   ensures=[
    ("every-node-well-formed", mk_all_wf),
    ("content-holds-every-item", _bt_holds_items),
    ("content-holds-nothing-else", _bt_holds_nothing_else),
    ("key-range-spans-first-to-last-key", lambda s: mk_bool(z3.And(
        n_start(s.result) == item_key(s.sorted_items, 0),
        n_end(s.result) == item_key(s.sorted_items, slen(s.sorted_items) - 1))))])


def _mk_diff_covers(s):
    """every key on which the two trees' contents disagree lies in a returned range (an empty tree has no keys)"""
    a, b = s.self._root, s.other._root
    if a is None and b is None:
        return True
    if a is None or b is None:
        h = n_hash(b if a is None else a)
        return forall(Str, lambda k: implies(mk_bool(z3.Select(CDOM(h), k.t)), mk_covered(s.result, k)), "dk")
    return forall(Str, lambda k: implies(mk_differs(n_hash(a), n_hash(b), k.t), mk_covered(s.result, k)), "dk")


fn(MerkleTree, "diff", args={"other": Ref(MerkleTree)}, uses=[(M_MK, "_diff_nodes")],
   requires=[("every-node-well-formed", mk_all_wf)],
   ensures=[("top-level-cases", _mk_diff_post),
            # the property: otherwise its ranges cover every key whose value differs
            ("ranges-cover-every-differing-key", _mk_diff_covers),
            ("pure", lambda s: unchanged(s, s.self) & (same(s.self, s.other) | unchanged(s, s.other)))])

# ============================================================================ collectors: handle_event feeds the sketch once
class _ValueFn:
    """spec-side stand-in for a user value extractor: an arbitrary function; ghost fields record its answer"""

    def __call__(self, event):
        raise NotImplementedError


class _WeightFn:
    def __call__(self, event):
        raise NotImplementedError


cls(_ValueFn, ghost={"g_none": Bool, "g_val": Int, "g_calls": Int}).alloc = False
cls(_WeightFn, ghost={"g_val": Int, "g_calls": Int}).alloc = False
stub_of(_ValueFn, "__call__", returns=Opt(Int), modifies=["g_none", "g_val", "g_calls"], ensures=[
    lambda s: s.self.g_calls == s.old(s.self).g_calls + 1,
    lambda s: s.self.g_none if s.result is None else (Not(s.self.g_none) & (s.self.g_val == s.result))])
stub_of(_WeightFn, "__call__", returns=Int, modifies=["g_val", "g_calls"], ensures=[
    lambda s: s.self.g_calls == s.old(s.self).g_calls + 1, lambda s: s.self.g_val == s.result])

cls(Sketch, ghost={"g_adds": Int, "g_item": Int, "g_count": Int})
stub_of(Sketch, "add", returns=None, modifies=["g_adds", "g_item", "g_count"], ensures=[
    lambda s: s.self.g_adds == s.old(s.self).g_adds + 1,
    lambda s: (s.self.g_item == s.item) & (s.self.g_count == s.count)])

cls(SketchCollector, fields={"_sketch": Ref(Sketch), "_value_extractor": Ref(_ValueFn),
                             "_weight_extractor": OptRef(_WeightFn), "_events_processed": Int})


def _weight_used(s):
    w = s.self._weight_extractor
    return 1 if w is None else w.g_val


fn(SketchCollector, "handle_event", args={"event": Ref(Event)},
   uses=[(_ValueFn, "__call__"), (_WeightFn, "__call__"), (Sketch, "add")],
   ensures=[
    ("counts-the-event", lambda s: s.self._events_processed == s.old(s.self)._events_processed + 1),
    ("value-extracted-once", lambda s: s.self._value_extractor.g_calls == s.old(s.self._value_extractor).g_calls + 1),
    ("sketch-fed-exactly-once-iff-a-value-was-extracted", lambda s:
        s.self._sketch.g_adds == s.old(s.self._sketch).g_adds + ite(s.self._value_extractor.g_none, 0, 1)),
    ("sketch-fed-the-events-value-and-weight", lambda s: implies(Not(s.self._value_extractor.g_none),
        (s.self._sketch.g_item == s.self._value_extractor.g_val) & (s.self._sketch.g_count == _weight_used(s)))),
    ("emits-nothing", lambda s: isinstance(s.result, list) and len(s.result) == 0)])

# TopKCollector / QuantileEstimator own a concrete sketch: its `add` is used through the clauses proved above
stub_of(TopK, "add", returns=None, modifies=["_counters", "_total_count", "g_true"], ensures=[
    lambda s: forall(Int, lambda x: tru(s.self, x) == tru(s.old(s.self), x) + ite(x == s.item, s.count, 0)),
    lambda s: s.self._total_count == s.old(s.self)._total_count + s.count])
cls(TopKCollector, fields={"_topk": Ref(TopK), "_value_extractor": Ref(_ValueFn),
                           "_count_extractor": OptRef(_WeightFn), "_events_processed": Int})


def _count_used(s):
    w = s.self._count_extractor
    return 1 if w is None else w.g_val


fn(TopKCollector, "handle_event", args={"event": Ref(Event)},
   uses=[(_ValueFn, "__call__"), (_WeightFn, "__call__"), (TopK, "add")],
   ensures=[
    ("counts-the-event", lambda s: s.self._events_processed == s.old(s.self)._events_processed + 1),
    ("true-count-of-the-events-value-grows-by-its-weight-once", lambda s: forall(Int, lambda x:
        tru(s.self._topk, x) == tru(s.old(s.self._topk), x) + ite(
            Not(s.self._value_extractor.g_none) & (x == s.self._value_extractor.g_val), _count_used(s), 0))),
    ("emits-nothing", lambda s: isinstance(s.result, list) and len(s.result) == 0)])

stub_of(TDigest, "add", returns=None, modifies=["_buffer", "_centroids", "_total_count", "_min_value", "_max_value"],
        ensures=[lambda s: s.self._total_count == s.old(s.self)._total_count + s.count])


class _RealFn:
    def __call__(self, event):
        raise NotImplementedError


cls(_RealFn, ghost={"g_none": Bool, "g_rval": Real, "g_calls": Int}).alloc = False
stub_of(_RealFn, "__call__", returns=Opt(Real), modifies=["g_none", "g_rval", "g_calls"], ensures=[
    lambda s: s.self.g_calls == s.old(s.self).g_calls + 1,
    lambda s: s.self.g_none if s.result is None else (Not(s.self.g_none) & (s.self.g_rval == s.result))])
cls(QuantileEstimator, fields={"_tdigest": Ref(TDigest), "_value_extractor": Ref(_RealFn), "_events_processed": Int})
fn(QuantileEstimator, "handle_event", args={"event": Ref(Event)},
   uses=[(_RealFn, "__call__"), (TDigest, "add")],
   ensures=[
    ("counts-the-event", lambda s: s.self._events_processed == s.old(s.self)._events_processed + 1),
    ("digest-fed-exactly-once-iff-a-value-was-extracted", lambda s: s.self._tdigest._total_count
        == s.old(s.self._tdigest)._total_count + ite(s.self._value_extractor.g_none, 0, 1)),
    ("emits-nothing", lambda s: isinstance(s.result, list) and len(s.result) == 0)])

# ============================================================================ constructors: the sketch of the empty stream
stub_of(CountMinSketch, "_generate_hash_seeds", returns=V1, modifies=[], ensures=[
    lambda s: slen(s.result) == s.self._depth])
# the rows are built by a comprehension over range(depth): explored row count by row count, hence depth <= 5 here
ctor(CountMinSketch, label="depth<=5", args={"width": Int, "depth": Int, "seed": Opt(Int)},
     requires=[lambda s: s.depth <= 5], uses=[(CountMinSketch, "_generate_hash_seeds")],
     ensures=[
         ("dimensions-as-given", lambda s: (s.self._width == s.width) & (s.self._depth == s.depth)
             & (s.self._seed == _opt_or(s.seed, 0))),
         ("sketch-of-empty-stream", lambda s: forall(Int, lambda r: forall(Int, lambda c: implies(
             in_row(s.self, r) & in_col(s.self, c), cell(s.self, r, c) == 0)))),
         ("counts-zero", lambda s: s.self._total_count == 0)],
     raises={ValueError: [("only-bad-dimensions", lambda s: (s.width <= 0) | (s.depth <= 0))]})

for _p in PRECISIONS:
    ctor(HyperLogLog, label=f"precision={_p}", args={"precision": (lambda _p=_p: _p), "seed": Opt(Int)},
         ensures=[
             ("dimensions", lambda s, _p=_p: (s.self._precision == _p) & (s.self._num_registers == (1 << _p))
                 & (s.self._seed == _opt_or(s.seed, 0))),
             ("sketch-of-empty-stream", lambda s: forall(Int, lambda k: implies(in_regs(s.self, k), reg(s.self, k) == 0))),
             ("no-items", lambda s: s_is_empty(items_of(s.self))),
             ("counts-zero", lambda s: s.self._total_count == 0)])
ctor(HyperLogLog, label="bad-precision", args={"precision": Int, "seed": Opt(Int)},
     requires=[lambda s: (s.precision < 4) | (s.precision > 16)],
     ensures=[("never-constructed", lambda s: False)],
     raises={ValueError: [("only-out-of-range-precision", lambda s: (s.precision < 4) | (s.precision > 16))]})

# ============================================================================ range of the hash functions, from the real code
# Wherever a sketch calls self._hash the stub above is used (fixed function + range).  The RANGE half of that
# stub is proved here by running the real `_hash` with hashlib / struct / hash replaced by models that return
# ARBITRARY digests: sha256 digest bytes unpacked with '>Q' are an arbitrary int in [0, 2**64) (trusted: struct
# contract), builtin hash() an arbitrary int.  (That the value is a fixed function of its inputs stays assumed.)
import happysimulator.sketching.bloom_filter as _bloom_mod  # noqa: E402
import happysimulator.sketching.hyperloglog as _hll_mod  # noqa: E402


class _ArbitraryDigest:
    def __getitem__(self, sl):
        return self


class _ArbitraryHasher:
    def update(self, data):
        pass

    def digest(self):
        return _ArbitraryDigest()


class _ModelHashlib:
    @staticmethod
    def sha256(data=b""):
        return _ArbitraryHasher()


class _ModelStruct:
    @staticmethod
    def pack(fmt, *args):
        return b""

    @staticmethod
    def unpack(fmt, data):
        assert fmt == ">Q" and isinstance(data, _ArbitraryDigest)
        v = fresh(Int, "digest_u64")
        assume((0 <= v) & (v < (1 << 64)))
        return (v,)


def _model_hash(x):
    return fresh(Int, "py_hash")


def _patch_hash_env(mod):
    saved = {}

    def setup(s):
        for k, v in (("hashlib", _ModelHashlib), ("struct", _ModelStruct), ("hash", _model_hash)):
            saved[k] = mod.__dict__.get(k)
            mod.__dict__[k] = v
        return []

    def teardown(s):
        for k, v in saved.items():
            mod.__dict__[k] = v
    return {"setup": setup, "teardown": teardown}


def _range_task(owner, mod, args, requires, upper):
    c = Contract(owner, "_hash", label="range", args=args, requires=requires, modifies=[],
                 ensures=[("hash-value-in-range", lambda s: (0 <= s.result) & (s.result < upper(s))),
                          ("pure", lambda s: unchanged(s, s.self))], **_patch_hash_env(mod))
    c.self_ty = Ref(owner)
    TASKS.append(c)         # a task only: CONTRACTS keeps the stub (fixed function + range) used by the callers


_range_task(BloomFilter, _bloom_mod, {"item": ITEM, "i": Int}, [lambda s: (0 <= s.i) & (s.self._seed >= 0)],
            lambda s: s.self._size_bits)
_range_task(CountMinSketch, _cms_mod, {"item": ITEM, "row": Int}, [lambda s: in_row(s.self, s.row)],
            lambda s: s.self._width)
_range_task(HyperLogLog, _hll_mod, {"item": ITEM}, [], lambda s: 1 << 64)

# ============================================================================ lemmas: merge == sketch of the concatenation
# Notation: sk(S) = state of a fresh sketch after add(x) for x in S.  The step contracts proved above give
#   sk([]) = ZERO (ctor),  sk(S ++ [x]) = step_x(sk(S)) (add),  merge(a, b) = a (+) b (merge)
# where step_x depends on the state only through the clause proved for `add`.  Each lemma proves, for the
# concrete shapes of ZERO / step_x / (+) of one sketch, the two facts the induction on the second stream needs:
#   base:  a (+) ZERO == a            step:  a (+) step_x(b) == step_x(a (+) b)
# hence merge(sk(S1), sk(S2)) == sk(S1 ++ S2) for every split (induction on S2, not machine-checked: listed).
_BA = z3.ArraySort(I_, z3.BoolSort())
_IA = z3.ArraySort(I_, I_)
_IIA = z3.ArraySort(I_, z3.ArraySort(I_, I_))


def _bloom_homomorphism():
    a, b, b1, hit = z3.Consts("bl_a bl_b bl_b1 bl_hit", _BA)    # bit sets; hit = {hash(x, j) | j < k}
    n = z3.Int("bl_n")
    k, size = z3.Ints("bl_k bl_size")
    H = z3.Function("bl_H", I_, I_)                               # j -> hash(x, j) for the fixed item x
    j = z3.Int("bl_j")
    inr = z3.And(0 <= n, n < size)
    # the three clauses of BloomFilter.add (old-bits-kept, item-bits-set, nothing-else-set) ...
    assume(z3.ForAll([n], z3.Implies(z3.And(inr, b[n]), b1[n])))
    assume(z3.ForAll([j], z3.Implies(z3.And(0 <= j, j < k), z3.And(0 <= H(j), H(j) < size, b1[H(j)]))))
    assume(z3.ForAll([n], z3.Implies(z3.And(inr, b1[n]), z3.Or(b[n], z3.Exists([j], z3.And(0 <= j, j < k, n == H(j)))))))
    assume(z3.ForAll([n], hit[n] == z3.Exists([j], z3.And(0 <= j, j < k, n == H(j)))))
    # ... say exactly: add is union with the item's hash positions
    oblige("add-is-union-with-hash-positions", z3.ForAll([n], z3.Implies(inr, b1[n] == z3.Or(b[n], hit[n]))))
    empty = z3.K(I_, z3.BoolVal(False))
    oblige("base: merge with the empty sketch", z3.SetUnion(a, empty) == a)
    oblige("step: merge commutes with add", z3.SetUnion(a, z3.SetUnion(b, hit)) == z3.SetUnion(z3.SetUnion(a, b), hit))
    oblige("merge-commutative", z3.SetUnion(a, b) == z3.SetUnion(b, a))


lemma("bloom-merge-homomorphism", _bloom_homomorphism)


def _cms_homomorphism():
    a, b = z3.Consts("cm_a cm_b", _IIA)                           # counters[r][c]
    col = z3.Const("cm_col", _IA)                                 # r -> hash column of the added item
    cnt_ = z3.Int("cm_count")
    r, c = z3.Ints("cm_r cm_c")

    def step(m):        # CountMinSketch.add: increments-the-hashed-counter-of-every-row
        return lambda r_, c_: m[r_][c_] + z3.If(c_ == col[r_], cnt_, 0)

    def plus(m1, m2):   # CountMinSketch.merge: counters-are-the-sum
        return lambda r_, c_: m1(r_, c_) + m2(r_, c_)
    A = lambda r_, c_: a[r_][c_]
    B = lambda r_, c_: b[r_][c_]
    oblige("base: merge with the all-zero sketch", z3.ForAll([r, c], plus(A, lambda r_, c_: z3.IntVal(0))(r, c) == A(r, c)))
    oblige("step: merge commutes with add", z3.ForAll([r, c],
           plus(A, step(b))(r, c) == plus(A, B)(r, c) + z3.If(c == col[r], cnt_, 0)))
    oblige("merge-commutative", z3.ForAll([r, c], plus(A, B)(r, c) == plus(B, A)(r, c)))
    # one-sidedness survives the merge: if both inputs dominate their true counts, the sum dominates the summed count
    t1, t2 = z3.Ints("cm_t1 cm_t2")
    oblige("merged-estimate-never-underestimates", z3.Implies(z3.And(A(r, c) >= t1, B(r, c) >= t2), plus(A, B)(r, c) >= t1 + t2))


lemma("cms-merge-homomorphism", _cms_homomorphism)


def _hll_homomorphism():
    a, b = z3.Consts("hl_a hl_b", _IA)                            # registers
    idx, rho, k = z3.Ints("hl_idx hl_rho hl_k")

    def mx(x, y):
        return z3.If(x >= y, x, y)

    def step(m, k_):    # HyperLogLog.add: register-of-item-raised-to-its-run-length + other-registers-untouched
        return z3.If(k_ == idx, mx(m[k_], rho), m[k_])
    assume(z3.ForAll([k], z3.And(a[k] >= 0, b[k] >= 0)))
    oblige("base: merge with the all-zero sketch", z3.ForAll([k], mx(a[k], 0) == a[k]))
    oblige("step: merge commutes with add", z3.ForAll([k],
           mx(a[k], step(b, k)) == z3.If(k == idx, mx(mx(a[k], b[k]), rho), mx(a[k], b[k]))))
    oblige("merge-commutative-idempotent", z3.ForAll([k], z3.And(mx(a[k], b[k]) == mx(b[k], a[k]), mx(a[k], a[k]) == a[k])))


lemma("hll-merge-homomorphism", _hll_homomorphism)


def _topk_heavy_hitters():
    # TopK invariants for an untracked item x (proved above): true(x) <= every tracked count, and
    # true(x) == 0 while fewer than k items are tracked.  With  sum of tracked counts == N  (space-saving
    # sum invariant: every branch of `add` changes the counts by exactly `count` in total - clauses
    # tracked-item-count-raised / new-item-with-room-counted-exactly / replacement-* / other-counters-untouched)
    # a sum of `size` counts each >= m is >= size * m (arithmetic, cited).  Then x cannot be a heavy hitter.
    k, size, N, tx, m, S = z3.Ints("tk_k tk_size tk_N tk_true_x tk_min tk_sum")
    assume(z3.And(k >= 1, 0 <= size, size <= k, tx >= 0, N >= 0))
    assume(z3.Implies(size < k, tx == 0))               # untracked-items-unseen-while-there-is-room
    assume(z3.Implies(size > 0, tx <= m))               # untracked-true-count-below-every-counter (m = min count)
    assume(S == N)                                      # sum of tracked counts == N
    assume(z3.Implies(size > 0, S >= size * m))         # every count >= m
    oblige("untracked-item-is-not-above-N-over-k", k * tx <= N)
    thr = z3.Int("tk_thr")
    assume(z3.And(thr * k <= N, N < (thr + 1) * k))     # guaranteed_threshold(): is-floor-of-N-over-k
    oblige("untracked-item-is-at-most-the-guaranteed-threshold", tx <= thr)


lemma("topk-heavy-hitters-are-tracked", _topk_heavy_hitters)


# ---- the facts about the t-digest prefix weight W(arr, i) = sum_{k<i} max(1, count(arr[k])) that `Wt` /
#      `_w_mono_everywhere` / `_td_sort_extend_facts` add to a path.  W is uninterpreted; its DEFINITION is
#          (D0) W(a, 0) == 0        (D1) W(a, i+1) == W(a, i) + max(1, count(a[i]))   for i >= 0.
#      Each derived fact is an induction over the index; base and step are machine-checked here from D0/D1,
#      the induction itself is not (listed).  Permutation invariance of a finite sum is trusted.
def _td_weight_lemmas():
    a, b, cat = z3.Consts("tw_a tw_b tw_cat", _CARR)
    x = z3.Const("tw_x", CV.sort())
    i, j, k, n, m = z3.Ints("tw_i tw_j tw_k tw_n tw_m")

    def d1(arr, idx):
        return TDW(arr, idx + 1) == TDW(arr, idx) + cnt1(z3.Select(arr, idx))
    # frame: W(Store(a, k, x), i) == W(a, i) for 0 <= i <= k
    st = z3.Store(a, k, x)
    assume(z3.And(TDW(a, z3.IntVal(0)) == 0, TDW(st, z3.IntVal(0)) == 0, TDW(b, z3.IntVal(0)) == 0))
    oblige("frame/base", TDW(st, z3.IntVal(0)) == TDW(a, z3.IntVal(0)))
    oblige("frame/step", z3.Implies(z3.And(0 <= i, i + 1 <= k, TDW(st, i) == TDW(a, i), d1(st, i), d1(a, i)),
                                    TDW(st, i + 1) == TDW(a, i + 1)))
    # monotone: W(a, j) - W(a, i) >= j - i for 0 <= i <= j
    oblige("monotone/base", TDW(a, i) - TDW(a, i) >= i - i)
    oblige("monotone/step", z3.Implies(z3.And(0 <= i, i <= j, TDW(a, j) - TDW(a, i) >= j - i, d1(a, j)),
                                       TDW(a, j + 1) - TDW(a, i) >= j + 1 - i))
    # concatenation: cat = a[0..n) ++ b[0..m):  W(cat, i) == W(a, i) for i <= n;  W(cat, n + k) == W(a, n) + W(b, k)
    assume(TDW(cat, z3.IntVal(0)) == 0)
    assume(z3.And(n >= 0, m >= 0))
    assume(z3.ForAll([j], z3.Implies(z3.And(0 <= j, j < n), z3.Select(cat, j) == z3.Select(a, j))))
    assume(z3.ForAll([j], z3.Implies(z3.And(n <= j, j < n + m), z3.Select(cat, j) == z3.Select(b, j - n))))
    oblige("concat-prefix/step", z3.Implies(z3.And(0 <= i, i + 1 <= n, TDW(cat, i) == TDW(a, i), d1(cat, i), d1(a, i)),
                                            TDW(cat, i + 1) == TDW(a, i + 1)))
    oblige("concat/base", z3.Implies(TDW(cat, n) == TDW(a, n), TDW(cat, n + 0) == TDW(a, n) + TDW(b, z3.IntVal(0))))
    oblige("concat/step", z3.Implies(z3.And(0 <= k, k + 1 <= m, TDW(cat, n + k) == TDW(a, n) + TDW(b, k),
                                            d1(cat, n + k), d1(b, k)),
                                     TDW(cat, n + k + 1) == TDW(a, n) + TDW(b, k + 1)))


lemma("tdigest-prefix-weight-facts", _td_weight_lemmas)

# ============================================================================ bounded native stand-ins
# The t-digest contracts above are proved for exact (real) arithmetic; the Merkle contracts assume well-formed
# trees (what _build_tree builds) and collision-free hashes.  Here CPython runs the real code on enumerated /
# seeded inputs: IEEE floats in the interpolation, tree construction (build / update / remove), and the
# end-to-end statement on maps.  Exact float comparisons (no tolerance): the property has none.
import itertools as _it  # noqa: E402
import random as _rnd  # noqa: E402


def _plain_new(cls, *a, **k):
    return object.__new__(cls)


class _natively_constructible:
    """CPython keeps a stricter tp_new on a class whose (patched, symbolic-allocation) __new__ was removed again:
    `Cls(args)` then raises TypeError in a worker that ran symbolic tasks before.  For the duration of a native
    bounded check the classes get a plain __new__, removed afterwards (so later symbolic tasks patch as usual)."""

    def __init__(self, *classes):
        self.classes, self.patched = classes, []

    def __enter__(self):
        for c in self.classes:
            if "__new__" not in c.__dict__:
                c.__new__ = staticmethod(_plain_new)
                self.patched.append(c)

    def __exit__(self, *exc):
        for c in self.patched:
            del c.__new__
        return False


def _bounded_tdigest(seed, tier):
    with _natively_constructible(TDigest, TCentroid):
        return _bounded_tdigest_run(seed, tier)


def _bounded_merkle(seed, tier):
    with _natively_constructible(MerkleTree, MerkleNode):       # (KeyRange is a value class: never patched)
        return _bounded_merkle_run(seed, tier)


def _bounded_tdigest_run(seed, tier):
    ev, bad = 0, []
    n_seeds, n_streams = (40, 40) if tier != "thorough" else (400, 60)
    for sd in range(seed, seed + n_seeds):
        rng = _rnd.Random(sd)
        for s in range(n_streams):
            comp = rng.choice([1.0, 5.0, 20.0, 100.0])
            kind = rng.randrange(5)
            n = rng.choice([1, 2, 3, 10, 50, 300])
            if kind == 0:
                vals = [rng.random() * 100 for _ in range(n)]
            elif kind == 1:
                vals = [float(rng.randrange(4)) for _ in range(n)]          # heavy duplicates
            elif kind == 2:
                vals = [rng.paretovariate(1.2) for _ in range(n)]           # skewed
            elif kind == 3:
                vals = [rng.choice([7.25, 1.6752325688574499, 0.1])] * n    # constant stream
            else:
                vals = [rng.choice([-1e9, 1e-9, 3.0, 1e9]) for _ in range(n)]
            td, N, true = TDigest(compression=comp), 0, []
            for v in vals:
                w = rng.choice([1, 1, 1, 2, 5])
                td.add(v, w)
                N += w
                true += [v] * w
            if rng.random() < 0.3:          # the same stream split at a random point into two merged halves
                td, t2 = TDigest(compression=comp), TDigest(compression=comp)
                cut = rng.randrange(len(true) + 1)
                for v in true[:cut]:
                    td.add(v)
                for v in true[cut:]:
                    t2.add(v)
                td.merge(t2)
            qs = sorted([0.0, 1.0] + [i / 50 for i in range(51)] + [rng.random() for _ in range(30)])
            out = [td.quantile(q) for q in qs]
            ev += len(qs)
            lo, hi = min(true), max(true)
            where = {"seed": sd, "stream": s, "compression": comp, "n": len(true)}
            if td.min != lo or td.max != hi:
                bad.append({"case": "tdigest-min-max-are-the-streams", **where})
            if sum(c.count for c in td._centroids) != N or td._total_count != N:
                bad.append({"case": "tdigest-centroid-weights-sum-to-N", **where})
            for a, b, qa, qb in zip(out, out[1:], qs, qs[1:]):
                if a > b:
                    bad.append({"case": "tdigest-quantile-non-decreasing", **where, "q1": qa, "q2": qb, "v1": a, "v2": b})
                    break
            if CDF_REPAIRED:        # (on the unrepaired tree cdf is not monotone: finding triage/c20_tdigest_cdf.py)
                vs = sorted(set(true + [c.mean for c in td._centroids] + [lo - 1.0, hi + 1.0]))
                cs = [td.cdf(v) for v in vs]
                ev += len(vs)
                if any(a > b for a, b in zip(cs, cs[1:])) or any(not (0.0 <= c <= 1.0) for c in cs):
                    bad.append({"case": "tdigest-cdf-non-decreasing-within-0-1", **where})
            off = [(q, o) for q, o in zip(qs, out) if o < lo or o > hi]
            if off:
                bad.append({"case": "tdigest-quantile-within-min-max", **where, "min": lo, "max": hi, "q": off[0][0], "v": off[0][1]})
    first = {}
    for b in bad:                       # one witness per violated clause
        first.setdefault(b["case"], b)
    return {"evaluations": ev, "violations": list(first.values())}


def _merkle_pair_ok(m1, t1, m2, t2):
    d = t1.diff(t2)
    if (d == []) != (m1 == m2):
        return {"case": "merkle-diff-empty-iff-maps-equal", "a": m1, "b": m2, "diff": repr(d)}
    for k in set(m1) | set(m2):
        if m1.get(k, "<absent>") != m2.get(k, "<absent>") and not any(r.contains(k) for r in d):
            return {"case": "merkle-diff-covers-every-differing-key", "a": m1, "b": m2, "key": k, "diff": repr(d)}
    return None


def _bounded_merkle_run(seed, tier):
    ev, bad = 0, []
    keys = ["a", "b", "c", "d", "e"][: (4 if tier != "thorough" else 5)]
    maps = [{k: v for k, v in zip(keys, combo) if v is not None} for combo in _it.product([None, 0, 1], repeat=len(keys))]
    trees = [MerkleTree.build(m) for m in maps]
    for (m1, t1), (m2, t2) in _it.product(list(zip(maps, trees)), repeat=2):      # every pair of maps, exhaustively
        ev += 1
        r = _merkle_pair_ok(m1, t1, m2, t2)
        if r:
            bad.append(r)
    rng = _rnd.Random(seed)
    for _ in range(300 if tier != "thorough" else 5000):                          # larger maps, seeded
        univ = [f"k{i:03d}" for i in range(rng.choice([6, 17, 40]))]
        m1 = {k: rng.randrange(3) for k in univ if rng.random() < 0.7}
        m2 = dict(m1)
        for k in rng.sample(univ, rng.randrange(0, 4)):
            if rng.random() < 0.5:
                m2[k] = rng.randrange(3)
            else:
                m2.pop(k, None)
        ev += 1
        t1, t2 = MerkleTree.build(m1), MerkleTree.build(m2)
        for k, v in list(m2.items())[:2]:       # the incremental API reaches the same tree as build()
            base = {kk: vv for kk, vv in m2.items() if kk != k}
            t1b = MerkleTree.build(base)
            t1b.update(k, v)
            # a diff AGAINST a tree that was just updated, with no read of it in between (a lazily rebuilt tree must
            # not be compared through its stale nodes)
            r = _merkle_pair_ok(m1, t1, m2, t1b)
            if r:
                r["case"] += "-against-a-just-updated-tree"
                bad.append(r)
            if t1b.root_hash != t2.root_hash:
                bad.append({"case": "merkle-update-equals-build", "map": m2, "key": k})
            t1c = MerkleTree.build(m2)
            t1c.remove(k)
            r = _merkle_pair_ok(m1, t1, base, t1c)
            if r:
                r["case"] += "-against-a-tree-after-remove"
                bad.append(r)
        r = _merkle_pair_ok(m1, t1, m2, t2)
        if r:
            bad.append(r)
    return {"evaluations": ev, "violations": bad[:20]}


def _bounded_topk(seed, tier):
    """cross-check of the part of lemma topk-heavy-hitters-are-tracked that is not machine-checked
    (sum of tracked counts == N) together with the heavy-hitter claim itself, on seeded weighted streams"""
    from collections import Counter
    with _natively_constructible(TopK, _Counter):
        ev, bad = 0, []
        for sd in range(seed, seed + (300 if tier != "thorough" else 5000)):
            rng = _rnd.Random(sd)
            k = rng.choice([1, 2, 3, 5, 8])
            universe = rng.choice([2, 6, 30])
            t, true, N = TopK(k=k), Counter(), 0
            for _ in range(rng.randrange(0, 80)):
                x = min(int(rng.paretovariate(1.1)), universe) if rng.random() < 0.5 else rng.randrange(universe)
                w = rng.choice([0, 1, 1, 1, 3, 10])
                t.add(x, w)
                true[x] += w
                N += w
                ev += 1
                if sum(c.count for c in t._counters.values()) != N or t.item_count != N:
                    bad.append({"case": "topk-tracked-counts-sum-to-N", "seed": sd, "k": k})
                    break
                miss = [y for y, n in true.items() if n * k > N and y not in t]
                if miss:
                    bad.append({"case": "topk-heavy-hitter-tracked", "seed": sd, "k": k, "item": miss[0], "true": true[miss[0]], "N": N})
                    break
                for y, n in true.items():
                    e = t.estimate_with_error(y)
                    if e.count - n > e.error or n - e.count > e.error or (y in t and e.count < n):
                        bad.append({"case": "topk-estimate-within-reported-error", "seed": sd, "k": k, "item": y,
                                    "true": n, "count": e.count, "error": e.error})
                        break
        return {"evaluations": ev, "violations": bad[:20]}


PROPERTY["bounded"] = [
    {"name": "topk-sum-and-heavy-hitters", "fn": _bounded_topk,
     "bound": "seeded weighted streams (skewed and uniform, weights 0-10, <= 80 adds, k in {1,2,3,5,8}); after every add: "
              "sum of tracked counts == N, every item with true count > N/k tracked, estimates within the reported error; "
              "quick 300 seeds, thorough 5000"},
    {"name": "tdigest-quantiles", "fn": _bounded_tdigest,
     "bound": "seeded streams (uniform / duplicate-heavy / skewed / constant / extreme magnitudes, weights 1-5, "
              "n <= 300 adds, compression in {1,5,20,100}, 30% built as two merged halves); 83 quantile levels each; "
              "quick: 40 seeds x 40 streams, thorough: 400 x 60"},
    {"name": "merkle-diff", "fn": _bounded_merkle,
     "bound": "all ordered pairs of maps over <= 4 keys (thorough: 5) x values {absent,0,1} exhaustively, plus "
              "300 (thorough 5000) seeded pairs of maps with up to 40 keys differing in <= 3 keys"},
]

"""C01 - every live event is delivered exactly once, in time order with FIFO ties.

A. temporal arithmetic/comparisons against the record (ns, infinite) - through the real operator
   dispatch (reflected methods of the _InfiniteInstant subclass included).
B. Event.__lt__ equals the key order (time, creation index); the key order is a strict total order
   on events with distinct indices (lemmas).
C. index source: every index handed out is larger than every index handed out before, whichever
   counter (global / per-heap) is active -> creation order == index order (FIFO ties).
D. EventHeap against a multiset view: push adds, pop removes a minimum, primary-event count.
E. the two run loops: one iteration delivers the popped event iff it is live and not in the past,
   with the clock equal to its timestamp, never moving backwards; everything invoke() returns is
   pushed once; exit conditions (horizon, auto-termination on primary events only).
"""
from pyvc.spec import *

F_SIM = "happysimulator/core/simulation.py"

# ---- loop contracts (before any repo import) ------------------------------------------------
# Simulation._execute_until, loop 1 and Simulation._run_loop, loop 1: see part E below.
# EventHeap.push, loop 1: for event in events -> each pushed once


ENGINE_FRAME = [  # what opaque user code (handlers, hooks) may not write: DESIGN 2.6
    ("Clock", "_current_time"), ("EventHeap", "_heap"), ("EventHeap", "_primary_event_count"),
    ("EventHeap", "_current_time"), ("EventHeap", "_tracing_enabled"), ("EventHeap", "_trace"),
    ("Simulation", "_event_heap"), ("Simulation", "_clock"), ("Simulation", "_end_time"),
    ("Simulation", "_current_time"), ("Simulation", "_events_processed"), ("Simulation", "_events_cancelled"),
    ("Simulation", "_control"), ("Simulation", "_event_router"), ("Simulation", "_tracing_enabled"),
    ("Simulation", "_is_running"), ("Simulation", "_is_paused"), ("Simulation", "_last_event")]
LOOP_CONST = [("Simulation", "_event_heap"), ("Simulation", "_clock"), ("Simulation", "_end_time"),
              ("Simulation", "_control"), ("Simulation", "_event_router"), ("Simulation", "_tracing_enabled"),
              ("EventHeap", "_tracing_enabled"), ("EventHeap", "_trace")]


def _last(trace, name):
    for i in range(len(trace) - 1, -1, -1):
        if trace[i][0] == name:
            return i
    return None


def pushed_what_invoke_returned(L):
    """every non-empty result of the last invoke() of this iteration was handed to heap.push"""
    tr = G("trace") if has_G("trace") else []
    i = _last(tr, "Event.invoke")
    if i is None:
        return True
    res = tr[i][2]
    later_push = any(r[0] == "EventHeap.push" for r in tr[i + 1:])
    if getattr(L, "router", None) is not None or (hasattr(L, "self") and hasattr(L, "control") and L.self._event_router is not None):
        return True                     # a router may redirect or drop events (C05 covers it)
    return implies(slen(res) > 0, later_push)


# instrumented path (auto-termination, router, control, tracing)
loop(F_SIM, "Simulation._run_loop", 1, modifies="world", keeps=LOOP_CONST,
     inv=[("clock-equals-current-time", lambda L: same_instant(L.self._clock._current_time, L.self._current_time)),
          ("time-never-decreases", lambda L: Not(spec_lt(L.self._current_time, L.old(L.self)._current_time))),
          ("counters-only-grow", lambda L: (L.self._events_processed >= L.old(L.self)._events_processed)
           & (L.self._events_cancelled >= L.old(L.self)._events_cancelled)),
          ("heap-is-the-simulations", lambda L: same(L.heap, L.self._event_heap)),
          ("heap-tracing-off", lambda L: Not(L.heap._tracing_enabled)),
          ("still-running", lambda L: L.self._is_running & Not(L.self._is_paused)),
          ("pushed-what-invoke-returned", pushed_what_invoke_returned)])

# fast path / window path
loop(F_SIM, "Simulation._execute_until", 1, modifies="world", keeps=LOOP_CONST,
     types={"current_time": lambda: INSTANT},
     inv=[("clock-equals-current-time", lambda L: same_instant(L.clock._current_time, L.current_time)),
          ("time-never-decreases", lambda L: Not(spec_lt(L.current_time, L.old(L.self)._current_time))),
          ("counters-only-grow", lambda L: (L.events_processed >= L.old(L.self)._events_processed)
           & (L.events_cancelled >= L.old(L.self)._events_cancelled)),
          ("heap-is-the-simulations", lambda L: same(L.heap, L.self._event_heap) & same(L.clock, L.self._clock)),
          ("heap-tracing-off", lambda L: Not(L.heap._tracing_enabled)),
          ("pushed-what-invoke-returned", pushed_what_invoke_returned)])

# EventHeap.push(list): `for event in events: self._push_single(event)` - every event of the list becomes pending, once per
# occurrence, nothing else leaves the heap, and the caller's list is left exactly as it was given (the heap keeps its OWN
# storage: a list handed to schedule() stays the caller's)
F_HEAP = "happysimulator/core/event_heap.py"
loop(F_HEAP, "EventHeap.push", 1, modifies=[("EventHeap", "_heap"), ("EventHeap", "_primary_event_count")],
     inv=[("size-grows-by-the-prefix", lambda L: slen(L.self._heap) == slen(L.old(L.self)._heap) + L.i),
          ("every-pushed-event-is-pending", lambda L: forall(Int, lambda j: implies(
              (0 <= j) & (j < L.i), mk_bool(z3.Select(hcnt(L.self), seq_term(L.seq)[j.t]) > 0)), "j")),
          ("nothing-leaves-the-heap", lambda L: forall(Ref(Event), lambda x: mk_bool(
              z3.Select(hcnt(L.self), x._ref) >= z3.Select(hcnt(L.old(L.self)), x._ref)))),
          ("primary-count-grows-by-at-most-the-prefix", lambda L:
              (L.self._primary_event_count >= L.old(L.self)._primary_event_count)
              & (L.self._primary_event_count <= L.old(L.self)._primary_event_count + L.i)),
          ("given-list-untouched", lambda L: mk_bool(seq_term(L.seq) == seq_term(L.events)))])


from specs.common import *  # noqa: E402,F401
import specs.common as _common  # noqa: E402

from happysimulator.core.temporal import _InfiniteInstant  # noqa: E402
from happysimulator.core import event as event_mod  # noqa: E402
from happysimulator.core import sim_future as sim_future_mod  # noqa: E402
from happysimulator.core.event_heap import EventHeap  # noqa: E402
from happysimulator.core.simulation import Simulation  # noqa: E402

PROPERTY = {
    "id": "C01",
    "level": "proof",
    "trusted": ["heapq contract (pyvc/bag.py)", "itertools.count.__next__ returns the previous value + 1",
                "contextvars.ContextVar get/set store and return the last value set"],
    "assumptions": COMMON_ASSUMPTIONS + [
        "user handlers (target.handle_event, completion hooks) are opaque: they may create events and write their "
        "own entities but do not write engine state (heap, clock, counters) - the weakest frame the statement grants",
        "termination of a run is not proved",
    ],
}

# =============================================================================== A. temporal
# spec record: inf(t) <=> t is Instant.Infinity (then ns == sys.maxsize)
cls(Event, fields={"time": INSTANT})      # this check also covers events at Instant.Infinity


def is_inf(t):
    return isinstance(t, _InfiniteInstant)


def wf_instant(t):
    return True if not is_inf(t) else t.nanoseconds == MAXSIZE


def spec_lt(a, b):
    """Infinity is greater than every finite instant and not less than itself"""
    if is_inf(a):
        return False
    if is_inf(b):
        return True
    return a.nanoseconds < b.nanoseconds


def spec_eq(a, b):
    if is_inf(a) or is_inf(b):
        return is_inf(a) and is_inf(b)
    return a.nanoseconds == b.nanoseconds


def op_lt(a, b): return a < b
def op_le(a, b): return a <= b
def op_gt(a, b): return a > b
def op_ge(a, b): return a >= b
def op_eq(a, b): return a == b
def op_ne(a, b): return a != b
def op_add(a, x): return a + x
def op_sub(a, b): return a - b


ME = "specs.C01"
II = {"a": INSTANT, "b": INSTANT}
WF = [lambda s: wf_instant(s.a), lambda s: wf_instant(s.b)]
fn(ME, "op_lt", kind="function", args=II, requires=WF, ensures=[("is-spec-lt", lambda s: iff(s.result, spec_lt(s.a, s.b)))])
fn(ME, "op_gt", kind="function", args=II, requires=WF, ensures=[("is-spec-gt", lambda s: iff(s.result, spec_lt(s.b, s.a)))])
fn(ME, "op_le", kind="function", args=II, requires=WF, ensures=[("is-spec-le", lambda s: iff(s.result, Not(spec_lt(s.b, s.a))))])
fn(ME, "op_ge", kind="function", args=II, requires=WF, ensures=[("is-spec-ge", lambda s: iff(s.result, Not(spec_lt(s.a, s.b))))])
fn(ME, "op_eq", kind="function", args=II, requires=WF, ensures=[("is-spec-eq", lambda s: iff(s.result, spec_eq(s.a, s.b)))])
fn(ME, "op_ne", kind="function", args=II, requires=WF, ensures=[("is-spec-ne", lambda s: iff(s.result, Not(spec_eq(s.a, s.b))))])


def trunc_ns(x):
    """int(x * 1e9) on reals: truncation toward zero"""
    from pyvc.rt import int_
    return int_(x * 1_000_000_000)


fn(ME, "op_add", kind="function", label="duration", args={"a": INSTANT, "x": DURATION}, requires=[lambda s: wf_instant(s.a)],
   ensures=[("finite-adds-ns", lambda s: is_inf(s.result) if is_inf(s.a) else
             (not is_inf(s.result)) and s.result.nanoseconds == s.a.nanoseconds + s.x.nanoseconds)])
fn(ME, "op_add", kind="function", label="float-seconds", args={"a": INSTANT, "x": Real}, requires=[lambda s: wf_instant(s.a)],
   ensures=[("finite-adds-truncated-ns", lambda s: is_inf(s.result) if is_inf(s.a) else
             (not is_inf(s.result)) and s.result.nanoseconds == s.a.nanoseconds + trunc_ns(s.x))])
fn(ME, "op_add", kind="function", label="int-seconds", args={"a": INSTANT, "x": Int}, requires=[lambda s: wf_instant(s.a)],
   ensures=[("finite-adds-seconds", lambda s: is_inf(s.result) if is_inf(s.a) else
             (not is_inf(s.result)) and s.result.nanoseconds == s.a.nanoseconds + s.x * 1_000_000_000)])
fn(ME, "op_sub", kind="function", label="finite-instants", args={"a": TIME, "b": TIME},
   ensures=[("duration-is-ns-difference", lambda s: isinstance(s.result, Duration)
             and s.result.nanoseconds == s.a.nanoseconds - s.b.nanoseconds)])
fn(Instant, "from_seconds", kind="function", label="float", args={"cls": lambda: Instant, "seconds": Real},
   ensures=[("truncates", lambda s: (not is_inf(s.result)) and s.result.nanoseconds == trunc_ns(s.seconds))])
fn(Instant, "from_seconds", kind="function", label="int", args={"cls": lambda: Instant, "seconds": Int},
   ensures=[("exact", lambda s: s.result.nanoseconds == s.seconds * 1_000_000_000)])


def _order_lemmas():
    # the spec order on (inf, ns) records is a strict total order
    def rec(i):
        return z3.Bool(f"inf{i}"), z3.Int(f"ns{i}")

    def lt(x, y):
        return z3.And(z3.Not(x[0]), z3.Or(y[0], x[1] < y[1]))

    def eq(x, y):
        return z3.Or(z3.And(x[0], y[0]), z3.And(z3.Not(x[0]), z3.Not(y[0]), x[1] == y[1]))
    a, b, c = rec(0), rec(1), rec(2)
    oblige("irreflexive", z3.Not(lt(a, a)))
    oblige("transitive", z3.Implies(z3.And(lt(a, b), lt(b, c)), lt(a, c)))
    oblige("trichotomous", z3.Or(lt(a, b), lt(b, a), eq(a, b)))
    oblige("exclusive", z3.Not(z3.And(lt(a, b), lt(b, a))))
    oblige("infinity-maximal", z3.Implies(b[0], z3.Not(lt(b, a))))


lemma("instant-order-is-strict-total", _order_lemmas)

# =============================================================================== B. event key order
I_DT = INSTANT.dt


def key_lt_terms(ta, ia, tb, ib):
    """(time, index) lexicographic on raw terms: ta/tb Instant datatype values"""
    inf_a, inf_b = I_DT.tag(ta) == 1, I_DT.tag(tb) == 1
    tlt = z3.And(z3.Not(inf_a), z3.Or(inf_b, I_DT.nanoseconds(ta) < I_DT.nanoseconds(tb)))
    teq = z3.Or(z3.And(inf_a, inf_b), z3.And(z3.Not(inf_a), z3.Not(inf_b), I_DT.nanoseconds(ta) == I_DT.nanoseconds(tb)))
    return z3.Or(tlt, z3.And(teq, ia < ib))


def event_key_lt(a, b, state=None):
    """spec order of two Event references in a heap state (raw terms, no forks)"""
    return key_lt_terms(field_term(a, "time", state), field_term(a, "_sort_index", state),
                        field_term(b, "time", state), field_term(b, "_sort_index", state))


def wf_event_time(e):
    t = field_term(e, "time")
    return mk_bool(z3.And(z3.Or(I_DT.tag(t) == 0, I_DT.tag(t) == 1),
                          z3.Implies(I_DT.tag(t) == 1, I_DT.nanoseconds(t) == MAXSIZE)))


fn(Event, "__lt__", args={"other": Ref(Event)}, requires=[lambda s: wf_event_time(s.self), lambda s: wf_event_time(s.other)],
   ensures=[("is-key-order", lambda s: iff(s.result, mk_bool(event_key_lt(s.self, s.other)))),
            ("pure", lambda s: unchanged(s, s.self) & unchanged(s, s.other))])


def _key_lemmas():
    def ev(i):
        return z3.Const(f"t{i}", INSTANT.sort()), z3.Int(f"i{i}")

    def wf(e):
        return z3.And(z3.Or(I_DT.tag(e[0]) == 0, I_DT.tag(e[0]) == 1))
    a, b, c = ev(0), ev(1), ev(2)
    assume(z3.And(wf(a), wf(b), wf(c)))

    def lt(x, y):
        return key_lt_terms(x[0], x[1], y[0], y[1])
    oblige("irreflexive", z3.Not(lt(a, a)))
    oblige("transitive", z3.Implies(z3.And(lt(a, b), lt(b, c)), lt(a, c)))
    oblige("total-on-distinct-indices", z3.Implies(a[1] != b[1], z3.Xor(lt(a, b), lt(b, a))))
    # FIFO ties: equal timestamps are ordered by creation index
    teq = z3.And(I_DT.tag(a[0]) == I_DT.tag(b[0]), z3.Or(I_DT.tag(a[0]) == 1, I_DT.nanoseconds(a[0]) == I_DT.nanoseconds(b[0])))
    oblige("equal-times-ordered-by-index", z3.Implies(teq, lt(a, b) == (a[1] < b[1])))


lemma("event-key-order-strict-total-fifo-ties", _key_lemmas)

fn(Event, "cancel", ensures=[("cancelled", lambda s: s.self._cancelled),
                             ("nothing-else", lambda s: unchanged(s, s.self, "time", "_sort_index", "target", "daemon", "event_type"))])

# =============================================================================== D. the event heap
EHEAP = Bag(Ref(Event), lambda a, b: _heap_lt(a, b))
_HEAP_STATE = [None]


def _heap_lt(a, b):
    """Event.__lt__ as a spec function of two references, in the CURRENT heap state (proved above)"""
    from pyvc import ctx as _c
    c = _c.cur()
    pa, pb = ObjProxy(a, Event), ObjProxy(b, Event)
    return event_key_lt(pa, pb)


cls(EventHeap, fields={"_primary_event_count": Int, "_current_time": INSTANT, "_heap": EHEAP, "_tracing_enabled": Bool,
                       "_trace": Any, "_event_counter": Any},
    const=["_trace", "_tracing_enabled", "_event_counter"])
# `_primary_event_count == number of pending non-daemon events` is a counting statement over the
# multiset; its induction steps are the `primary-count` delta clauses of _push_single and pop below
# (+1 / -1 exactly for non-daemon events); the induction itself is composed on paper (DESIGN 3-C01).


def hcnt(o):
    return EHEAP.dt.cnt(o._heap.term)


fn(EventHeap, "_push_single", args={"event": Ref(Event)}, modifies=["_heap", "_primary_event_count"],
   requires=[lambda s: Not(s.self._tracing_enabled)], ensures=[
    ("adds-one-occurrence", lambda s: mk_bool(hcnt(s.self) == z3.Store(hcnt(s.old(s.self)), s.event._ref,
                                                                      z3.Select(hcnt(s.old(s.self)), s.event._ref) + 1))),
    ("size+1", lambda s: slen(s.self._heap) == slen(s.old(s.self)._heap) + 1),
    ("primary-count", lambda s: s.self._primary_event_count == s.old(s.self)._primary_event_count + ite(s.event.daemon, 0, 1)),
    ("event-untouched", lambda s: unchanged(s, s.event))])


def _push_list_setup(s):
    from pyvc import ctx as _c
    _c.cur().ghost_args["pushed_list0"] = seq_term(s.events)
    return []


# push(list) through the contract of _push_single (modular); push(single event) is _push_single itself
fn(EventHeap, "push", label="list", args={"events": Seq(Ref(Event))}, uses=[(EventHeap, "_push_single")], setup=_push_list_setup,
   requires=[lambda s: Not(s.self._tracing_enabled)], ensures=[
    ("every-given-event-is-pending", lambda s: forall(Int, lambda j: implies(
        (0 <= j) & (j < slen(s.events)), mk_bool(z3.Select(hcnt(s.self), seq_term(s.events)[j.t]) > 0)), "j")),
    ("size-grows-by-the-length-of-the-list", lambda s: slen(s.self._heap) == slen(s.old(s.self)._heap) + slen(s.events)),
    ("nothing-leaves-the-heap", lambda s: forall(Ref(Event), lambda x: mk_bool(
        z3.Select(hcnt(s.self), x._ref) >= z3.Select(hcnt(s.old(s.self)), x._ref)))),
    ("primary-count-grows-by-at-most-the-length", lambda s:
        (s.self._primary_event_count >= s.old(s.self)._primary_event_count)
        & (s.self._primary_event_count <= s.old(s.self)._primary_event_count + slen(s.events))),
    ("the-callers-list-is-left-as-given", lambda s: mk_bool(seq_term(s.events) == G("pushed_list0")))])
fn(EventHeap, "push", label="single", args={"events": Ref(Event)}, requires=[lambda s: Not(s.self._tracing_enabled)], ensures=[
    ("adds-one-occurrence", lambda s: mk_bool(hcnt(s.self) == z3.Store(hcnt(s.old(s.self)), s.events._ref,
                                                                      z3.Select(hcnt(s.old(s.self)), s.events._ref) + 1))),
    ("primary-count", lambda s: s.self._primary_event_count == s.old(s.self)._primary_event_count + ite(s.events.daemon, 0, 1))])

fn(EventHeap, "pop", returns=Ref(Event), modifies=["_heap", "_primary_event_count", "_current_time"],
   requires=[lambda s: Not(s.self._tracing_enabled), lambda s: slen(s.self._heap) > 0], ensures=[
    ("returns-pending-event", lambda s: mk_bool(z3.Select(hcnt(s.old(s.self)), s.result._ref) > 0)),
    ("removes-exactly-it", lambda s: mk_bool(hcnt(s.self) == z3.Store(hcnt(s.old(s.self)), s.result._ref,
                                                                    z3.Select(hcnt(s.old(s.self)), s.result._ref) - 1))),
    ("no-pending-event-is-earlier", lambda s: forall(Ref(Event), lambda x: implies(
        mk_bool(z3.Select(hcnt(s.old(s.self)), x._ref) > 0), Not(mk_bool(event_key_lt(x, s.result)))))),
    ("primary-count", lambda s: s.self._primary_event_count == s.old(s.self)._primary_event_count - ite(s.result.daemon, 0, 1)),
    ("current-time-follows", lambda s: mk_bool(field_term(s.self, "_current_time") == field_term(s.result, "time"))),
    ("size-1", lambda s: slen(s.self._heap) == slen(s.old(s.self)._heap) - 1)])

fn(EventHeap, "has_events", returns=Bool, modifies=[], ensures=[("iff-nonempty", lambda s: iff(s.result, slen(s.self._heap) > 0)),
                                     ("pure", lambda s: unchanged(s, s.self))])
fn(EventHeap, "has_primary_events", returns=Bool, modifies=[], ensures=[("iff-count-positive", lambda s: iff(s.result, s.self._primary_event_count > 0)),
                                             ("pure", lambda s: unchanged(s, s.self))])
fn(EventHeap, "size", ensures=[("is-size", lambda s: s.result == slen(s.self._heap)), ("pure", lambda s: unchanged(s, s.self))])
fn(EventHeap, "peek", requires=[lambda s: slen(s.self._heap) > 0], ensures=[
    ("is-a-minimum", lambda s: forall(Ref(Event), lambda x: implies(
        mk_bool(z3.Select(hcnt(s.self), x._ref) > 0), Not(mk_bool(event_key_lt(x, s.result)))))),
    ("pending", lambda s: mk_bool(z3.Select(hcnt(s.self), s.result._ref) > 0)),
    ("pure", lambda s: unchanged(s, s.self))])

fn(Clock, "update", args={"time": TIME}, ensures=[("now-is-time", lambda s: ns(s.self._current_time) == ns(s.time))])

# =============================================================================== C. index source
# Ghost M = the largest creation index handed out so far in this simulation (-1 if none).
# FIFO-source invariant  I:  (no run context active  ==> next(global counter) > M)
#                            (run context active     ==> next(active heap counter) > M)
# Each of the four functions that touch the counters must preserve I, and _next_sort_index must
# return an index > M: then index order == creation order, whether an event is created before the
# run, during it, or while it is paused (the statement's "whether they were scheduled before the
# run or during it").


class SymCounter:
    """itertools.count with a symbolic next value stored at a location (trusted: next() returns
    the stored value and stores value + 1)"""

    def __init__(self, loc):
        self.loc = loc

    @property
    def n(self):
        return mk_num(self.loc.get())

    def __next__(self):
        v = self.loc.get()
        self.loc.set(z3.simplify(v + 1))
        return mk_num(v)

    def __iter__(self):
        return self


class _CounterTy(T.Ty):
    name = "Counter"

    def sort(self):
        return z3.IntSort()

    def wrap(self, term, loc=None):
        from pyvc.heap import Box
        return SymCounter(loc if loc is not None else Box(term))

    def unwrap(self, v):
        if isinstance(v, SymCounter):
            return v.loc.get()
        raise OutOfReach(f"{type(v).__name__} stored where an itertools.count is declared")


COUNTER = _CounterTy()
cls(EventHeap, fields={"_event_counter": COUNTER})


def _mk_count(start=0):
    from pyvc.heap import Box
    from pyvc.sym import num_term
    return SymCounter(Box(num_term(start)[0]))


_SAVED = {}


def _setup_counters(active):
    def setup(s):
        from pyvc import ctx as _c
        from pyvc.heap import Box
        c = _c.cur()
        M = fresh(Int, "M")
        assume(M >= -1)
        g = SymCounter(Box(fresh(Int, "g").t))
        c.ghost_args.update(M=M, g=g, g0=g.n)
        _SAVED.update(g=event_mod._global_event_counter, cnt=getattr(sim_future_mod, "count", None),
                      tok=[])
        event_mod._global_event_counter = g
        sim_future_mod.count = _mk_count
        if active:
            h = SymCounter(Box(fresh(Int, "h").t))
            assume(h.n > M)
            c.ghost_args.update(h=h, h0=h.n)
            _SAVED["tok"].append((event_mod._active_counter_var, event_mod._active_counter_var.set(h)))
        else:
            assume(g.n > M)
            _SAVED["tok"].append((event_mod._active_counter_var, event_mod._active_counter_var.set(None)))
        _SAVED["tok"].append((sim_future_mod._active_heap_var, sim_future_mod._active_heap_var.set(None)))
        _SAVED["tok"].append((sim_future_mod._active_clock_var, sim_future_mod._active_clock_var.set(None)))
        return []
    return setup


def _teardown_counters(s):
    if "g" in _SAVED:
        event_mod._global_event_counter = _SAVED.pop("g")
        sim_future_mod.count = _SAVED.pop("cnt")
        for var, tok in reversed(_SAVED.pop("tok")):
            var.reset(tok)


def G(name):
    from pyvc import ctx as _c
    return _c.cur().ghost_args[name]


EV = "happysimulator.core.event"
SF = "happysimulator.core.sim_future"

fn(EV, "_next_sort_index", kind="function", label="no-run-context", setup=_setup_counters(False), teardown=_teardown_counters,
   ensures=[("index-above-all-earlier", lambda s: s.result > G("M")),
            ("source-stays-ahead", lambda s: event_mod._global_event_counter.n > s.result)])
fn(EV, "_next_sort_index", kind="function", label="in-run-context", setup=_setup_counters(True), teardown=_teardown_counters,
   ensures=[("index-above-all-earlier", lambda s: s.result > G("M")),
            ("source-stays-ahead", lambda s: event_mod._active_counter_var.get().n > s.result)])


def _active_next():
    cnt = event_mod._active_counter_var.get(None)
    return None if cnt is None else cnt.n


fn(SF, "_set_active_context", kind="function", args={"heap": Ref(EventHeap), "clock": Ref(Clock)},
   setup=_setup_counters(False), teardown=_teardown_counters,
   ensures=[("run-context-counter-is-ahead-of-every-issued-index", lambda s: (_active_next() is not None) and _active_next() > G("M")),
            ("heap-and-clock-registered", lambda s: same(sim_future_mod._active_heap_var.get(), s.heap)
             & same(sim_future_mod._active_clock_var.get(), s.clock))])


def _setup_clear(s):
    _setup_counters(True)(s)
    # the active counter is the one owned by the active heap (as _set_active_context leaves it)
    hp = fresh(Ref(EventHeap), "active_heap")
    hp._event_counter = G("h")
    sim_future_mod._active_heap_var.set(hp)
    event_mod._active_counter_var.set(hp._event_counter)
    from pyvc import ctx as _c
    _c.cur().ghost_args["h"] = hp._event_counter
    return []


fn(SF, "_clear_active_context", kind="function", setup=_setup_clear, teardown=_teardown_counters,
   ensures=[("context-cleared", lambda s: (event_mod._active_counter_var.get(None) is None)
             and (sim_future_mod._active_heap_var.get() is None)),
            ("global-counter-is-ahead-of-every-issued-index", lambda s: event_mod._global_event_counter.n > G("M"))])


def has_G(name):
    from pyvc import ctx as _c
    return name in _c.cur().ghost_args


# =============================================================================== E. the run loops
from happysimulator.core.control.control import SimulationControl  # noqa: E402

cls(Clock, fields={"_current_time": INSTANT})
cls(SimulationControl, fields={})
cls(Simulation, fields={
    "_event_heap": Ref(EventHeap), "_clock": Ref(Clock), "_end_time": INSTANT, "_start_time": INSTANT,
    "_current_time": INSTANT, "_events_processed": Int, "_events_cancelled": Int, "_is_running": Bool,
    "_is_paused": Bool, "_control": OptRef(SimulationControl), "_tracing_enabled": Bool,
    "_event_router": Opt(Fn(Seq(Ref(Event)), "router")), "_trace": Any, "_last_event": OptRef(Event),
    "_summary": Any, "_wall_start": Opt(Real)},
    inv=[("clock-shows-current-time", lambda o: same_instant(o._clock._current_time, o._current_time)),
         ("heap-tracing-follows", lambda o: Not(o._event_heap._tracing_enabled) | o._tracing_enabled)])


def same_instant(a, b):
    return spec_eq(a, b)


# ---- callee contracts used by the loops (pop/has_events/... are proved in part D) ---------------
# the conditions under which the engine may DELIVER an event are the call-site obligations of
# Event.invoke (from the statement: live, clock == timestamp) and of Clock.update (never backwards)
_INVOKE = stub_of(Event, "invoke", returns=Seq(Ref(Event)), modifies="world",
        requires=[("delivered-event-is-not-cancelled", lambda s: Not(s.self._cancelled)),
                  ("clock-equals-event-timestamp", lambda s: same_instant(G("sim")._clock._current_time, s.self.time))],
        ensures=[])
_INVOKE.keeps = ENGINE_FRAME + [("Event", "time"), ("Event", "_sort_index"), ("Event", "_cancelled"), ("Event", "daemon")]
stub_of(Clock, "update", modifies=["_current_time"],
        requires=[("clock-never-moves-backwards", lambda s: Not(spec_lt(s.time, s.self._current_time)))],
        ensures=[lambda s: same_instant(s.self._current_time, s.time)])
stub_of(EventHeap, "push", modifies=["_heap", "_primary_event_count"],
        requires=[("pushes-only-what-the-handler-returned", lambda s: _push_arg_ok(s))], ensures=[])


def _push_arg_ok(s):
    sim = G("sim")
    if sim._event_router is not None:
        return True                       # a router may redirect or drop (C05)
    tr = G("trace") if has_G("trace") else []
    i = _last(tr, "Event.invoke")
    if i is None:
        return False
    already = any(r[0] == "EventHeap.push" for r in tr[i + 1:])
    res = tr[i][2]
    return (not already) and isinstance(s.events, SymList) and mk_bool(s.events.term == res.term)


def _sim_setup(s):
    from pyvc import ctx as _c
    _c.cur().ghost_args["sim"] = s.self
    return [s.self._event_heap, s.self._clock]


LOOP_USES = [(Event, "invoke"), (Clock, "update"), (EventHeap, "push"), (EventHeap, "pop"), (EventHeap, "has_events"),
             (EventHeap, "has_primary_events")]

fn(Simulation, "_execute_until", args={"end_time_ns": Int}, uses=LOOP_USES, setup=_sim_setup,
   requires=[lambda s: Not(s.self._event_heap._tracing_enabled)],
   ensures=[("time-never-decreases", lambda s: Not(spec_lt(s.self._current_time, s.old(s.self)._current_time))),
            ("counters-only-grow", lambda s: (s.self._events_processed >= s.old(s.self)._events_processed)
             & (s.self._events_cancelled >= s.old(s.self)._events_cancelled)),
            ("stops-only-when-drained-or-past-horizon", lambda s: (slen(s.self._event_heap._heap) == 0)
             | (s.self._current_time.nanoseconds > s.end_time_ns))])

# ---- the instrumented loop, without an attached control surface (C04 covers control) -----------
from happysimulator.instrumentation.recorder import NullTraceRecorder  # noqa: E402

cls(NullTraceRecorder, fields={})
cls(Simulation, fields={"_trace": Ref(NullTraceRecorder)})
stub_of(Simulation, "_build_summary", returns=Any, modifies=[], ensures=[])
stub_of(EventHeap, "set_current_time", modifies=["_current_time"], ensures=[])


def _exit_reason(s):
    """from the statement: the run stops only when nothing is pending, or the clock has passed
    end_time, or (no end_time) no non-daemon event is pending"""
    sim = s.self
    drained = slen(sim._event_heap._heap) == 0
    past = spec_lt(sim._end_time, sim._current_time)
    auto = is_inf(sim._end_time)
    no_primary = sim._event_heap._primary_event_count <= 0
    return drained | past | (no_primary if auto else False)


fn(Simulation, "_run_loop", uses=LOOP_USES + [(Simulation, "_build_summary"), (EventHeap, "set_current_time")],
   setup=_sim_setup,
   requires=[lambda s: s.self._control is None, lambda s: Not(s.self._tracing_enabled),
             lambda s: s.self._is_running & Not(s.self._is_paused), lambda s: wf_instant(s.self._end_time)],
   ensures=[("stops-only-for-a-stated-reason", _exit_reason),
            ("no-end-time-runs-while-primary-events-pend", lambda s: True if not is_inf(s.self._end_time) else
             (slen(s.self._event_heap._heap) == 0) | (s.self._event_heap._primary_event_count <= 0)),
            ("run-is-marked-finished", lambda s: Not(s.self._is_running)),
            ("time-never-decreases", lambda s: Not(spec_lt(s.self._current_time, s.old(s.self)._current_time)))])

# ---- bounded stand-in (labelled bounded, never counted as proved): container ALIASING is outside the engine (lists have
# value semantics in the proofs): the heap must keep its own storage when it is handed a list
PROPERTY.setdefault("bounded", []).append(
    {"name": "scheduled-list-stays-the-callers",
     "bound": "80 scenarios: lists of 1/2/3/6 events x heap empty or not x the caller then clears / appends to / reverses / "
              "overwrites the list x daemon mix; exactly the scheduled events are delivered, once, in key order",
     "fn": lambda seed, tier: run_native_script("triage/c01_schedule_list.py")})

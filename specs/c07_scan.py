"""C07 helper: mechanical time-slice scan over happysimulator/components/**.

A small abstract interpretation of every function body (plain `ast`, nothing is imported or
executed).  Values are abstracted to their relation to the simulated clock at the current
program point:

    F   equals the clock now            (self.now, self._clock.now, <param>.time at entry, ...)
    S   read from the clock earlier, and a suspension that may take time lies in between (stale)
    U   unrelated / unknown

and event objects held in locals / lists to `EF` (stamped with an F expression, not yet past a
suspension) or `ES` (stamped before a suspension that may take time, or stamped with an S value).
A *suspension that may take time* is `yield <anything but literal 0>` or `yield from ...`
(`yield 0.0` resumes at the same instant: the clock cannot have advanced).  Branches are
joined pessimistically (stale in one branch = stale), loop bodies are interpreted twice so a
yield at the bottom of a loop reaches the top.

Scope: happysimulator/{components,load,faults,instrumentation}/** are in the census; every other file of the
library is interpreted too, but only for its call sites (caller rule).

Further classes of time expressions (rules in _entry_classes / _classify_unrelated):
  completion-hook-time  the parameter of a nested function registered with add_completion_hook (the engine calls a
                        hook with the clock now: every hook call site of the library is checked, `hook_calls`)
  caller-now            a parameter of a private method / closure that every call site in the library fills with an
                        F value (least fixpoint over the call graph, by method name and class relation)
  interface-now         the same for a public method (library call sites only)
  start-time            `start_time` inside a pre-run builder (start*/schedule_first*/generate_events)
  pre-run-absolute      Instant.from_seconds(<configured>) / Instant.Epoch in a pre-run builder
  ctor-pass-through     super().__init__(time=time) in an Event subclass constructor (counted at its call sites)
  user-supplied-time    module-level public workload builder: the caller chooses the time
  (records with a `time=` field that are not Event subclasses - RateSnapshot, Memory, ScalingEvent - are not sites)
Loops `while True: d = next(gen); yield d` are classified `delegation` (a hand-rolled `yield from`).

Reported:
  * stale sites  - an event handed to the engine (`return`, `yield d, events`, or constructed
                    inline there) whose timestamp is S / whose object is ES;
  * spin loops    - `while` loops in generators whose every suspension is a literal-zero yield
                    and whose body writes nothing the loop test reads (only another process can
                    end the loop, and this one keeps the clock frozen while it waits);
  * the census of all event-construction sites by time-expression class and of all loops
    that contain a yield by progress certificate (for the evidence file).
"""
from __future__ import annotations

import ast
import os

NOW_ATTRS = {"now"}


def _src(node):
    try:
        return ast.unparse(node)
    except Exception:       # noqa: BLE001
        return "?"


def _is_zero_literal(node):
    if isinstance(node, ast.Constant) and isinstance(node.value, (int, float)) and not isinstance(node.value, bool):
        return node.value == 0
    return False


def _yield_delay(y):
    """the delay expression of a `yield` (first element of a tuple), None for bare `yield`"""
    v = y.value
    if v is None:
        return None
    if isinstance(v, ast.Tuple) and v.elts:
        return v.elts[0]
    return v


def _yield_effects(y):
    v = y.value
    if isinstance(v, ast.Tuple) and len(v.elts) >= 2:
        return v.elts[1]
    return None


def _positive_literal(node):
    return (isinstance(node, ast.Constant) and isinstance(node.value, (int, float))
            and not isinstance(node.value, bool) and node.value > 0)


def _callee_name(func):
    """terminal name of a call target: `Event`, `mod.Event`, `Event.once` -> "Event" / "Event" / "once" """
    if isinstance(func, ast.Name):
        return func.id
    if isinstance(func, ast.Attribute):
        return func.attr
    return None


class _Lib:
    """library-wide class table (names only; nothing is imported): which classes are Event subclasses,
    which classes are related by inheritance"""

    def __init__(self, repo_root=None):
        self.bases = {}         # class name -> set of base names (classes of the same name are merged)
        if repo_root is None:
            self.events = {"Event"}
            return
        base = os.path.join(repo_root, "happysimulator")
        for dirpath, _dirs, files in sorted(os.walk(base)):
            for f in sorted(files):
                if not f.endswith(".py"):
                    continue
                try:
                    tree = ast.parse(open(os.path.join(dirpath, f), encoding="utf-8").read())
                except SyntaxError:
                    continue
                for n in ast.walk(tree):
                    if isinstance(n, ast.ClassDef):
                        self.bases.setdefault(n.name, set()).update(
                            b for b in (_callee_name(x) for x in n.bases) if b)
        self.events = {"Event"}
        changed = True
        while changed:
            changed = False
            for c, bs in self.bases.items():
                if c not in self.events and bs & self.events:
                    self.events.add(c)
                    changed = True

    def ancestors(self, c):
        seen, todo = set(), [c]
        while todo:
            x = todo.pop()
            for b in self.bases.get(x, ()):
                if b not in seen:
                    seen.add(b)
                    todo.append(b)
        return seen

    def related(self, a, b):
        """same class, or one inherits from the other (by name)"""
        return a == b or a in self.ancestors(b) or b in self.ancestors(a)

    def is_event_class(self, name):
        return name in self.events

    def is_other_class(self, name):
        """a library class that is not an Event: a record with a `time` field (RateSnapshot, ...), not an emission"""
        return name in self.bases and name not in self.events


# public methods that build the first event(s) of a component for `sim.schedule(...)` before the run
_PRE_RUN_NAME = ("start", "schedule_first", "generate_events")


class _Fn:
    """abstract interpreter for one function body"""

    def __init__(self, relpath, qual, node, out, cls=None, lib=None, entry=None, calls=None):
        self.relpath, self.qual, self.node, self.out = relpath, qual, node, out
        self.params = [a.arg for a in node.args.args + node.args.kwonlyargs]
        self.is_gen = any(isinstance(n, (ast.Yield, ast.YieldFrom)) for n in self._own_nodes(node))
        self.reported = set()
        self.cls = cls                  # name of the enclosing class (None: module level)
        self.lib = lib or _Lib()        # library-wide class table
        self.entry = dict(entry or {})  # parameter -> origin ("hook" / "caller"): equals the clock at entry
        self.calls = calls if calls is not None else {}

    def entry_state(self):
        st = {"<entry>": "F"}
        for p, origin in self.entry.items():
            st[p] = "F"
            st["^" + p] = frozenset([origin])
        return st

    @staticmethod
    def _own_nodes(fn):
        """nodes of fn excluding nested function/class bodies"""
        stack = list(fn.body)
        while stack:
            n = stack.pop()
            yield n
            for ch in ast.iter_child_nodes(n):
                if isinstance(ch, (ast.FunctionDef, ast.AsyncFunctionDef, ast.ClassDef, ast.Lambda)):
                    continue
                stack.append(ch)

    # ---- expression classification --------------------------------------------------------
    def _is_now_read(self, e):
        """direct clock read: X.now / X._clock.now (not .now.to_seconds() consumers - still a read)"""
        return isinstance(e, ast.Attribute) and e.attr in NOW_ATTRS

    def _is_param_time(self, e):
        return (isinstance(e, ast.Attribute) and e.attr == "time" and isinstance(e.value, ast.Name)
                and e.value.id in self.params)

    @property
    def pre_run(self):
        """a public, non-generator, non-nested function named start* / schedule_first* / generate_events: it builds the
        component's first event(s), which the user (or Simulation.__init__) schedules before the run starts"""
        return ("<locals>" not in self.qual and not self.is_gen and not self.node.name.startswith("_")
                and self.node.name.startswith(_PRE_RUN_NAME))

    def _is_start_read(self, e):
        """in a pre-run builder the clock at the hand-over is the run's start time: `start_time` / `X.start_time`"""
        if not self.pre_run:
            return False
        return ((isinstance(e, ast.Name) and e.id == "start_time" and e.id in self.params)
                or (isinstance(e, ast.Attribute) and e.attr == "start_time"))

    def origins(self, e, st):
        """where the clock-related parts of a time expression come from: now / start / hook / caller / interface"""
        out = set()
        for n in ast.walk(e):
            if self._is_now_read(n) or self._is_param_time(n):
                out.add("now")
            elif self._is_start_read(n):
                out.add("start")
            elif isinstance(n, ast.Name) and st.get(n.id) in ("F", "S"):
                out |= set(st.get("^" + n.id, ("now",)))
        return out

    def _classify_unrelated(self, call, texpr, st):
        """class of a time expression that reads no clock"""
        f = call.func
        if (self.node.name == "__init__" and self.cls and self.lib.is_event_class(self.cls)
                and isinstance(texpr, ast.Name) and texpr.id in self.params
                and isinstance(f, ast.Attribute) and f.attr == "__init__"):
            return "ctor-pass-through"          # Event subclass constructor: stamped (and counted) at its call sites
        absolute = ((isinstance(texpr, ast.Call) and _src(texpr.func) == "Instant.from_seconds" and len(texpr.args) == 1)
                    or _src(texpr) == "Instant.Epoch")
        if self.pre_run and absolute:
            return "pre-run-absolute"           # Instant.from_seconds(<configured>) / Instant.Epoch, scheduled before the run
        if self.cls is None and "<locals>" not in self.qual and not self.node.name.startswith("_"):
            return "user-supplied-time"         # module-level workload builder: the caller chooses the time
        return "other"

    def _record_calls(self, e, st):
        """remember, for the caller rule, the clock class of every argument of every call in expression e"""
        for n in ast.walk(e):
            if not isinstance(n, ast.Call):
                continue
            f = n.func
            if isinstance(f, ast.Attribute):
                kind = "self" if isinstance(f.value, ast.Name) and f.value.id == "self" else "obj"
                name = f.attr
            elif isinstance(f, ast.Name):
                kind, name = "name", f.id
            else:
                continue
            star = any(isinstance(a, ast.Starred) for a in n.args) or any(kw.arg is None for kw in n.keywords)

            def tg(x):
                t = self.tag_expr(x, st)
                return t if t != "F" else ("F:" + ",".join(sorted(self.origins(x, st))))
            rec = {"cls": self.cls, "file": self.relpath, "fn": self.qual, "line": n.lineno, "star": star,
                   "pos": [tg(a) for a in n.args if not isinstance(a, ast.Starred)],
                   "kw": {kw.arg: tg(kw.value) for kw in n.keywords if kw.arg is not None}}
            site = self.calls.setdefault((kind, name), {})
            key = (self.relpath, self.qual, n.lineno, n.col_offset)
            old = site.get(key)
            if old is not None:         # visited again (loop bodies are interpreted twice): keep the worse class
                rec["pos"] = [o if not o.startswith("F") else x for o, x in zip(old["pos"], rec["pos"])]
                rec["kw"] = {k: (old["kw"].get(k, x) if not old["kw"].get(k, "F").startswith("F") else x)
                             for k, x in rec["kw"].items()}
            site[key] = rec

    def tag_expr(self, e, st):
        """F / S / U for a time-valued expression"""
        if (isinstance(e, ast.IfExp) and any(isinstance(n, ast.Attribute) and n.attr == "_clock" for n in ast.walk(e.test))
                and any(self._is_now_read(n) for n in ast.walk(e.body))):
            # `self._clock.now if self._clock [is not None] else <fallback>`: entities are attached to a
            # simulation (assumption listed in the spec), the fallback is dead
            return self.tag_expr(e.body, st)
        # shapes that read the clock but are NOT of the form now + offset (so `>= now` does not follow):
        #   min(a, b, ..) with an argument that is not itself clock-now(+offset) - the minimum may be that argument;
        #   d.get(key, <clock read>) / getattr(o, name, <clock read>) - the clock is only the DEFAULT, the stored value wins
        for n in ast.walk(e):
            if isinstance(n, ast.Call):
                fname = n.func.id if isinstance(n.func, ast.Name) else (n.func.attr if isinstance(n.func, ast.Attribute) else "")
                if fname == "min" and len(n.args) >= 2 and not n.keywords:
                    if any(self.tag_expr(a, st) == "U" for a in n.args if not isinstance(a, ast.Starred)):
                        return "U"
                if fname in ("get", "getattr", "pop", "setdefault") and len(n.args) >= 2:
                    default = n.args[-1]
                    rest = n.args[:-1] + ([n.func.value] if isinstance(n.func, ast.Attribute) else [])
                    if any(self._is_now_read(x) for x in ast.walk(default)) \
                            and not any(self._is_now_read(x) for r in rest for x in ast.walk(r)):
                        return "U"
        tags = set()
        for n in ast.walk(e):
            if self._is_now_read(n) or self._is_start_read(n):
                tags.add("F")
            elif self._is_param_time(n):
                tags.add(st.get("<entry>", "F"))
            elif isinstance(n, ast.Name) and n.id in st and st[n.id] in ("F", "S"):
                tags.add(st[n.id])
        if "S" in tags:
            return "S"
        if "F" in tags:
            return "F"
        return "U"

    def _event_calls(self, e):
        """Call nodes with a `time=` keyword (Event and subclasses) and self.forward(...) calls"""
        for n in ast.walk(e):
            if isinstance(n, ast.Call):
                callee = _callee_name(n.func)
                if any(kw.arg == "time" for kw in n.keywords):
                    if callee and self.lib.is_other_class(callee):
                        # a library record with a `time` field (RateSnapshot(time=...)): nothing is emitted
                        self.out.setdefault("non_events", {})[(self.relpath, self.qual, n.lineno)] = callee
                        continue
                    yield n, next(kw.value for kw in n.keywords if kw.arg == "time")
                elif (isinstance(n.func, ast.Name) and self.lib.is_event_class(callee) and n.args
                      and not isinstance(n.args[0], ast.Starred)):
                    yield n, n.args[0]      # Event(<time>, ...): positional timestamp
                elif isinstance(n.func, ast.Attribute) and n.func.attr == "forward" and len(n.args) + len(n.keywords) >= 2:
                    yield n, None          # Entity.forward stamps self.now at the call

    def tag_value(self, e, st):
        """abstract value of an arbitrary right-hand side: F/S (time), EF/ES (event(s)), U"""
        ev = None
        self._expr_sites = set()
        self._expr_stale = {}       # site key -> why (stamped with a stale value / held across a suspension)
        for call, texpr in self._event_calls(e):
            t = "F" if texpr is None else self.tag_expr(texpr, st)
            # (a stale stamp only matters if it is still there at the hand-over: classified in _handover)
            klass = {"F": "clock-now(+offset)", "S": "clock-now(+offset)", "U": "other"}[t]
            if t in "FS" and texpr is not None:
                org = self.origins(texpr, st)
                if "now" not in org:
                    klass = next((k for o, k in (("start", "start-time(+offset)"), ("hook", "completion-hook-time(+offset)"),
                                                 ("caller", "caller-now(+offset)"), ("interface", "interface-now(+offset)"))
                                  if o in org), klass)
            if t in "FS" and texpr is not None and any(isinstance(n, (ast.Sub, ast.USub)) for n in ast.walk(texpr)):
                klass = "other"         # clock minus something: not of the shape now + offset
            if t == "U" and texpr is not None:
                klass = self._classify_unrelated(call, texpr, st)
            key = (self.relpath, self.qual, call.lineno, call.col_offset)
            prev = self.out["sites"].get(key)
            rank = {"other": 1, "stale": 2}
            if prev is None or rank.get(klass, 0) > rank.get(prev["class"], 0):
                self.out["sites"][key] = {"file": self.relpath, "function": self.qual, "line": call.lineno,
                                          "generator": self.is_gen,
                                          "time": "self.forward" if texpr is None else _src(texpr), "class": klass}
            self._expr_sites.add(key)
            if t == "S":
                self._expr_stale[key] = (f"time expression `{_src(texpr)}` was read from the clock before a suspension "
                                         f"that may take time")
            tag = "ES" if t == "S" else "EF"
            ev = "ES" if "ES" in (ev, tag) else "EF"
        for n in ast.walk(e):
            if isinstance(n, ast.Name) and st.get(n.id) in ("EF", "ES"):
                ev = "ES" if "ES" in (ev, st[n.id]) else (ev or "EF")
                self._expr_sites |= set(st.get("@" + n.id, ()))
                if st[n.id] == "ES":
                    for key in st.get("@" + n.id, ()):
                        self._expr_stale.setdefault(key, f"event held in `{n.id}` was stamped before a suspension that may "
                                                         f"take time (or with a value read before it)")
        if ev:
            return ev
        self._val_origins = frozenset(self.origins(e, st))
        return self.tag_expr(e, st)

    def _mark_stale(self, key, why, handed):
        site = self.out["sites"].get(key)
        if site is None:
            return
        site["class"] = "stale"
        site.setdefault("why", why)
        site.setdefault("handed_over_line", handed)

    # ---- statements -------------------------------------------------------------------------
    def _stale_all(self, st):
        for k, v in list(st.items()):
            if v == "F":
                st[k] = "S"
            elif v == "EF":
                st[k] = "ES"
        st["<entry>"] = "S"

    def _suspensions(self, e, st):
        """process yields inside expression/statement e in source order: hand-over then staling"""
        self._record_calls(e, st)
        ys = [n for n in ast.walk(e) if isinstance(n, (ast.Yield, ast.YieldFrom))]
        ys.sort(key=lambda n: (n.lineno, n.col_offset))
        for y in ys:
            if isinstance(y, ast.Yield):
                eff = _yield_effects(y)
                if eff is not None:
                    self._handover(eff, st, y.lineno)
                d = _yield_delay(y)
                if d is None or _is_zero_literal(d):
                    continue
            self._stale_all(st)

    def _handover(self, e, st, line):
        v = self.tag_value(e, st)
        if v == "ES":
            for key, why in self._expr_stale.items():
                self._mark_stale(key, why + "; it is handed to the engine after that suspension", line)

    def _assign(self, target, val_tag, st, line):
        if isinstance(target, ast.Name):
            if val_tag in ("F", "S", "EF", "ES"):
                st[target.id] = val_tag
                st.pop("^" + target.id, None)
                if val_tag in ("EF", "ES"):
                    st["@" + target.id] = frozenset(self._expr_sites)
                elif getattr(self, "_val_origins", None):
                    st["^" + target.id] = self._val_origins
            else:
                st.pop(target.id, None)
                st.pop("@" + target.id, None)
                st.pop("^" + target.id, None)
        elif isinstance(target, (ast.Tuple, ast.List)):
            for t in target.elts:
                self._assign(t, "U", st, line)

    def run_block(self, body, st):
        for s in body:
            st = self.run_stmt(s, st)
            if st is None:
                return None
        return st

    def _join(self, a, b):
        if a is None:
            return b
        if b is None:
            return a
        out = {}
        for k in set(a) | set(b):
            va, vb = a.get(k), b.get(k)
            if k.startswith(("@", "^")):
                out[k] = frozenset(va or ()) | frozenset(vb or ())
                continue
            if va == vb:
                out[k] = va
            elif "ES" in (va, vb):
                out[k] = "ES"
            elif "S" in (va, vb):
                out[k] = "S"
            elif va is None or vb is None:
                out[k] = va or vb          # bound on one branch only: keep (pessimistic for E*/S)
            else:
                out[k] = "ES" if (va[0] == "E" or vb[0] == "E") else "S"
        return out

    def run_stmt(self, s, st):
        if isinstance(s, (ast.FunctionDef, ast.AsyncFunctionDef, ast.ClassDef)):
            return st
        if isinstance(s, ast.Return):
            if s.value is not None:
                self._suspensions(s.value, st)
                self._handover(s.value, st, s.lineno)
            return None
        if isinstance(s, ast.Raise):
            return None
        if isinstance(s, (ast.Assign, ast.AnnAssign, ast.AugAssign)):
            val = s.value
            if val is None:
                return st
            self._suspensions(val, st)
            tag = self.tag_value(val, st)
            targets = s.targets if isinstance(s, ast.Assign) else [s.target]
            if isinstance(s, ast.AugAssign):
                if isinstance(s.target, ast.Name) and tag in ("EF", "ES"):
                    cur = st.get(s.target.id)
                    st[s.target.id] = "ES" if "ES" in (cur, tag) else "EF"
                    st["@" + s.target.id] = frozenset(st.get("@" + s.target.id, ())) | frozenset(self._expr_sites)
                return st
            for t in targets:
                self._assign(t, tag, st, s.lineno)
            return st
        if isinstance(s, ast.Expr):
            self._suspensions(s.value, st)
            v = s.value
            # lst.append(ev) / lst.extend(evs) / lst.insert(i, ev)
            if (isinstance(v, ast.Call) and isinstance(v.func, ast.Attribute) and v.func.attr in ("append", "extend", "insert")
                    and isinstance(v.func.value, ast.Name) and v.args):
                tag = self.tag_value(v.args[-1], st)
                if tag in ("EF", "ES"):
                    nm = v.func.value.id
                    cur = st.get(nm)
                    st[nm] = "ES" if "ES" in (cur, tag) else "EF"
                    st["@" + nm] = frozenset(st.get("@" + nm, ())) | frozenset(self._expr_sites)
            elif not isinstance(v, (ast.Yield, ast.YieldFrom)):
                self._handover(v, st, s.lineno)     # event passed to some call: treated as handed over there
            return st
        if isinstance(s, ast.If):
            self._suspensions(s.test, st)
            t = s.test
            if isinstance(t, ast.Compare) and len(t.ops) == 1 and isinstance(t.ops[0], ast.IsNot) \
                    and isinstance(t.comparators[0], ast.Constant) and t.comparators[0].value is None:
                t = t.left
            if isinstance(t, ast.Attribute) and t.attr == "_clock":
                # `if self._clock [is not None]:` - entities are attached (assumption): the else branch is dead
                return self.run_block(s.body, st)
            a = self.run_block(s.body, dict(st))
            b = self.run_block(s.orelse, dict(st))
            return self._join(a, b) if (a is not None or b is not None) else None
        if isinstance(s, (ast.While, ast.For, ast.AsyncFor)):
            self._loop_census(s)
            cur = dict(st)
            exit_states = [dict(st)] if not (isinstance(s, ast.While) and isinstance(s.test, ast.Constant) and s.test.value is True) else []
            for _ in range(2):
                if isinstance(s, ast.While):
                    self._suspensions(s.test, cur)
                else:
                    self._record_calls(s.iter, cur)
                    self._assign(s.target, "U", cur, s.lineno)
                saved_breaks = getattr(self, "_breaks", [])
                self._breaks = []
                after = self.run_block(s.body, dict(cur))
                exit_states.extend(self._breaks)
                self._breaks = saved_breaks
                if after is None:
                    break
                exit_states.append(after)
                cur = self._join(cur, after)
            out = None
            for e in exit_states:
                out = self._join(out, e)
            if out is not None and self._restamps(s, out):
                out[s.iter.id] = "EF"       # every event of the list was re-stamped (or clamped) to the clock now
            if s.orelse and out is not None:
                out = self.run_block(s.orelse, out)
            return out
        if isinstance(s, ast.Break):
            getattr(self, "_breaks", []).append(dict(st))
            return None
        if isinstance(s, ast.Continue):
            return None
        if isinstance(s, (ast.With, ast.AsyncWith)):
            return self.run_block(s.body, st)
        if isinstance(s, ast.Try):
            a = self.run_block(s.body, dict(st))
            outs = [a]
            for h in s.handlers:
                outs.append(self.run_block(h.body, dict(st)))
            out = None
            for o in outs:
                out = self._join(out, o)
            if out is not None and s.orelse:
                out = self.run_block(s.orelse, out)
            if s.finalbody:
                out = self.run_block(s.finalbody, out if out is not None else dict(st))
            return out
        if isinstance(s, ast.Match):
            out = None
            for c in s.cases:
                out = self._join(out, self.run_block(c.body, dict(st)))
            return out
        # anything else (pass, assert, del, global, import ...): look for suspensions / constructions
        for ch in ast.iter_child_nodes(s):
            if isinstance(ch, ast.expr):
                self._suspensions(ch, st)
        return st

    def _restamps(self, loop, st):
        """`for ev in events: ev.time = <now>`  or  `for ev in events: if ev.time < <now>: ev.time = <now>`
        (no suspension in the body): afterwards no event of `events` is stamped before the clock now"""
        if not (isinstance(loop, ast.For) and isinstance(loop.iter, ast.Name) and isinstance(loop.target, ast.Name)):
            return False
        x = loop.target.id

        def is_x_time(e):
            return isinstance(e, ast.Attribute) and e.attr == "time" and isinstance(e.value, ast.Name) and e.value.id == x

        def stamp(a):
            return (isinstance(a, ast.Assign) and len(a.targets) == 1 and is_x_time(a.targets[0])
                    and self.tag_expr(a.value, st) == "F")
        if not loop.body:
            return False
        for b in loop.body:
            if stamp(b):
                continue
            if (isinstance(b, ast.If) and not b.orelse and len(b.body) == 1 and stamp(b.body[0])
                    and isinstance(b.test, ast.Compare) and len(b.test.ops) == 1 and isinstance(b.test.ops[0], ast.Lt)
                    and is_x_time(b.test.left) and self.tag_expr(b.test.comparators[0], st) == "F"
                    and _src(b.test.comparators[0]) == _src(b.body[0].value)):
                continue
            return False
        return True

    # ---- loops with a yield: progress census ------------------------------------------------
    def _loop_ordinal(self, loop):
        """pre-order number of the loop among the loops of this function (nested functions excluded):
        the numbering pyvc/loader.py uses for loop contracts"""
        if not hasattr(self, "_loop_numbers"):
            self._loop_numbers = {}

            def walk(n):
                for ch in ast.iter_child_nodes(n):
                    if isinstance(ch, (ast.FunctionDef, ast.AsyncFunctionDef, ast.ClassDef, ast.Lambda)):
                        continue
                    if isinstance(ch, (ast.While, ast.For)):
                        self._loop_numbers[id(ch)] = len(self._loop_numbers) + 1
                    walk(ch)
            walk(self.node)
        return self._loop_numbers.get(id(loop))

    @staticmethod
    def _is_delegation(loop):
        """`while True: d = next(gen); [acc += d ...]; yield d` - nothing else in the body"""
        if not (isinstance(loop, ast.While) and isinstance(loop.test, ast.Constant) and loop.test.value is True
                and len(loop.body) >= 2 and not loop.orelse):
            return False
        first = loop.body[0]
        if not (isinstance(first, ast.Assign) and len(first.targets) == 1 and isinstance(first.targets[0], ast.Name)
                and isinstance(first.value, ast.Call) and isinstance(first.value.func, ast.Name)
                and first.value.func.id == "next" and len(first.value.args) == 1 and isinstance(first.value.args[0], ast.Name)):
            return False
        x = first.targets[0].id
        n_yield = 0
        for b in loop.body[1:]:
            if isinstance(b, ast.AugAssign) and isinstance(b.target, ast.Name) and b.target.id != x \
                    and not any(isinstance(n, (ast.Yield, ast.YieldFrom, ast.Call)) for n in ast.walk(b.value)):
                continue
            if (isinstance(b, ast.Expr) and isinstance(b.value, ast.Yield) and isinstance(b.value.value, ast.Name)
                    and b.value.value.id == x):
                n_yield += 1
                continue
            return False
        return n_yield == 1

    def _loop_census(self, loop):
        if id(loop) in self.out["_seen_loops"]:
            return
        self.out["_seen_loops"].add(id(loop))
        body_nodes = []
        stack = list(loop.body)
        while stack:
            n = stack.pop()
            body_nodes.append(n)
            for ch in ast.iter_child_nodes(n):
                if isinstance(ch, (ast.FunctionDef, ast.AsyncFunctionDef, ast.ClassDef, ast.Lambda)):
                    continue
                stack.append(ch)
        ys = [n for n in body_nodes if isinstance(n, (ast.Yield, ast.YieldFrom))]
        if not ys:
            return
        rec = {"file": self.relpath, "function": self.qual, "line": loop.lineno,
               "kind": "while" if isinstance(loop, ast.While) else "for",
               "head": _src(loop.test) if isinstance(loop, ast.While) else f"{_src(loop.target)} in {_src(loop.iter)}",
               "ordinal": self._loop_ordinal(loop), "yields": sorted({_src(y) for y in ys})}
        if not isinstance(loop, ast.While):
            rec["certificate"] = "bounded: iteration over a finite collection"
            rec["cert_kind"] = "bounded"
            self.out["loops"].append(rec)
            return
        if self._is_delegation(loop):
            rec["certificate"] = ("delegation (a hand-rolled `yield from`): every iteration takes one suspension from the driven "
                                  "sub-generator with next() and re-yields it; the loop ends with the sub-generator (StopIteration)")
            rec["cert_kind"] = "delegation"
            self.out["loops"].append(rec)
            return
        delays = [(_yield_delay(y) if isinstance(y, ast.Yield) else None) for y in ys]
        all_zero =all(isinstance(y, ast.Yield) and d is not None and _is_zero_literal(d) for y, d in zip(ys, delays))
        all_pos = all(isinstance(y, ast.Yield) and d is not None and _positive_literal(d) for y, d in zip(ys, delays))
        # exit conditions: the loop test and the tests of `if`s whose branch leaves the loop
        exit_tests = [loop.test]
        exit_branch_nodes = set()
        for n in body_nodes:
            if isinstance(n, ast.If):
                for branch in (n.body, n.orelse):
                    sub = [x for st_ in branch for x in ast.walk(st_)]
                    if any(isinstance(x, (ast.Break, ast.Return, ast.Raise)) for x in sub):
                        exit_tests.append(n.test)
                        exit_branch_nodes.update(id(x) for x in sub)
        test_reads = {_src(n) for t in exit_tests for n in ast.walk(t)
                      if isinstance(n, (ast.Name, ast.Attribute, ast.Subscript))}
        writes = set()
        for n in body_nodes:
            if id(n) in exit_branch_nodes:
                continue            # executed only on the way out of the loop
            tg = []
            if isinstance(n, ast.Assign):
                tg = n.targets
            elif isinstance(n, (ast.AugAssign, ast.AnnAssign)):
                tg = [n.target]
            for t in tg:
                for x in ast.walk(t):
                    if isinstance(x, (ast.Name, ast.Attribute, ast.Subscript)):
                        writes.add(_src(x))
            if isinstance(n, ast.Call) and isinstance(n.func, ast.Attribute):
                writes.add(_src(n.func.value))          # method call on an object may mutate it
        body_changes_test = bool(test_reads & writes)
        if all_zero and not body_changes_test:
            rec["certificate"] = None
            rec["why"] = ("every suspension in the body is `yield 0.0` (the clock does not advance) and the body writes nothing "
                          "the loop test reads: only another process can end the loop")
            rec["cert_kind"] = "none"
        elif all_pos:
            rec["certificate"] = "every iteration suspends for a positive literal delay"
            rec["cert_kind"] = "positive-literal"
        elif all_zero:
            rec["certificate"] = "body changes the loop test / leaves the loop (decreasing measure needs a contract)"
            rec["cert_kind"] = "needs-contract"
        else:
            rec["certificate"] = "suspends on a future / computed delay (positivity needs a contract)"
            rec["cert_kind"] = "needs-contract"
        self.out["loops"].append(rec)


def _params_of(node, is_method):
    a = node.args
    pos = [x.arg for x in a.posonlyargs + a.args]
    if is_method and pos and pos[0] in ("self", "cls"):
        pos = pos[1:]
    return pos, [x.arg for x in a.kwonlyargs]


def _entry_classes(funcs, calls, lib):
    """the caller rule and the completion-hook rule: {(relpath, qualname): {param: origin}}

    hook      a nested function registered with `<event>.add_completion_hook(<name>)` in its enclosing function and
              never called by name: the engine calls it with the clock now (checked separately: hook_calls)
    caller    a private method / private module function / nested function: every call site in the library passes a
              value that equals the clock there (class F) for the parameter
    interface a public method: the same, over the call sites inside the library (user code calling it with another
              time is not a library emission)
    """
    out = {}
    for rel, q, node, cls, parent, _census in funcs:
        name = node.name
        nested = parent is not None
        decos = {_callee_name(d.func if isinstance(d, ast.Call) else d) for d in node.decorator_list}
        is_method = cls is not None and not nested and "staticmethod" not in decos
        pos, kwonly = _params_of(node, is_method)
        if not pos and not kwonly:
            continue
        if name.startswith("__") and name.endswith("__"):
            continue
        if nested:
            owner = q[:-len(".<locals>." + name)]       # the enclosing function: it and its closures can call `name`
            sites = [r for r in calls.get(("name", name), {}).values()
                     if r["file"] == rel and (r["fn"] == owner or r["fn"].startswith(owner + ".<locals>."))]
            registered = any(isinstance(n, ast.Call) and isinstance(n.func, ast.Attribute) and n.func.attr == "add_completion_hook"
                             and len(n.args) == 1 and isinstance(n.args[0], ast.Name) and n.args[0].id == name
                             for n in ast.walk(parent))
            escapes = sum(1 for n in ast.walk(parent) if isinstance(n, ast.Name) and n.id == name and isinstance(n.ctx, ast.Load))
            # (the engine calls a hook with one positional argument: further parameters must have defaults)
            if registered and not sites and escapes == 1 and pos and len(node.args.defaults) >= len(pos) - 1:
                out[(rel, q)] = {pos[0]: "hook"}
                continue
            if escapes != len(sites):
                continue            # the function value escapes (stored / passed on): unknown callers
            origin = "caller"
        elif cls is not None:
            sites = [r for r in calls.get(("self", name), {}).values() if r["cls"] and lib.related(r["cls"], cls)]
            sites += list(calls.get(("obj", name), {}).values())
            origin = "caller" if name.startswith("_") else "interface"
        else:
            sites = [r for r in calls.get(("name", name), {}).values() if r["file"] == rel]
            sites += list(calls.get(("obj", name), {}).values())
            if not name.startswith("_"):
                continue            # public module-level function: user code calls it
            origin = "caller"
        if not sites or any(r["star"] for r in sites):
            continue
        got = {}
        for i, p in enumerate(pos + kwonly):
            tags = []
            for r in sites:
                if p in r["kw"]:
                    tags.append(r["kw"][p])
                elif p in pos and i < len(r["pos"]):
                    tags.append(r["pos"][i])
                else:
                    tags.append("U")            # default value used
            if all(t.startswith("F:") for t in tags):
                # a parameter filled from start_time at some call site is the clock only before the run: keep it apart
                got[p] = "start" if any("start" in t[2:].split(",") for t in tags) else origin
        if got:
            out[(rel, q)] = got
    return out


def _hook_call_sites(repo_root):
    """every place in the library that CALLS a completion hook, with the argument it passes: [(file, line, arg, ok)].
    A hook is an element of some `<x>.on_complete` list; `ok` = the argument is the clock now:
    `self.now`, or the `time` parameter of Event._run_completion_hooks whose callers all pass `self.time` from
    Event.invoke / ProcessContinuation.invoke (there the event being invoked is the one just popped: C01 clock == its time)"""
    found = []
    hs = os.path.join(repo_root, "happysimulator")
    for dirpath, _dirs, files in sorted(os.walk(hs)):
        for f in sorted(files):
            if not f.endswith(".py"):
                continue
            p = os.path.join(dirpath, f)
            try:
                tree = ast.parse(open(p, encoding="utf-8").read())
            except SyntaxError:
                continue
            rel = os.path.relpath(p, hs)
            for fn in ast.walk(tree):
                if not isinstance(fn, (ast.FunctionDef, ast.AsyncFunctionDef)):
                    continue
                # names bound to `<x>.on_complete` (or a copy of it) in this function
                lists = set()
                for n in ast.walk(fn):
                    if isinstance(n, ast.Assign) and len(n.targets) == 1 and isinstance(n.targets[0], ast.Name) \
                            and any(isinstance(x, ast.Attribute) and x.attr == "on_complete" for x in ast.walk(n.value)):
                        lists.add(n.targets[0].id)
                for loop in ast.walk(fn):
                    if not (isinstance(loop, ast.For) and isinstance(loop.target, ast.Name)):
                        continue
                    it = loop.iter
                    over_hooks = (any(isinstance(x, ast.Attribute) and x.attr == "on_complete" for x in ast.walk(it))
                                  or (isinstance(it, ast.Name) and it.id in lists))
                    if not over_hooks:
                        continue
                    h = loop.target.id
                    for n in ast.walk(loop):
                        if isinstance(n, ast.Call) and isinstance(n.func, ast.Name) and n.func.id == h:
                            arg = _src(n.args[0]) if len(n.args) == 1 and not n.keywords else "?"
                            found.append({"file": rel, "function": fn.name, "line": n.lineno, "arg": arg})
                for n in ast.walk(fn):
                    if isinstance(n, ast.Call) and isinstance(n.func, ast.Attribute) and n.func.attr == "_run_completion_hooks":
                        arg = _src(n.args[0]) if len(n.args) == 1 and not n.keywords else "?"
                        found.append({"file": rel, "function": fn.name, "line": n.lineno, "arg": arg, "relay": True})
    found = list({(r["file"], r["line"], bool(r.get("relay"))): r for r in found}.values())
    relays_ok = all(r["arg"] == "self.time" and r["function"] == "invoke" and r["file"] == "core/event.py"
                    for r in found if r.get("relay"))
    for r in found:
        if r.get("relay"):
            r["ok"] = r["arg"] == "self.time" and r["function"] == "invoke" and r["file"] == "core/event.py"
        elif r["function"] == "_run_completion_hooks":
            r["ok"] = r["arg"] == "time" and relays_ok
        else:
            r["ok"] = r["arg"] == "self.now"
    return found


def ctor_rejects_nonpositive(repo_root, relfile, classname, param):
    """does `classname.__init__` (file relative to happysimulator/) contain `if <param> <= 0: raise ...` at its top level?"""
    try:
        tree = ast.parse(open(os.path.join(repo_root, "happysimulator", relfile), encoding="utf-8").read())
    except (OSError, SyntaxError):
        return False
    for c in ast.walk(tree):
        if not (isinstance(c, ast.ClassDef) and c.name == classname):
            continue
        for f in c.body:
            if not (isinstance(f, ast.FunctionDef) and f.name == "__init__"):
                continue
            if param not in [a.arg for a in f.args.args + f.args.kwonlyargs]:
                return False
            for st in f.body:
                if (isinstance(st, ast.If) and isinstance(st.test, ast.Compare) and len(st.test.ops) == 1
                        and isinstance(st.test.ops[0], ast.LtE) and isinstance(st.test.left, ast.Name)
                        and st.test.left.id == param and _is_zero_literal(st.test.comparators[0])
                        and st.body and isinstance(st.body[0], ast.Raise)):
                    # the parameter must not be re-bound before the check
                    before = f.body[:f.body.index(st)]
                    if not any(isinstance(n, ast.Name) and n.id == param and isinstance(n.ctx, ast.Store)
                               for b in before for n in ast.walk(b)):
                        return True
    return False


def scan(repo_root, subdirs=("components", "load", "faults", "instrumentation")):
    """returns {"stale": [...], "spin": [...], "loops": [...], "census": {...}}"""
    lib = _Lib(repo_root)
    hs = os.path.join(repo_root, "happysimulator")
    paths = []
    for dirpath, _dirs, files in sorted(os.walk(hs)):
        paths.extend(os.path.join(dirpath, f) for f in sorted(files) if f.endswith(".py"))
    # every function of every file of the library: (relpath, qualname, node, enclosing class, enclosing function node,
    # in the census?).  Files outside `subdirs` are interpreted only for their call sites (caller rule).
    funcs, nfiles = [], 0
    for p in paths:
        rel = os.path.relpath(p, hs)
        census = any(rel == sub or rel.startswith(sub.rstrip("/") + "/") for sub in subdirs)
        try:
            tree = ast.parse(open(p, encoding="utf-8").read())
        except SyntaxError:
            continue
        nfiles += census

        def visit(node, stack, cls, parent):
            for ch in ast.iter_child_nodes(node):
                if isinstance(ch, ast.ClassDef):
                    visit(ch, stack + [ch.name], ch.name, parent)
                elif isinstance(ch, (ast.FunctionDef, ast.AsyncFunctionDef)):
                    funcs.append((rel, ".".join(stack + [ch.name]), ch, cls, parent, census))
                    visit(ch, stack + [ch.name, "<locals>"], cls, ch)
                else:
                    visit(ch, stack, cls, parent)
        visit(tree, [], None, None)
    # the caller rule needs the classes of the arguments at the call sites, which depend on the entry classes of the
    # callers' own parameters: iterate (entry classes only ever grow from the empty assignment; 4 rounds are plenty)
    entry = {}
    for _round in range(5):
        out = {"sites": {}, "loops": [], "_seen_loops": set(), "non_events": {}}
        calls = {}
        nfuncs = ngens = 0
        used = entry
        for rel, q, node, cls, parent, census in funcs:
            sink = out if census else {"sites": {}, "loops": [], "_seen_loops": set(), "non_events": {}}
            fi = _Fn(rel, q, node, sink, cls=cls, lib=lib, entry=entry.get((rel, q)), calls=calls)
            if census:
                nfuncs += 1
                ngens += fi.is_gen
            fi.run_block(node.body, fi.entry_state())
        new_entry = _entry_classes(funcs, calls, lib)
        if new_entry == entry:
            break
        entry = new_entry
    out.pop("_seen_loops")
    out["entry_classes"] = {f"{rel}::{q}": v for (rel, q), v in sorted(used.items())}
    out["hook_calls"] = _hook_call_sites(repo_root)
    out["non_events"] = [f"{rel}:{line} {q}: {callee}(time=...)" for (rel, q, line), callee in sorted(out["non_events"].items())]
    # ordinal of a construction site within its function (stable under unrelated edits elsewhere in the file)
    sites = [out["sites"][k] | {"_col": k[3]} for k in sorted(out["sites"])]
    per_fn = {}
    for c in sites:
        k = (c["file"], c["function"])
        per_fn[k] = per_fn.get(k, 0) + 1
        c["ordinal"] = per_fn[k]
        c.pop("_col")
    by_class = {}
    for c in sites:
        by_class[c["class"]] = by_class.get(c["class"], 0) + 1
    out["sites"] = sites
    out["stale"] = [c for c in sites if c["class"] == "stale"]
    by_dir = {}
    for c in sites:
        d = c["file"].split("/")[0]
        by_dir[d] = by_dir.get(d, 0) + 1
    out["census"] = {"scanned": list(subdirs), "files": nfiles, "functions": nfuncs, "generators": ngens,
                     "event_construction_sites": len(sites), "sites_by_directory": by_dir,
                     "by_time_expression_class": by_class,
                     "records_with_a_time_field_not_events": len(out["non_events"]),
                     "sites_in_generators": sum(1 for c in sites if c["generator"]),
                     "loops_with_a_suspension": len(out["loops"])}
    out["spin"] = [r for r in out["loops"] if r.get("certificate") is None]
    return out


if __name__ == "__main__":
    import json
    import sys
    r = scan(sys.argv[1] if len(sys.argv) > 1 else "/repo")
    json.dump(r, sys.stdout, indent=1)

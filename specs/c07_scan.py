"""C07 helper: mechanical time-slice scan over happysimulator/components/**.

A small abstract interpretation of every function body (plain `ast`, nothing is imported or
executed).  Values are abstracted to their relation to the simulated clock at the current
program point:

    F   equals the clock now            (self.now, self._clock.now, <param>.time at entry, ...)
    S   read from the clock earlier, and a suspension that may take time lies in between (stale)
    U   unrelated / unknown

and event objects held in locals / lists to `EF` (stamped with an F expression, not yet past a
suspension) or `ES` (stamped before a suspension that may take time, or stamped with an S value).
A *suspension that may take time* is `yield <anything but literal 0>` or `yield from ...`
(`yield 0.0` resumes at the same instant: the clock cannot have advanced).  Branches are
joined pessimistically (stale in one branch = stale), loop bodies are interpreted twice so a
yield at the bottom of a loop reaches the top.

Reported:
  * stale sites   - an event handed to the engine (`return`, `yield d, events`, or constructed
                    inline there) whose timestamp is S / whose object is ES;
  * spin loops    - `while` loops in generators whose every suspension is a literal-zero yield
                    and whose body writes nothing the loop test reads (only another process can
                    end the loop, and this one keeps the clock frozen while it waits);
  * the census of all event-construction sites by time-expression class and of all loops
    that contain a yield by progress certificate (for the evidence file).
"""
from __future__ import annotations

import ast
import os

NOW_ATTRS = {"now"}


def _src(node):
    try:
        return ast.unparse(node)
    except Exception:       # noqa: BLE001
        return "?"


def _is_zero_literal(node):
    if isinstance(node, ast.Constant) and isinstance(node.value, (int, float)) and not isinstance(node.value, bool):
        return node.value == 0
    return False


def _yield_delay(y):
    """the delay expression of a `yield` (first element of a tuple), None for bare `yield`"""
    v = y.value
    if v is None:
        return None
    if isinstance(v, ast.Tuple) and v.elts:
        return v.elts[0]
    return v


def _yield_effects(y):
    v = y.value
    if isinstance(v, ast.Tuple) and len(v.elts) >= 2:
        return v.elts[1]
    return None


def _positive_literal(node):
    return (isinstance(node, ast.Constant) and isinstance(node.value, (int, float))
            and not isinstance(node.value, bool) and node.value > 0)


class _Fn:
    """abstract interpreter for one function body"""

    def __init__(self, relpath, qual, node, out):
        self.relpath, self.qual, self.node, self.out = relpath, qual, node, out
        self.params = [a.arg for a in node.args.args + node.args.kwonlyargs]
        self.is_gen = any(isinstance(n, (ast.Yield, ast.YieldFrom)) for n in self._own_nodes(node))
        self.reported = set()

    @staticmethod
    def _own_nodes(fn):
        """nodes of fn excluding nested function/class bodies"""
        stack = list(fn.body)
        while stack:
            n = stack.pop()
            yield n
            for ch in ast.iter_child_nodes(n):
                if isinstance(ch, (ast.FunctionDef, ast.AsyncFunctionDef, ast.ClassDef, ast.Lambda)):
                    continue
                stack.append(ch)

    # ---- expression classification --------------------------------------------------------
    def _is_now_read(self, e):
        """direct clock read: X.now / X._clock.now (not .now.to_seconds() consumers - still a read)"""
        return isinstance(e, ast.Attribute) and e.attr in NOW_ATTRS

    def _is_param_time(self, e):
        return (isinstance(e, ast.Attribute) and e.attr == "time" and isinstance(e.value, ast.Name)
                and e.value.id in self.params)

    def tag_expr(self, e, st):
        """F / S / U for a time-valued expression"""
        if (isinstance(e, ast.IfExp) and any(isinstance(n, ast.Attribute) and n.attr == "_clock" for n in ast.walk(e.test))
                and any(self._is_now_read(n) for n in ast.walk(e.body))):
            # `self._clock.now if self._clock [is not None] else <fallback>`: entities are attached to a
            # simulation (assumption listed in the spec), the fallback is dead
            return self.tag_expr(e.body, st)
        tags = set()
        for n in ast.walk(e):
            if self._is_now_read(n):
                tags.add("F")
            elif self._is_param_time(n):
                tags.add(st.get("<entry>", "F"))
            elif isinstance(n, ast.Name) and n.id in st and st[n.id] in ("F", "S"):
                tags.add(st[n.id])
        if "S" in tags:
            return "S"
        if "F" in tags:
            return "F"
        return "U"

    def _event_calls(self, e):
        """Call nodes with a `time=` keyword (Event and subclasses) and self.forward(...) calls"""
        for n in ast.walk(e):
            if isinstance(n, ast.Call):
                if any(kw.arg == "time" for kw in n.keywords):
                    yield n, next(kw.value for kw in n.keywords if kw.arg == "time")
                elif isinstance(n.func, ast.Attribute) and n.func.attr == "forward" and len(n.args) + len(n.keywords) >= 2:
                    yield n, None          # Entity.forward stamps self.now at the call

    def tag_value(self, e, st):
        """abstract value of an arbitrary right-hand side: F/S (time), EF/ES (event(s)), U"""
        ev = None
        self._expr_sites = set()
        self._expr_stale = {}       # site key -> why (stamped with a stale value / held across a suspension)
        for call, texpr in self._event_calls(e):
            t = "F" if texpr is None else self.tag_expr(texpr, st)
            # (a stale stamp only matters if it is still there at the hand-over: classified in _handover)
            klass = {"F": "clock-now(+offset)", "S": "clock-now(+offset)", "U": "other"}[t]
            if t in "FS" and texpr is not None and any(isinstance(n, (ast.Sub, ast.USub)) for n in ast.walk(texpr)):
                klass = "other"         # clock minus something: not of the shape now + offset
            key = (self.relpath, self.qual, call.lineno, call.col_offset)
            prev = self.out["sites"].get(key)
            rank = {"clock-now(+offset)": 0, "other": 1, "stale": 2}
            if prev is None or rank[klass] > rank[prev["class"]]:
                self.out["sites"][key] = {"file": self.relpath, "function": self.qual, "line": call.lineno,
                                          "generator": self.is_gen,
                                          "time": "self.forward" if texpr is None else _src(texpr), "class": klass}
            self._expr_sites.add(key)
            if t == "S":
                self._expr_stale[key] = (f"time expression `{_src(texpr)}` was read from the clock before a suspension "
                                         f"that may take time")
            tag = "ES" if t == "S" else "EF"
            ev = "ES" if "ES" in (ev, tag) else "EF"
        for n in ast.walk(e):
            if isinstance(n, ast.Name) and st.get(n.id) in ("EF", "ES"):
                ev = "ES" if "ES" in (ev, st[n.id]) else (ev or "EF")
                self._expr_sites |= set(st.get("@" + n.id, ()))
                if st[n.id] == "ES":
                    for key in st.get("@" + n.id, ()):
                        self._expr_stale.setdefault(key, f"event held in `{n.id}` was stamped before a suspension that may "
                                                         f"take time (or with a value read before it)")
        if ev:
            return ev
        return self.tag_expr(e, st)

    def _mark_stale(self, key, why, handed):
        site = self.out["sites"].get(key)
        if site is None:
            return
        site["class"] = "stale"
        site.setdefault("why", why)
        site.setdefault("handed_over_line", handed)

    # ---- statements -------------------------------------------------------------------------
    def _stale_all(self, st):
        for k, v in list(st.items()):
            if v == "F":
                st[k] = "S"
            elif v == "EF":
                st[k] = "ES"
        st["<entry>"] = "S"

    def _suspensions(self, e, st):
        """process yields inside expression/statement e in source order: hand-over then staling"""
        ys = [n for n in ast.walk(e) if isinstance(n, (ast.Yield, ast.YieldFrom))]
        ys.sort(key=lambda n: (n.lineno, n.col_offset))
        for y in ys:
            if isinstance(y, ast.Yield):
                eff = _yield_effects(y)
                if eff is not None:
                    self._handover(eff, st, y.lineno)
                d = _yield_delay(y)
                if d is None or _is_zero_literal(d):
                    continue
            self._stale_all(st)

    def _handover(self, e, st, line):
        v = self.tag_value(e, st)
        if v == "ES":
            for key, why in self._expr_stale.items():
                self._mark_stale(key, why + "; it is handed to the engine after that suspension", line)

    def _assign(self, target, val_tag, st, line):
        if isinstance(target, ast.Name):
            if val_tag in ("F", "S", "EF", "ES"):
                st[target.id] = val_tag
                if val_tag in ("EF", "ES"):
                    st["@" + target.id] = frozenset(self._expr_sites)
            else:
                st.pop(target.id, None)
                st.pop("@" + target.id, None)
        elif isinstance(target, (ast.Tuple, ast.List)):
            for t in target.elts:
                self._assign(t, "U", st, line)

    def run_block(self, body, st):
        for s in body:
            st = self.run_stmt(s, st)
            if st is None:
                return None
        return st

    def _join(self, a, b):
        if a is None:
            return b
        if b is None:
            return a
        out = {}
        for k in set(a) | set(b):
            va, vb = a.get(k), b.get(k)
            if k.startswith("@"):
                out[k] = frozenset(va or ()) | frozenset(vb or ())
                continue
            if va == vb:
                out[k] = va
            elif "ES" in (va, vb):
                out[k] = "ES"
            elif "S" in (va, vb):
                out[k] = "S"
            elif va is None or vb is None:
                out[k] = va or vb          # bound on one branch only: keep (pessimistic for E*/S)
            else:
                out[k] = "ES" if (va[0] == "E" or vb[0] == "E") else "S"
        return out

    def run_stmt(self, s, st):
        if isinstance(s, (ast.FunctionDef, ast.AsyncFunctionDef, ast.ClassDef)):
            return st
        if isinstance(s, ast.Return):
            if s.value is not None:
                self._suspensions(s.value, st)
                self._handover(s.value, st, s.lineno)
            return None
        if isinstance(s, ast.Raise):
            return None
        if isinstance(s, (ast.Assign, ast.AnnAssign, ast.AugAssign)):
            val = s.value
            if val is None:
                return st
            self._suspensions(val, st)
            tag = self.tag_value(val, st)
            targets = s.targets if isinstance(s, ast.Assign) else [s.target]
            if isinstance(s, ast.AugAssign):
                if isinstance(s.target, ast.Name) and tag in ("EF", "ES"):
                    cur = st.get(s.target.id)
                    st[s.target.id] = "ES" if "ES" in (cur, tag) else "EF"
                    st["@" + s.target.id] = frozenset(st.get("@" + s.target.id, ())) | frozenset(self._expr_sites)
                return st
            for t in targets:
                self._assign(t, tag, st, s.lineno)
            return st
        if isinstance(s, ast.Expr):
            self._suspensions(s.value, st)
            v = s.value
            # lst.append(ev) / lst.extend(evs) / lst.insert(i, ev)
            if (isinstance(v, ast.Call) and isinstance(v.func, ast.Attribute) and v.func.attr in ("append", "extend", "insert")
                    and isinstance(v.func.value, ast.Name) and v.args):
                tag = self.tag_value(v.args[-1], st)
                if tag in ("EF", "ES"):
                    nm = v.func.value.id
                    cur = st.get(nm)
                    st[nm] = "ES" if "ES" in (cur, tag) else "EF"
                    st["@" + nm] = frozenset(st.get("@" + nm, ())) | frozenset(self._expr_sites)
            elif not isinstance(v, (ast.Yield, ast.YieldFrom)):
                self._handover(v, st, s.lineno)     # event passed to some call: treated as handed over there
            return st
        if isinstance(s, ast.If):
            self._suspensions(s.test, st)
            t = s.test
            if isinstance(t, ast.Compare) and len(t.ops) == 1 and isinstance(t.ops[0], ast.IsNot) \
                    and isinstance(t.comparators[0], ast.Constant) and t.comparators[0].value is None:
                t = t.left
            if isinstance(t, ast.Attribute) and t.attr == "_clock":
                # `if self._clock [is not None]:` - entities are attached (assumption): the else branch is dead
                return self.run_block(s.body, st)
            a = self.run_block(s.body, dict(st))
            b = self.run_block(s.orelse, dict(st))
            return self._join(a, b) if (a is not None or b is not None) else None
        if isinstance(s, (ast.While, ast.For, ast.AsyncFor)):
            self._loop_census(s)
            cur = dict(st)
            exit_states = [dict(st)] if not (isinstance(s, ast.While) and isinstance(s.test, ast.Constant) and s.test.value is True) else []
            for _ in range(2):
                if isinstance(s, ast.While):
                    self._suspensions(s.test, cur)
                else:
                    self._assign(s.target, "U", cur, s.lineno)
                saved_breaks = getattr(self, "_breaks", [])
                self._breaks = []
                after = self.run_block(s.body, dict(cur))
                exit_states.extend(self._breaks)
                self._breaks = saved_breaks
                if after is None:
                    break
                exit_states.append(after)
                cur = self._join(cur, after)
            out = None
            for e in exit_states:
                out = self._join(out, e)
            if out is not None and self._restamps(s, out):
                out[s.iter.id] = "EF"       # every event of the list was re-stamped (or clamped) to the clock now
            if s.orelse and out is not None:
                out = self.run_block(s.orelse, out)
            return out
        if isinstance(s, ast.Break):
            getattr(self, "_breaks", []).append(dict(st))
            return None
        if isinstance(s, ast.Continue):
            return None
        if isinstance(s, (ast.With, ast.AsyncWith)):
            return self.run_block(s.body, st)
        if isinstance(s, ast.Try):
            a = self.run_block(s.body, dict(st))
            outs = [a]
            for h in s.handlers:
                outs.append(self.run_block(h.body, dict(st)))
            out = None
            for o in outs:
                out = self._join(out, o)
            if out is not None and s.orelse:
                out = self.run_block(s.orelse, out)
            if s.finalbody:
                out = self.run_block(s.finalbody, out if out is not None else dict(st))
            return out
        if isinstance(s, ast.Match):
            out = None
            for c in s.cases:
                out = self._join(out, self.run_block(c.body, dict(st)))
            return out
        # anything else (pass, assert, del, global, import ...): look for suspensions / constructions
        for ch in ast.iter_child_nodes(s):
            if isinstance(ch, ast.expr):
                self._suspensions(ch, st)
        return st

    def _restamps(self, loop, st):
        """`for ev in events: ev.time = <now>`  or  `for ev in events: if ev.time < <now>: ev.time = <now>`
        (no suspension in the body): afterwards no event of `events` is stamped before the clock now"""
        if not (isinstance(loop, ast.For) and isinstance(loop.iter, ast.Name) and isinstance(loop.target, ast.Name)):
            return False
        x = loop.target.id

        def is_x_time(e):
            return isinstance(e, ast.Attribute) and e.attr == "time" and isinstance(e.value, ast.Name) and e.value.id == x

        def stamp(a):
            return (isinstance(a, ast.Assign) and len(a.targets) == 1 and is_x_time(a.targets[0])
                    and self.tag_expr(a.value, st) == "F")
        if not loop.body:
            return False
        for b in loop.body:
            if stamp(b):
                continue
            if (isinstance(b, ast.If) and not b.orelse and len(b.body) == 1 and stamp(b.body[0])
                    and isinstance(b.test, ast.Compare) and len(b.test.ops) == 1 and isinstance(b.test.ops[0], ast.Lt)
                    and is_x_time(b.test.left) and self.tag_expr(b.test.comparators[0], st) == "F"
                    and _src(b.test.comparators[0]) == _src(b.body[0].value)):
                continue
            return False
        return True

    # ---- loops with a yield: progress census ------------------------------------------------
    def _loop_ordinal(self, loop):
        """pre-order number of the loop among the loops of this function (nested functions excluded):
        the numbering pyvc/loader.py uses for loop contracts"""
        if not hasattr(self, "_loop_numbers"):
            self._loop_numbers = {}

            def walk(n):
                for ch in ast.iter_child_nodes(n):
                    if isinstance(ch, (ast.FunctionDef, ast.AsyncFunctionDef, ast.ClassDef, ast.Lambda)):
                        continue
                    if isinstance(ch, (ast.While, ast.For)):
                        self._loop_numbers[id(ch)] = len(self._loop_numbers) + 1
                    walk(ch)
            walk(self.node)
        return self._loop_numbers.get(id(loop))

    def _loop_census(self, loop):
        if getattr(loop, "_c07_seen", False):
            return
        loop._c07_seen = True
        body_nodes = []
        stack = list(loop.body)
        while stack:
            n = stack.pop()
            body_nodes.append(n)
            for ch in ast.iter_child_nodes(n):
                if isinstance(ch, (ast.FunctionDef, ast.AsyncFunctionDef, ast.ClassDef, ast.Lambda)):
                    continue
                stack.append(ch)
        ys = [n for n in body_nodes if isinstance(n, (ast.Yield, ast.YieldFrom))]
        if not ys:
            return
        rec = {"file": self.relpath, "function": self.qual, "line": loop.lineno,
               "kind": "while" if isinstance(loop, ast.While) else "for",
               "head": _src(loop.test) if isinstance(loop, ast.While) else f"{_src(loop.target)} in {_src(loop.iter)}",
               "ordinal": self._loop_ordinal(loop), "yields": sorted({_src(y) for y in ys})}
        if not isinstance(loop, ast.While):
            rec["certificate"] = "bounded: iteration over a finite collection"
            rec["cert_kind"] = "bounded"
            self.out["loops"].append(rec)
            return
        delays = [(_yield_delay(y) if isinstance(y, ast.Yield) else None) for y in ys]
        all_zero = all(isinstance(y, ast.Yield) and d is not None and _is_zero_literal(d) for y, d in zip(ys, delays))
        all_pos = all(isinstance(y, ast.Yield) and d is not None and _positive_literal(d) for y, d in zip(ys, delays))
        # exit conditions: the loop test and the tests of `if`s whose branch leaves the loop
        exit_tests = [loop.test]
        exit_branch_nodes = set()
        for n in body_nodes:
            if isinstance(n, ast.If):
                for branch in (n.body, n.orelse):
                    sub = [x for st_ in branch for x in ast.walk(st_)]
                    if any(isinstance(x, (ast.Break, ast.Return, ast.Raise)) for x in sub):
                        exit_tests.append(n.test)
                        exit_branch_nodes.update(id(x) for x in sub)
        test_reads = {_src(n) for t in exit_tests for n in ast.walk(t)
                      if isinstance(n, (ast.Name, ast.Attribute, ast.Subscript))}
        writes = set()
        for n in body_nodes:
            if id(n) in exit_branch_nodes:
                continue            # executed only on the way out of the loop
            tg = []
            if isinstance(n, ast.Assign):
                tg = n.targets
            elif isinstance(n, (ast.AugAssign, ast.AnnAssign)):
                tg = [n.target]
            for t in tg:
                for x in ast.walk(t):
                    if isinstance(x, (ast.Name, ast.Attribute, ast.Subscript)):
                        writes.add(_src(x))
            if isinstance(n, ast.Call) and isinstance(n.func, ast.Attribute):
                writes.add(_src(n.func.value))          # method call on an object may mutate it
        body_changes_test = bool(test_reads & writes)
        if all_zero and not body_changes_test:
            rec["certificate"] = None
            rec["why"] = ("every suspension in the body is `yield 0.0` (the clock does not advance) and the body writes nothing "
                          "the loop test reads: only another process can end the loop")
            rec["cert_kind"] = "none"
        elif all_pos:
            rec["certificate"] = "every iteration suspends for a positive literal delay"
            rec["cert_kind"] = "positive-literal"
        elif all_zero:
            rec["certificate"] = "body changes the loop test / leaves the loop (decreasing measure needs a contract)"
            rec["cert_kind"] = "needs-contract"
        else:
            rec["certificate"] = "suspends on a future / computed delay (positivity needs a contract)"
            rec["cert_kind"] = "needs-contract"
        self.out["loops"].append(rec)


def scan(repo_root):
    """returns {"stale": [...], "spin": [...], "loops": [...], "census": {...}}"""
    base = os.path.join(repo_root, "happysimulator", "components")
    out = {"sites": {}, "loops": []}
    nfiles = nfuncs = ngens = 0
    for dirpath, _dirs, files in sorted(os.walk(base)):
        for f in sorted(files):
            if not f.endswith(".py"):
                continue
            p = os.path.join(dirpath, f)
            rel = os.path.relpath(p, os.path.join(repo_root, "happysimulator"))
            try:
                tree = ast.parse(open(p, encoding="utf-8").read())
            except SyntaxError:
                continue
            nfiles += 1

            def visit(node, stack):
                nonlocal nfuncs, ngens
                for ch in ast.iter_child_nodes(node):
                    if isinstance(ch, ast.ClassDef):
                        visit(ch, stack + [ch.name])
                    elif isinstance(ch, (ast.FunctionDef, ast.AsyncFunctionDef)):
                        q = ".".join(stack + [ch.name])
                        nfuncs += 1
                        fi = _Fn(rel, q, ch, out)
                        ngens += fi.is_gen
                        fi.run_block(ch.body, {"<entry>": "F"})
                        visit(ch, stack + [ch.name, "<locals>"])
                    else:
                        visit(ch, stack)
            visit(tree, [])
    # ordinal of a construction site within its function (stable under unrelated edits elsewhere in the file)
    sites = [out["sites"][k] | {"_col": k[3]} for k in sorted(out["sites"])]
    per_fn = {}
    for c in sites:
        k = (c["file"], c["function"])
        per_fn[k] = per_fn.get(k, 0) + 1
        c["ordinal"] = per_fn[k]
        c.pop("_col")
    by_class = {}
    for c in sites:
        by_class[c["class"]] = by_class.get(c["class"], 0) + 1
    out["sites"] = sites
    out["stale"] = [c for c in sites if c["class"] == "stale"]
    out["census"] = {"files": nfiles, "functions": nfuncs, "generators": ngens,
                     "event_construction_sites": len(sites), "by_time_expression_class": by_class,
                     "sites_in_generators": sum(1 for c in sites if c["generator"]),
                     "loops_with_a_suspension": len(out["loops"])}
    out["spin"] = [r for r in out["loops"] if r.get("certificate") is None]
    return out


if __name__ == "__main__":
    import json
    import sys
    r = scan(sys.argv[1] if len(sys.argv) > 1 else "/repo")
    json.dump(r, sys.stdout, indent=1)

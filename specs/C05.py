"""C05 - partitioned parallel execution is equivalent to sequential execution.

The conservative-synchronisation argument as contracts (DESIGN 3-C05):
 1. window execution: Simulation._execute_until(end, strict=True) / _run_window deliver no event
    with a timestamp beyond the window end and never move the partition clock past it;
 2. window arithmetic: window_end - window_start == trunc(window_size * 1e9) ns (integer-ns
    arithmetic through Instant.__add__, proved in C01) and <= min link latency in ns (lemma), so an
    event sent at s >= window_start with delay >= L arrives at >= window_end >= every partition clock;
 3. PartitionLink: min_latency > 0, 0 <= loss < 1 or the constructor raises;
 4. the event router (routing.py): local events handed back, linked events appended to the outbox once, in
    order, with the sender's clock; anything else raises;
 5. the barrier exchange (coordinator._exchange_events): every outbox entry scheduled exactly once into the
    partition owning its target, not earlier than send + trunc(min_latency*1e9) ns (hence not before the window
    end, not in the destination's past), or lost on the declared link, or the call raises; outboxes empty after;
 6. validation (validation.py): bounded native stand-in only;
 7. the window loop of WindowedCoordinator.run (sequential pool shim, two partitions): windows tile the time
    axis, every partition runs each window, one exchange at its end, no clock ahead of the barrier, the loop
    stops only at end_time or when no partition has ANY pending event;
 plus the per-partition loop contract of C01 (no loss, no duplication, key order) unchanged for the window loop.
Bounded native stand-ins: float window arithmetic, parallel-vs-sequential differential, validation, link override.
Thread interleavings of the worker pool are not explored (frame-disjointness argument, DESIGN 4).
Finding: PartitionLink.latency override calls LatencyDistribution.sample(), which does not exist
(triage/c05_link_latency.py, fixes/C05_link_latency_override.diff); clauses about overrides are active only on a
tree that contains the repair (LATENCY_OVERRIDE_REPAIRED).
"""
from pyvc.spec import *
from pyvc import spec as _spec_mod

# ---- loop contracts of happysimulator/parallel/* (before the first repo import; the clause bodies are defined in
# sections 4-7 below and resolved when a clause is evaluated)
F_ROUTE = "happysimulator/parallel/routing.py"
F_COORD = "happysimulator/parallel/coordinator.py"
F_VALID = "happysimulator/parallel/validation.py"

# route(): `for event in events` - the returned list and the outbox are the order-preserving filters of the
# events seen so far (no loss, no duplication, no reordering), the outbox only grows at its end
loop(F_ROUTE, "make_event_router.<locals>.route", 1, modifies=[("OutboxCell", "box")],
     types={"local": lambda: Seq(Ref(Event))},
     inv=[("returned-so-far-is-the-local-filter-in-order", lambda L: _route_inv_local(L)),
          ("outbox-so-far-is-old-outbox-plus-the-linked-filter-with-send-time", lambda L: _route_inv_out(L)),
          ("each-seen-event-went-to-exactly-one-side", lambda L: _route_inv_count(L))])

# _exchange_events(): outer loop over the outboxes (arbitrary order), inner loop over one outbox (in order)
_EXCH_MODS = [("Event", "time"), ("EventHeap", "_heap"), ("EventHeap", "_primary_event_count")]
loop(F_COORD, "WindowedCoordinator._exchange_events", 1, modifies=[("WindowedCoordinator", "_outboxes")] + _EXCH_MODS,
     inv=[("outboxes-already-exchanged-are-empty", lambda L: _exch_inv_visited_empty(L)),
          ("outboxes-not-yet-exchanged-are-untouched", lambda L: _exch_inv_unvisited_same(L)),
          ("the-set-of-outboxes-is-unchanged", lambda L: _exch_inv_same_keys(L)),
          ("finite-timestamps-stay-finite", lambda L: _exch_inv_finite(L))])
loop(F_COORD, "WindowedCoordinator._exchange_events", 2, modifies=_EXCH_MODS,
     inv=[("walks-this-sources-outbox-as-it-was-in-order", lambda L: _exch_inv_walks_outbox(L)),
          ("finite-timestamps-stay-finite", lambda L: _exch_inv_finite(L)),
          # postconditions of ONE iteration (one outbox entry)
          ("entry-scheduled-exactly-once-into-the-partition-owning-its-target-or-lost-on-the-declared-link",
           lambda L: _exch_step(L, "who")),
          ("scheduled-arrival-not-before-send-time-plus-min-latency-ns", lambda L: _exch_step(L, "latency")),
          ("scheduled-arrival-not-before-the-window-end-nor-in-the-destinations-past", lambda L: _exch_step(L, "past"))])

# run(): the window loop (thread pool replaced by a sequential shim, see section 7)
_RUN_MODS = [("Simulation", f) for f in ("_current_time", "_is_running", "_wall_start", "_events_processed",
                                         "_events_cancelled", "_last_event")] + \
            [("EventHeap", "_heap"), ("EventHeap", "_primary_event_count"), ("EventHeap", "_current_time"),
             ("Clock", "_current_time"), ("WindowedCoordinator", "_outboxes"), ("Event", "time")]
loop(F_COORD, "WindowedCoordinator.run", 1, modifies=_RUN_MODS, types={"current_time": lambda: TIME},
     inv=[("no-partition-clock-is-ahead-of-the-barrier-time", lambda L: _run_inv_clocks(L)),
          ("partitions-stay-runnable", lambda L: _run_inv_runnable(L)),
          # postconditions of ONE iteration (one window)
          ("window-ends-at-start-plus-trunc-window-size-ns-clamped-to-end-time-and-the-next-starts-there",
           lambda L: _run_step(L, "arith")),
          ("every-partition-ran-exactly-this-window-then-one-exchange-at-its-end", lambda L: _run_step(L, "calls"))])

_n0 = len(_spec_mod.TASKS)
import specs.C01 as c01  # noqa: E402
del _spec_mod.TASKS[_n0:]
from specs.C01 import *  # noqa: E402,F401,F403
from specs.C01 import G, has_G, _sim_setup, LOOP_USES, spec_lt, same_instant, is_inf, wf_instant, trunc_ns  # noqa: E402
from happysimulator.core.simulation import Simulation  # noqa: E402
from happysimulator.parallel.link import PartitionLink  # noqa: E402

PROPERTY = {
    "id": "C05",
    "level": "proof",
    "trusted": ["heapq contract (pyvc/bag.py)", "the contracts of Event.invoke / Clock.update / EventHeap.* proved in C01"],
    "assumptions": COMMON_ASSUMPTIONS + [
        "an entity's handler writes only objects of its own partition (what validate_partitions' cross-reference walk "
        "checks to depth 3): with it, any thread interleaving of one window equals the sequential composition; "
        "thread schedules themselves are not explored",
        "cross-partition delays respect the declared minimum (hypothesis of the statement)",
        "window arithmetic over reals (A-float); the float behaviour is cross-checked by the bounded stand-in "
        "`window-arithmetic-float` only",
        "id(obj) is modelled as the object's address term (injective on live objects - all CPython guarantees)",
        "router (section 4): the outbox list shared by the router closure and the coordinator is modelled as one heap "
        "field (OutboxCell.box); an event's target is an Entity or a CallbackEntity",
        "_exchange_events (section 5): the coordinator's random.Random is modelled by LinkRng.random() returning some "
        "float in [0,1) (trusted); a LatencyDistribution returns some Duration (nothing assumed about its size); "
        "preconditions taken from other parts and not re-proved there: every recorded owner of an entity is a "
        "partition of the coordinator (ParallelSimulation._run_coordinated builds both maps from the same lists - not "
        "under contract); every outbox entry targets a recorded entity (router: only linked targets; "
        "_install_routers builds the linked sets from the same entity lists - not under contract), carries a finite "
        "timestamp and a send time within the current window (router: the sender's clock; C01: clocks never decrease); "
        "every declared link is valid (section 3) and not shorter than the window (validate_partitions, bounded "
        "stand-in); on a tree without fixes/C05_link_latency_override.diff additionally: no link has a latency override",
        "run() (section 7): the worker pool is replaced by a sequential shim - one schedule, thread interleavings not "
        "explored; shape bound: exactly two partitions 'A' and 'B' with their own heap and clock; window_size > 0 "
        "(validate_partitions does not check it); the summary code after the loop is not under contract; at the call "
        "of _exchange_events inside run() the per-entry preconditions listed above are assumed, not re-established "
        "(the plumbing Simulation -> installed router -> outbox is not under contract); _run_window is used through "
        "its contract with the frame: own engine fields, own heap, own clock, the coordinator's outboxes",
        "validate_partitions / build_entity_sets: bounded native stand-in only (set comprehensions over objects, "
        "id()-keyed dicts, vars() reflection are outside the engine's reach)",
    ],
    "bounded": [],
}

# =============================================================================== 1. window execution
# the strict window loop: same delivery obligations as C01 plus "timestamp within the window"
_WIN_INVOKE = stub_of(Event, "invoke", returns=Seq(Ref(Event)), modifies="world",
                      requires=[("delivered-event-is-not-cancelled", lambda s: Not(s.self._cancelled)),
                                ("clock-equals-event-timestamp", lambda s: same_instant(G("sim")._clock._current_time, s.self.time)),
                                # (an event at Instant.Infinity carries sys.maxsize ns: inside only an unbounded window)
                                ("delivered-event-lies-within-the-window", lambda s: s.self.time.nanoseconds <= G("end_ns"))],
                      ensures=[])
_WIN_INVOKE.keeps = c01._INVOKE.keeps
c01.CONTRACTS_PEEK = fn  # (placeholder to keep linters quiet)
fn(EventHeap, "peek", label="for-window", returns=Ref(Event), modifies=[], requires=[lambda s: slen(s.self._heap) > 0], ensures=[
    ("is-a-minimum", lambda s: forall(Ref(Event), lambda x: implies(
        mk_bool(z3.Select(hcnt(s.self), x._ref) > 0), Not(mk_bool(event_key_lt(x, s.result)))))),
    ("pending", lambda s: mk_bool(z3.Select(hcnt(s.self), s.result._ref) > 0)),
    ("pure", lambda s: unchanged(s, s.self))])


from pyvc import loader as _loader_mod  # noqa: E402
_loader_mod.LOOP_SPECS[(c01.F_SIM, "Simulation._execute_until", 1)].inv.append(
    ("strict-window-keeps-the-clock-inside", lambda L: True if not (hasattr(L, "strict") and L.strict is True) else
     ((L.current_time.nanoseconds <= L.end_time_ns) | same_instant(L.current_time, L.old(L.self)._current_time))))


# the window loop neither starts/stops nor pauses the partition (ENGINE_FRAME: opaque user code does not either);
# the engine rejects the contract if the loop body writes one of the two fields
_loader_mod.LOOP_SPECS[(c01.F_SIM, "Simulation._execute_until", 1)].keeps += [("Simulation", "_is_running"), ("Simulation", "_is_paused")]


def _win_setup(s):
    r = _sim_setup(s)
    from pyvc import ctx as _c
    _c.cur().ghost_args["end_ns"] = s.end_time_ns
    return r


WIN_USES = LOOP_USES + [(EventHeap, "peek")]
fn(Simulation, "_execute_until", label="strict-window", args={"end_time_ns": Int, "strict": lambda: True},
   uses=WIN_USES, setup=_win_setup,
   requires=[lambda s: Not(s.self._event_heap._tracing_enabled), lambda s: wf_instant(s.self._current_time)],
   ensures=[("clock-not-past-the-window-unless-it-already-was", lambda s:
             (s.self._current_time.nanoseconds <= s.end_time_ns) | same_instant(s.self._current_time, s.old(s.self)._current_time)),
            ("time-never-decreases", lambda s: Not(spec_lt(s.self._current_time, s.old(s.self)._current_time))),
            # the window is run to completion: nothing stamped inside it is left behind (it would be delivered in a
            # later window with the partition clock far behind the barrier - its sends would arrive in the past)
            ("every-event-still-pending-lies-beyond-the-window-end", lambda s: _window_complete(s))])


def _window_complete(s):
    heap = s.self._event_heap
    t0 = field_term(s.old(s.self), "_current_time")
    already_past = mk_bool(z3.Or(I_DT.tag(t0) == 1, I_DT.nanoseconds(t0) > num_term(s.end_time_ns)[0]))
    return already_past | forall(Ref(Event), lambda x: implies(
        mk_bool(z3.Select(hcnt(heap), x._ref) > 0),
        mk_bool(z3.Or(I_DT.tag(field_term(x, "time")) == 1, I_DT.nanoseconds(field_term(x, "time")) > num_term(s.end_time_ns)[0]))))


# the coordinator's entry point for one window (what each worker thread runs)
from specs.C01 import _setup_counters, _teardown_counters  # noqa: E402
import happysimulator.core.simulation as _sim_mod  # noqa: E402


def _run_window_setup(s):
    _setup_counters(False)(s)
    r = _sim_setup(s)
    from pyvc import ctx as _c
    _c.cur().ghost_args["end_ns"] = s.window_end.nanoseconds
    return r


fn(Simulation, "_run_window", args={"window_end": TIME}, uses=WIN_USES + [(EventHeap, "set_current_time")],
   setup=_run_window_setup, teardown=_teardown_counters,
   requires=[lambda s: Not(s.self._event_heap._tracing_enabled), lambda s: wf_instant(s.self._current_time),
             lambda s: Not(s.self._is_paused)],
   # (frame used when run() replaces the call by this contract: the partition's own engine state, its heap, its
   #  clock, and - through the installed router - the coordinator's outboxes; handler effects on entities are not
   #  observed by any clause of run())
   modifies=["_current_time", "_is_running", "_wall_start", "_events_processed", "_events_cancelled", "_last_event",
             (lambda s: s.self._event_heap, "_heap"), (lambda s: s.self._event_heap, "_primary_event_count"),
             (lambda s: s.self._event_heap, "_current_time"), (lambda s: s.self._clock, "_current_time"),
             ("*", "WindowedCoordinator", "_outboxes")],
   # (written on raw terms - same meaning as same_instant / spec_lt - so that using the contract as a stub does
   #  not fork on the Instant/Infinity tag of every value read)
   ensures=[("partition-clock-not-past-the-window-end-unless-it-already-was", lambda s: mk_bool(z3.Or(
                I_DT.nanoseconds(_now_t(s)) <= num_term(s.window_end.nanoseconds)[0], _raw_eq(_now_t(s), _old_t(s))))),
            ("time-never-decreases", lambda s: mk_bool(z3.Not(_raw_lt(_now_t(s), _old_t(s))))),
            ("clock-value-is-a-well-formed-instant", lambda s: mk_bool(z3.And(
                z3.Or(I_DT.tag(_now_t(s)) == 0, I_DT.tag(_now_t(s)) == 1),
                z3.Implies(I_DT.tag(_now_t(s)) == 1, I_DT.nanoseconds(_now_t(s)) == MAXSIZE)))),
            ("partition-is-running-and-not-paused", lambda s: s.self._is_running & Not(s.self._is_paused)),
            ("every-event-still-pending-lies-beyond-the-window-end", lambda s: _window_complete(
                NS_(self=s.self, old=s.old, end_time_ns=s.window_end.nanoseconds)))])


class NS_:
    def __init__(me, **kw):     # noqa: N805  (`self` is one of the keys)
        me.__dict__.update(kw)


def _now_t(s):
    return field_term(s.self, "_current_time")


def _old_t(s):
    return field_term(s.old(s.self), "_current_time")


def _raw_eq(a, b):
    """same_instant on raw Instant terms"""
    return z3.Or(z3.And(I_DT.tag(a) == 1, I_DT.tag(b) == 1),
                 z3.And(I_DT.tag(a) == 0, I_DT.tag(b) == 0, I_DT.nanoseconds(a) == I_DT.nanoseconds(b)))


def _raw_lt(a, b):
    """spec_lt on raw Instant terms: Infinity is greater than every finite instant"""
    return z3.And(I_DT.tag(a) == 0, z3.Or(I_DT.tag(b) == 1, I_DT.nanoseconds(a) < I_DT.nanoseconds(b)))


from pyvc.sym import num_term  # noqa: E402,F811

# =============================================================================== 2. window arithmetic


def _window_lemma():
    # window_end = current + w  (Instant.__add__ on a float: ns + trunc(w*1e9), proved in C01), clamped to end.
    # With w <= L (validate_partitions) and a cross-partition event sent at s in [start, end_w] with delay >= L:
    #   arrival_ns >= s_ns + trunc(L*1e9) >= start_ns + trunc(w*1e9) >= window_end_ns
    w, L = z3.Reals("w L")
    start, send, arrive = z3.Ints("start_ns send_ns arrive_ns")

    def trunc(x):
        return z3.If(x >= 0, z3.ToInt(x), -z3.ToInt(-x))
    wns, lns = trunc(w * 1_000_000_000), trunc(L * 1_000_000_000)
    win_end = start + wns
    assume(z3.And(w > 0, L > 0, w <= L))
    oblige("trunc-monotone", wns <= lns)
    oblige("window-no-longer-than-min-latency", win_end - start <= lns)
    assume(z3.And(send >= start, arrive >= send + lns))
    oblige("arrival-not-before-window-end", arrive >= win_end)
    # hence not in the past of any partition that executed this window (clock <= window_end by clause 1)
    clock = z3.Int("dest_clock_ns")
    assume(clock <= win_end)
    oblige("arrival-not-in-the-destinations-past", arrive >= clock)


lemma("window-arithmetic-and-lookahead", _window_lemma)

# =============================================================================== 3. links
from happysimulator.distributions.latency_distribution import LatencyDistribution  # noqa: E402

cls(LatencyDistribution, fields={})
LINK = valueclass("PartitionLink", [PartitionLink], [("source_partition", Str), ("dest_partition", Str),
                                                       ("min_latency", Real), ("latency", OptRef(LatencyDistribution)),
                                                       ("packet_loss", Real)])
fn(PartitionLink, "__post_init__", self_ty=LINK, inv=False,
   ensures=[("accepted-links-have-positive-latency-and-valid-loss", lambda s: (s.self.min_latency > 0)
             & (s.self.packet_loss >= 0) & (s.self.packet_loss < 1) & (s.self.source_partition != s.self.dest_partition))],
   raises={ValueError: [("only-invalid-links", lambda s: (s.self.min_latency <= 0) | (s.self.packet_loss < 0)
                         | (s.self.packet_loss >= 1) | (s.self.source_partition == s.self.dest_partition))]})


# =============================================================================== bounded float stand-in
def _extract_window_code():
    """Mechanical extraction (every run) of the statements of WindowedCoordinator.run that compute
    `window_end` from `current_time`: the body of the `while current_time < self._end_time` loop up to
    (excluding) the first statement that touches the thread pool (`futures = {}`).  Nothing else of
    run() is executed; dropped: the pool, the barrier, the statistics."""
    import ast
    import os
    from pyvc.ctx import REPO
    path = os.path.join(REPO, "happysimulator/parallel/coordinator.py")
    tree = ast.parse(open(path).read())
    fn_ = next(n for n in ast.walk(tree) if isinstance(n, ast.FunctionDef) and n.name == "run")
    loop_ = next(n for n in ast.walk(fn_) if isinstance(n, ast.While))
    stmts = []
    for st in loop_.body:
        if isinstance(st, ast.Assign) and isinstance(st.targets[0], ast.Name) and st.targets[0].id == "futures":
            break
        stmts.append(st)
    src = "def window_end_of(self, current_time):\n" + "\n".join("    " + ln for st in stmts for ln in ast.unparse(st).splitlines()) + "\n    return window_end\n"
    return src


def _window_float(seed, tier):
    """native, floats as they are: the window end computed by the coordinator's own statements
    (extracted from the source on every run) never exceeds start_ns + trunc(w*1e9) and the window is
    never longer than trunc(L*1e9) when w == L; bound: the enumerated grid + N random pairs"""
    import random
    from types import SimpleNamespace
    from happysimulator.core.temporal import Instant
    src = _extract_window_code()
    ns_ = {"Instant": Instant}
    exec(src, ns_)
    win = ns_["window_end_of"]
    rnd = random.Random(seed)
    n = 20000 if tier == "quick" else 2_000_000
    cases, bad = 0, []
    grid_w = [0.001, 0.01, 0.1, 0.25, 0.3, 0.5, 0.6081499709991495, 1.0, 1e-6, 1e-9, 2.5e-7]
    grid_s = [0, 1, 999_999_999, 1_000_000_000, 9044410851924, 10**12 + 7, 123456789012345]
    pairs = [(s, w) for s in grid_s for w in grid_w] + [(rnd.randrange(0, 10**14), rnd.random() * rnd.choice([1e-3, 1.0, 10.0]))
                                                       for _ in range(n)]
    for s_ns, w in pairs:
        cases += 1
        me = SimpleNamespace(_window_size=w, _end_time=Instant.Infinity)
        got = win(me, Instant(s_ns)).nanoseconds
        want = s_ns + int(w * 1_000_000_000)
        if got > want:          # a longer window lets an arrival with delay == min_latency precede window_end
            bad.append({"case": "window-longer-than-trunc(w*1e9)", "start_ns": s_ns, "w": repr(w), "got": got, "want": want})
            if len(bad) > 3:
                break
    return {"evaluations": cases, "violations": bad, "extracted": src}


def _diff_models(seed, tier):
    """the coordinator itself (thread pool, barrier, exchange, termination test) is outside the verifier's reach:
    bounded differential stand-in - random partitioned models (idle gaps, multi-hop cross-partition chains, daemon
    traffic, end_time off the window grid, arrivals exactly on window boundaries) run by the real ParallelSimulation
    and by one sequential Simulation must deliver the same multiset of (time, type, token) to every entity"""
    return run_native_script("triage/c05_diff.py", 150 if tier == "quick" else 3000, seed)


def _validate_standin(seed, tier):
    """validate_partitions / build_entity_sets (set comprehensions over objects, id()-keyed dicts, vars() reflection:
    outside the verifier's reach): bounded native stand-in against an oracle written from the statement - accepted
    ==> window_size <= min link latency, no entity in two partitions, unique names, links join known partitions;
    rejected ==> ValueError and the oracle agrees; entity sets == ids of entities+sources+probes, disjoint;
    ParallelSimulation agrees and uses the validated window"""
    return run_native_script("triage/c05_validate.py", 400 if tier == "quick" else 20000, seed)


def _link_latency_standin(seed, tier):
    """a link with a latency distribution delivers at send + sample and rejects a sample below min_latency
    (finding: LatencyDistribution has no sample(); only meaningful on a tree with fixes/C05_link_latency_override.diff)"""
    if not LATENCY_OVERRIDE_REPAIRED:
        return {"evaluations": 0, "violations": [], "skipped": "unrepaired tree: see the finding C05/link-latency-override"}
    return run_native_script("triage/c05_link_latency.py")


PROPERTY["bounded"].append({"name": "partition-validation-and-entity-sets",
                            "bound": "400 (quick) / 20000 (thorough) seeded configurations: 1-3 partitions x 0-3 entities from a pool of 5, "
                                     "0-3 links on a latency grid, window None / half / equal / 1 ulp-ish above / 3x the minimum latency",
                            "fn": _validate_standin})
PROPERTY["bounded"].append({"name": "link-latency-override", "bound": "2 scenarios (override above / below min_latency); repaired tree only",
                            "fn": _link_latency_standin})
PROPERTY["bounded"].append({"name": "parallel-vs-sequential-differential",
                            "bound": "150 (quick) / 3000 (thorough) seeded random models: 2-3 partitions x 1-2 entities, 1-6 tokens of 0-6 hops",
                            "fn": _diff_models})
PROPERTY["bounded"].append({"name": "window-arithmetic-float", "bound": "77 boundary pairs + 20000 (quick) / 2000000 (thorough) random (start_ns, window) pairs",
                            "fn": _window_float})

# =============================================================================== 4. the event router
# From the statement ("no cross-partition event is lost, duplicated ..."): of the events a handler returned,
#   - those for an entity of this partition (or an anonymous callback entity) are handed back, in order;
#   - those for an entity of a linked partition go to the outbox exactly once, in order, stamped with the
#     sender's clock, and are NOT handed back;
#   - an event for any other entity makes the call raise (never silently dropped).
from pyvc.heap import CLASS_OF, class_id  # noqa: E402
from happysimulator.core.callback_entity import CallbackEntity  # noqa: E402
import happysimulator.parallel.routing as _routing_mod  # noqa: E402

cls(CallbackEntity, fields={})
# the target of an event is an Entity or an anonymous CallbackEntity (Event.once): the router tests for it
cls(Event, fields={"target": Ref(Entity, variants=[Entity, CallbackEntity])})

PAIR = Tuple(Ref(Event), TIME)            # one outbox entry: (event, send time)
OUTBOX = Seq(PAIR)
_EVSEQ = z3.SeqSort(z3.IntSort())


class OutboxCell:
    """spec-local stand-in for ONE outbox list object (the router closure and the coordinator share the list
    object; the verifier's containers have value semantics, so the shared list lives in a heap field)"""


cls(OutboxCell, fields={"box": OUTBOX})


def route_through_router(cell, partition_name, local_entity_ids, linked_entity_ids, events, current_time):
    """exactly what ParallelSimulation._install_routers builds and Simulation calls"""
    route = _routing_mod.make_event_router(partition_name, local_entity_ids, linked_entity_ids, cell.box)
    return route(events, current_time)


def _set_dom(ss):
    return ss._ty.dt.dom(ss.term)


def _target_term(et):
    from pyvc import ctx as _c
    c = _c.cur()
    owner, ty = REG.field(Event, "target")
    return z3.Select(c.heap.array((owner, "target"), ty, c.pre_state), et)


def _is_callback(t):
    ids = sorted({class_id(k) for k in REG.classes if issubclass(k, CallbackEntity)} | {class_id(CallbackEntity)})
    return z3.Or(*[CLASS_OF(t) == i for i in ids])


def _stays_local(et, local_ids):
    t = _target_term(et)
    return z3.Or(_is_callback(t), z3.Select(_set_dom(local_ids), t))


def _is_linked(et, linked_ids):
    return z3.Select(_set_dom(linked_ids), _target_term(et))


def _route_defs(ns):
    """Floc(k) / Fout(k): the sub-sequences of events[0:k] that stay local / go out (as outbox entries), in order.
    Definitional extension: two fresh functions with their recursion equations instantiated at the index used."""
    from pyvc import ctx as _c
    g = _c.cur().ghost_args
    if "route_F" not in g:
        tag = str(_c.cur().fresh("routeF", z3.IntSort()))
        g["route_F"] = (z3.Function(tag + "_loc", z3.IntSort(), _EVSEQ), z3.Function(tag + "_out", z3.IntSort(), z3.SeqSort(PAIR.sort())))
        assume(mk_bool(g["route_F"][0](0) == z3.Empty(_EVSEQ)))
        assume(mk_bool(g["route_F"][1](0) == z3.Empty(z3.SeqSort(PAIR.sort()))))
    return g["route_F"]


def _route_unfold(ns, k):
    """the recursion equations of Floc/Fout at index k (k >= 1)"""
    floc, fout = _route_defs(ns)
    kt = k.t if hasattr(k, "t") else z3.IntVal(k)
    ev = ns.events.term[kt - 1]
    loc = _stays_local(ev, ns.local_entity_ids)
    out = z3.And(z3.Not(loc), _is_linked(ev, ns.linked_entity_ids))
    entry = PAIR.dt.mk(ev, TIME.unwrap(ns.current_time))
    assume(mk_bool(z3.Implies(kt >= 1, z3.And(
        floc(kt) == z3.Concat(floc(kt - 1), z3.If(loc, z3.Unit(ev), z3.Empty(_EVSEQ))),
        fout(kt) == z3.Concat(fout(kt - 1), z3.If(out, z3.Unit(entry), z3.Empty(z3.SeqSort(PAIR.sort()))))))))
    return floc(kt), fout(kt)


def _old_box(ns):
    from pyvc import ctx as _c
    return field_term(G("cell"), "box", _c.cur().pre_state)


def _route_inv_local(L):
    loc = L.local.term if isinstance(L.local, SymList) else Seq(Ref(Event)).unwrap(L.local)   # `[]` at loop entry
    return mk_bool(loc == _route_unfold(L, L.i)[0])


def _route_inv_out(L):
    return mk_bool(field_term(G("cell"), "box") == z3.Concat(_old_box(L), _route_unfold(L, L.i)[1]))


def _loc_term(L):
    return L.local.term if isinstance(L.local, SymList) else Seq(Ref(Event)).unwrap(L.local)


def _route_inv_count(L):
    return slen(L.local) + (slen(G("cell").box) - mk_num(z3.Length(_old_box(L)))) == L.i


def _route_setup(s):
    from pyvc import ctx as _c
    _c.cur().ghost_args["cell"] = s.cell
    return []


def _route_post(s):
    n = slen(s.events)
    return _route_unfold(s, n)


def _ev_at(s, k):
    return s.events.term[k.t]


fn("specs.C05", "route_through_router", kind="function", setup=_route_setup,
   args={"cell": Ref(OutboxCell), "partition_name": Str, "local_entity_ids": Set(Int), "linked_entity_ids": Set(Int),
         "events": Seq(Ref(Event)), "current_time": TIME},
   ensures=[
       ("local-events-are-handed-back-once-in-order", lambda s: mk_bool(s.result.term == _route_post(s)[0])),
       ("linked-events-are-appended-to-the-outbox-once-in-order-with-the-senders-clock", lambda s: mk_bool(
           field_term(s.cell, "box") == z3.Concat(_old_box(s), _route_post(s)[1]))),
       ("every-event-went-to-exactly-one-side", lambda s:
           slen(s.result) + (slen(s.cell.box) - mk_num(z3.Length(_old_box(s)))) == slen(s.events)),
       # (pointwise versions - "a local event is contained in the result" etc. - were tried as quantified loop
       #  invariants: z3's sequence solver does not decide Contains/nth over Concat within 120 s; the two
       #  equalities above with the recursion equations of _route_unfold are the specification)
       ("events-are-not-touched", lambda s: forall(Ref(Event), lambda e: unchanged(s, e)))],
   raises={RuntimeError: [("only-for-an-event-that-is-neither-local-nor-linked", lambda s: exists(Int, lambda k:
           (0 <= k) & (k < slen(s.events)) & mk_bool(z3.And(z3.Not(_stays_local(_ev_at(s, k), s.local_entity_ids)),
                                                          z3.Not(_is_linked(_ev_at(s, k), s.linked_entity_ids))))))]})

# =============================================================================== 5. the barrier exchange
# From the statement: every outbox entry is scheduled exactly once into the partition that owns its target, with
# a timestamp >= send time + trunc(min_latency*1e9) ns (hence >= the window end >= every partition clock: never
# into a partition's past), or it is lost on the link (declared packet loss), or the call raises; afterwards every
# outbox is empty; entries of one outbox are handled in their order; no partition clock moves.
import os as _os  # noqa: E402
from pyvc.ctx import REPO as _REPO  # noqa: E402
from happysimulator.parallel.coordinator import WindowedCoordinator  # noqa: E402

# the link-latency override: `link.latency.sample()` does not exist on LatencyDistribution (finding, repair in
# fixes/C05_link_latency_override.diff).  On a tree without the repair the contract below is restricted to links
# without an override (requires), on a repaired tree it covers both kinds of link.
LATENCY_OVERRIDE_REPAIRED = "link.latency.get_latency(send_time)" in open(_os.path.join(_REPO, F_COORD)).read()


class LinkRng:
    """spec-local model of the coordinator's random.Random: random() returns some float in [0, 1) (trusted)"""

    def random(self):
        raise NotImplementedError


cls(LinkRng, fields={})
stub_of(LinkRng, "random", returns=Real, modifies=[], ensures=[lambda s: (s.result >= 0) & (s.result < 1)])
# a latency distribution returns SOME duration (nothing assumed about its size: the exchange must check it)
stub_of(LatencyDistribution, "get_latency", returns=DURATION, modifies=[], ensures=[])

KEY2 = Tuple(Str, Str)
SIMS = Map(Str, Ref(Simulation), ordered=True)       # a dict in insertion order (run() iterates it)
OUTBOXES = Map(Str, OUTBOX)
E2P = Map(Int, Str)
LINKMAP = Map(KEY2, LINK)
cls(WindowedCoordinator, fields={
    "_simulations": SIMS, "_links": Seq(LINK), "_outboxes": OUTBOXES, "_entity_to_partition": E2P,
    "_window_size": Real, "_start_time": TIME, "_end_time": INSTANT, "_max_workers": Int, "_rng": Ref(LinkRng),
    "_link_map": LINKMAP},
    const=["_simulations", "_links", "_entity_to_partition", "_window_size", "_start_time", "_end_time", "_link_map"])

# Simulation.schedule(one event) while the partition is running (what the exchange does): one more pending
# occurrence of exactly that event in that partition's heap, nothing else
fn(Simulation, "schedule", args={"events": Ref(Event)},
   modifies=[(lambda s: s.self._event_heap, "_heap"), (lambda s: s.self._event_heap, "_primary_event_count")],
   requires=[lambda s: s.self._is_running, lambda s: Not(s.self._event_heap._tracing_enabled)],
   ensures=[("adds-one-pending-occurrence-of-the-event", lambda s: mk_bool(
                hcnt(s.self._event_heap) == z3.Store(hcnt(s.old(s.self._event_heap)), s.events._ref,
                                                     z3.Select(hcnt(s.old(s.self._event_heap)), s.events._ref) + 1))),
            ("primary-count-follows", lambda s: s.self._event_heap._primary_event_count
                == s.old(s.self._event_heap)._primary_event_count + ite(s.events.daemon, 0, 1)),
            ("event-and-clock-untouched", lambda s: unchanged(s, s.events) & unchanged(s, s.self))])


def _m(d):
    """(dom, val) arrays of a symbolic dict"""
    return d._ty.dt.dom(d.term), d._ty.dt.val(d.term)


def _tgt_now(ev):
    return field_term(ev, "target")


def _owner_name(coord, ev):
    """name of the partition that owns the event's target (term)"""
    return z3.Select(_m(coord._entity_to_partition)[1], _tgt_now(ev))


def _exch_inv_visited_empty(L):
    dom, val = _m(L.self._outboxes)
    return forall(Str, lambda k: implies(contains(L.visited, k), mk_bool(z3.Length(z3.Select(val, k.t)) == 0)))


def _exch_inv_unvisited_same(L):
    dom, val = _m(L.self._outboxes)
    val0 = _m(L.old(L.self)._outboxes)[1]
    return forall(Str, lambda k: contains(L.visited, k) | mk_bool(z3.Select(val, k.t) == z3.Select(val0, k.t)))


def _exch_inv_same_keys(L):
    return mk_bool(_m(L.self._outboxes)[0] == _m(L.old(L.self)._outboxes)[0])


def _exch_inv_walks_outbox(L):
    val = _m(L.self._outboxes)[1]
    val0 = _m(L.old(L.self)._outboxes)[1]
    k = L.source_name.t if hasattr(L.source_name, "t") else z3.StringVal(L.source_name)
    from pyvc import ctx as _c
    _c.cur().note_term(k)                                  # instantiation terms for the per-entry preconditions
    it = L.i.t if hasattr(L.i, "t") else z3.IntVal(L.i)
    _c.cur().note_term(it)
    _c.cur().note_term(PAIR.dt.f0(L.seq.term[it]))         # the event of the entry about to be handled
    return mk_bool(z3.And(L.seq.term == z3.Select(val, k), L.seq.term == z3.Select(val0, k)))


def _exch_inv_finite(L):
    from pyvc import ctx as _c
    owner, ty = REG.field(Event, "time")
    t0 = _c.cur().heap.array((owner, "time"), ty, _c.cur().pre_state)
    return forall(Ref(Event), lambda e: implies(mk_bool(I_DT.tag(z3.Select(t0, e._ref)) == 0),
                                                mk_bool(I_DT.tag(field_term(e, "time")) == 0)))


def _calls(name):
    tr = G("trace") if has_G("trace") else []
    return [r for r in tr if r[0] == name]


def _exch_step(L, part):
    """postcondition of ONE iteration of the inner loop (one outbox entry)"""
    if L.loop_phase != "step":
        return True
    coord = L.self
    sched, rnd = _calls("Simulation.schedule"), _calls("LinkRng.random")
    ev, send = L.event, L.send_time
    # (the entry handled is the i-th of the outbox: by the for-loop; its owner is known: precondition)
    owner = _owner_name(coord, ev)
    link_t = z3.Select(_m(coord._link_map)[1], KEY2.dt.mk(Str.unwrap(L.source_name), owner))
    is_declared_link = mk_bool(z3.And(num_term(L.link.min_latency)[0] == LINK.dt.min_latency(link_t),
                                      num_term(L.link.packet_loss)[0] == LINK.dt.packet_loss(link_t)))
    if len(sched) > 1:
        return False
    if len(sched) == 1:
        a = sched[0][1]
        t_ns = I_DT.nanoseconds(field_term(ev, "time"))
        sim = a["self"]
        if part == "who":
            r = (same(a["events"], ev) & mk_bool(sim._ref == z3.Select(_m(coord._simulations)[1], owner))
                 & is_declared_link)
            if L.link.latency is None:      # "the same events at the same times": no override, no re-timing
                r = r & mk_bool(field_term(ev, "time") == field_term(ev, "time", L.head_state))
            return r & forall(Ref(Event), lambda e: same(e, ev) | mk_bool(
                field_term(e, "time") == field_term(e, "time", L.head_state)), "other")
        if part == "latency":
            return mk_bool(t_ns >= num_term(send.nanoseconds)[0] + num_term(trunc_ns(L.link.min_latency))[0])
        return mk_bool(z3.And(t_ns >= num_term(G("win_end_ns"))[0],
                              t_ns >= I_DT.nanoseconds(field_term(sim, "_current_time"))))
    # not scheduled: only the link's declared packet loss may swallow an entry
    if part != "who":
        return True
    if len(rnd) != 1:
        return False
    return is_declared_link & (L.link.packet_loss > 0) & (rnd[0][2] < L.link.packet_loss)


def _exch_setup(s):
    from pyvc import ctx as _c
    g = _c.cur().ghost_args
    ws = fresh(Int, "window_start_ns")
    g["win_start_ns"] = ws
    g["win_end_ns"] = s.window_end.nanoseconds
    return []


def _exch_requires():
    def entries(s, body):
        """for every outbox k and position j: body(entry term)"""
        # (hand-instantiated: the inner loop's invariant registers its key and index as instantiation terms;
        #  a real z3 quantifier here makes every feasibility check of the path exploration undecided)
        def at_k(k):
            dom, val = _m(s.self._outboxes)
            box = z3.Select(val, k.t)
            return forall(Int, lambda j: implies(mk_bool(z3.And(z3.Select(dom, k.t), 0 <= j.t, j.t < z3.Length(box))),
                                                 mk_bool(body(box[j.t]))), "rq_j")
        if has_G("in_run"):
            # call site inside run(): what the outboxes contain after a window is the router's doing (section 4:
            # only linked targets, stamped with the sender's clock; C01: clocks never decrease); the plumbing
            # Simulation -> installed router -> outbox list is not under contract, so run() does not re-establish
            # the per-entry preconditions (listed in PROPERTY["assumptions"])
            return True
        return forall(Str, at_k, "rq_k")
    rq = [
        # construction (ParallelSimulation._run_coordinated): every owner recorded for an entity is a partition
        ("owners-are-partitions", lambda s: forall(Int, lambda t: implies(
            mk_bool(z3.Select(_m(s.self._entity_to_partition)[0], t.t)),
            mk_bool(z3.Select(_m(s.self._simulations)[0], z3.Select(_m(s.self._entity_to_partition)[1], t.t)))))),
        # every partition has run this window (Simulation._run_window): running, clock not past the window end
        ("partitions-ran-the-window", lambda s: forall(Str, lambda n: implies(
            mk_bool(z3.Select(_m(s.self._simulations)[0], n.t)),
            _sim_at(s, n)._is_running & Not(_sim_at(s, n)._event_heap._tracing_enabled)
            & mk_bool(z3.And(True,                                                               # (raw terms: no forks)
                             I_DT.nanoseconds(field_term(_sim_at(s, n), "_current_time"))
                             <= num_term(s.window_end.nanoseconds)[0]))))),
        # the router only puts events for entities of linked partitions into an outbox (section 4) and the
        # coordinator's entity map is built from the same entity lists
        ("outbox-targets-are-known-entities", lambda s: entries(s, lambda ent: z3.Select(
            _m(s.self._entity_to_partition)[0], _target_term(PAIR.dt.f0(ent))))),
        # event timestamps are finite instants (COMMON assumption)
        ("outbox-events-have-finite-timestamps", lambda s: entries(s, lambda ent: I_DT.tag(z3.Select(
            _ctx_heap_array("Event", "time"), PAIR.dt.f0(ent))) == 0)),
        # send times are partition clocks of this window (router) and clocks never decrease (C01)
        ("sent-in-this-window", lambda s: entries(s, lambda ent: TIME.dt.nanoseconds(PAIR.dt.f1(ent)) >= G("win_start_ns").t)),
        # window arithmetic (lemma of section 2; run loop of section 7)
        ("window-no-longer-than-window-size", lambda s: (G("win_start_ns") <= s.window_end.nanoseconds)
            & (s.window_end.nanoseconds - G("win_start_ns") <= trunc_ns(s.self._window_size)) & (s.self._window_size > 0)),
        # validate_partitions (section 6) + PartitionLink.__post_init__ (section 3) for every declared link
        ("links-are-valid-and-not-shorter-than-the-window", lambda s: forall(Raw(KEY2.sort()), lambda k: _link_ok(s, k))),
    ]
    return rq


def _ctx_heap_array(cname, fname):
    """the current array of a heap field (raw term)"""
    from pyvc import ctx as _c
    c = _c.cur()
    owner, ty = REG.field(REG.by_name[cname].pyclass, fname)
    return c.heap.array((owner, fname), ty)


def _sim_at(s, n):
    return ObjProxy(z3.Select(_m(s.self._simulations)[1], n.t), Simulation)


def _link_ok(s, k):
    kt = k.t if hasattr(k, "t") else k
    lt = z3.Select(_m(s.self._link_map)[1], kt)
    d = LINK.dt
    ok = z3.And(d.min_latency(lt) > 0, d.packet_loss(lt) >= 0, d.packet_loss(lt) < 1,
                num_term(s.self._window_size)[0] <= d.min_latency(lt))
    if not LATENCY_OVERRIDE_REPAIRED:
        ok = z3.And(ok, d.latency(lt) == 0)        # no latency override (see LATENCY_OVERRIDE_REPAIRED above)
    return mk_bool(ok)


from pyvc.sym import num_term  # noqa: E402

fn(WindowedCoordinator, "_exchange_events", args={"window_end": TIME}, setup=_exch_setup, returns=Int,
   uses=[(Simulation, "schedule"), (LinkRng, "random"), (LatencyDistribution, "get_latency")],
   modifies=["_outboxes", ("*", "Event", "time"), ("*", "EventHeap", "_heap"), ("*", "EventHeap", "_primary_event_count")],
   requires=_exch_requires(),
   ensures=[("every-outbox-is-empty-afterwards", lambda s: forall(Str, lambda k: implies(
                mk_bool(z3.Select(_m(s.self._outboxes)[0], k.t)),
                mk_bool(z3.Length(z3.Select(_m(s.self._outboxes)[1], k.t)) == 0)))),
            ("the-set-of-outboxes-is-unchanged", lambda s: mk_bool(
                _m(s.self._outboxes)[0] == _m(s.old(s.self)._outboxes)[0])),
            ("no-partition-clock-moves", lambda s: forall(Ref(Simulation), lambda x: unchanged(s, x, "_current_time"))
                & forall(Ref(Clock), lambda x: unchanged(s, x, "_current_time")))],
   raises={RuntimeError: [("only-for-a-missing-link-or-an-early-arrival", lambda s: True)]})

# =============================================================================== 7. the window loop of run()
# The worker pool is replaced, in this task only, by a sequential shim (submit runs the callable at once,
# as_completed returns the futures): ONE schedule; thread interleavings are not explored (frame-disjointness
# assumption).  Shape bound: exactly two partitions "A", "B" (the loop logic - window arithmetic, barrier order,
# termination test - does not depend on the number of partitions; run() iterates the dict natively).
# From the statement (conservative synchronisation): windows tile the time axis - each starts where the previous
# ended and ends at min(start + trunc(window_size*1e9) ns, end_time); in each window every partition runs exactly
# that window, then ONE exchange at the window end; no partition clock is ever ahead of the barrier time; the
# loop stops only when the barrier time has reached end_time or NO partition has any pending event (daemon
# events included).  The summary code after the loop is not under contract (the path ends at the pool's exit).
import happysimulator.parallel.coordinator as _coord_mod  # noqa: E402
from pyvc.ctx import PathEnd as _PathEnd  # noqa: E402


class _SeqFuture:
    def __init__(self, value):
        self._value = value

    def result(self):
        return self._value


class _SeqPool:
    """sequential stand-in for ThreadPoolExecutor; its __exit__ is the end of the window loop"""

    def __init__(self, max_workers=None):
        pass

    def __enter__(self):
        return self

    def submit(self, f, *a):
        return _SeqFuture(f(*a))

    def __exit__(self, et, ev, tb):
        if et is not None:
            return False
        import sys as _sys
        loc = _sys._getframe(1).f_locals            # the locals of run() where its `with` block ends
        from pyvc import ctx as _c
        c = _c.cur()
        coord, now = loc["self"], loc["current_time"]
        c.spec_mode += 1
        try:
            v = Not(spec_lt(now, coord._end_time)) | sym_and(*[slen(sm._event_heap._heap) == 0 for sm in _run_sims(coord)])
        finally:
            c.spec_mode -= 1
        c.oblige("run-loop-exit/stops-only-at-end-time-or-when-no-partition-has-any-pending-event", v, kind="post")
        if not _SAVED_POOL.get("canary_done"):
            # every path of this task ends here or at the loop cut, never at the engine's own vacuity canary
            _SAVED_POOL["canary_done"] = True
            if c.oblige("canary", False, kind="canary")["verdict"] == "PROVED":
                raise SpecError("WindowedCoordinator.run: the loop exit is unreachable under the contract (vacuous)")
        raise _PathEnd("run(): the summary code after the window loop is not under contract")


def _run_sims(coord):
    return [coord._simulations["A"], coord._simulations["B"]]


def _run_setup(s):
    from pyvc import ctx as _c
    g = _c.cur().ghost_args
    g["in_run"] = True
    g["win_end_ns"] = None
    a, b = fresh(Ref(Simulation), "simA"), fresh(Ref(Simulation), "simB")
    s.self._simulations = {"A": a, "B": b}
    _SAVED_POOL.update(pool=_coord_mod.ThreadPoolExecutor, ac=_coord_mod.as_completed)
    _coord_mod.ThreadPoolExecutor = _SeqPool
    _coord_mod.as_completed = lambda futures: list(futures)
    return [a, b]


_SAVED_POOL = {}


def _run_teardown(s):
    if "pool" in _SAVED_POOL:
        _coord_mod.ThreadPoolExecutor = _SAVED_POOL.pop("pool")
        _coord_mod.as_completed = _SAVED_POOL.pop("ac")


def _clock_ns(sm):
    return mk_num(I_DT.nanoseconds(field_term(sm, "_current_time")))


def _wf_clock(sm):
    """typing invariant of an Instant value (an _InfiniteInstant carries sys.maxsize), on raw terms"""
    t = field_term(sm, "_current_time")
    return mk_bool(z3.And(z3.Or(I_DT.tag(t) == 0, I_DT.tag(t) == 1), z3.Implies(I_DT.tag(t) == 1, I_DT.nanoseconds(t) == MAXSIZE)))


def _run_inv_clocks(L):
    from pyvc import ctx as _c
    now = L.current_time
    if L.loop_phase == "assume":
        _c.cur().ghost_args["win_start_ns"] = now.nanoseconds      # this window starts at the barrier time
    return sym_and(*[(_clock_ns(sm) <= now.nanoseconds) & _wf_clock(sm) for sm in _run_sims(L.self)])


def _run_inv_runnable(L):
    return sym_and(*[Not(sm._is_paused) & Not(sm._event_heap._tracing_enabled)
                     & mk_bool(field_term(sm, "_clock") == field_term(L.old(sm), "_clock"))
                     & mk_bool(field_term(sm, "_event_heap") == field_term(L.old(sm), "_event_heap"))
                     for sm in _run_sims(L.self)])


def _run_step(L, part):
    if L.loop_phase != "step":
        return True
    coord = L.self
    start, end = L.head.current_time, L.current_time            # barrier time before / after this iteration
    if part == "arith":
        w_ns = trunc_ns(coord._window_size)
        horizon = coord._end_time
        if is_inf(horizon):
            return end.nanoseconds == start.nanoseconds + w_ns
        return end.nanoseconds == ite(start.nanoseconds + w_ns <= horizon.nanoseconds,
                                      start.nanoseconds + w_ns, horizon.nanoseconds)
    tr = G("trace") if has_G("trace") else []
    calls = [r for r in tr if r[0] in ("Simulation._run_window", "WindowedCoordinator._exchange_events")]
    if [r[0] for r in calls] != ["Simulation._run_window", "Simulation._run_window", "WindowedCoordinator._exchange_events"]:
        return False
    a, b = _run_sims(coord)
    w1, w2, ex = calls
    both = (same(w1[1]["self"], a) & same(w2[1]["self"], b)) | (same(w1[1]["self"], b) & same(w2[1]["self"], a))
    same_end = sym_and(*[r[1]["window_end"].nanoseconds == end.nanoseconds for r in calls])
    return both & same_end & same(ex[1]["self"], coord)


def _run_requires():
    def sims_distinct(s):
        a, b = _run_sims(s.self)
        return (Not(same(a, b)) & Not(same(a._event_heap, b._event_heap)) & Not(same(a._clock, b._clock)))
    return [
        ("two-partitions-with-their-own-heap-and-clock", sims_distinct),
        # Simulation.__init__: every partition starts at start_time; not paused, tracing off
        ("partitions-start-at-start-time", lambda s: sym_and(*[
            _wf_clock(sm) & (_clock_ns(sm) <= s.self._start_time.nanoseconds)
            & Not(sm._is_paused) & Not(sm._event_heap._tracing_enabled) for sm in _run_sims(s.self)])),
        ("window-size-positive", lambda s: s.self._window_size > 0),
        ("end-time-well-formed", lambda s: wf_instant(s.self._end_time)),
        ("owners-are-partitions", lambda s: forall(Int, lambda t: implies(
            mk_bool(z3.Select(_m(s.self._entity_to_partition)[0], t.t)),
            mk_bool(z3.Select(_m(s.self._simulations)[0], z3.Select(_m(s.self._entity_to_partition)[1], t.t)))))),
        ("links-are-valid-and-not-shorter-than-the-window", lambda s: forall(Raw(KEY2.sort()), lambda k: _link_ok(s, k))),
    ]


fn(WindowedCoordinator, "run", label="window-loop-two-partitions", setup=_run_setup, teardown=_run_teardown,
   uses=[(Simulation, "_run_window"), (WindowedCoordinator, "_exchange_events"), (EventHeap, "has_events")],
   requires=_run_requires(), ensures=[])

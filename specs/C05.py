"""C05 - partitioned parallel execution is equivalent to sequential execution.

The conservative-synchronisation argument as contracts (DESIGN 3-C05):
 1. window execution: Simulation._execute_until(end, strict=True) / _run_window deliver no event
    with a timestamp beyond the window end and never move the partition clock past it;
 2. window arithmetic: window_end - window_start == trunc(window_size * 1e9) ns (integer-ns
    arithmetic through Instant.__add__, proved in C01) and <= min link latency in ns (lemma), so an
    event sent at s >= window_start with delay >= L arrives at >= window_end >= every partition clock;
 3. PartitionLink: min_latency > 0, 0 <= loss < 1 or the constructor raises;
 4. the per-partition loop contract of C01 (no loss, no duplication, key order) holds unchanged for
    the window loop.
A bounded native stand-in cross-checks the float behaviour of the window arithmetic (labelled bounded).
Thread interleavings of the worker pool are not explored (frame-disjointness argument, DESIGN 4).
"""
from pyvc.spec import *
from pyvc import spec as _spec_mod

_n0 = len(_spec_mod.TASKS)
import specs.C01 as c01  # noqa: E402
del _spec_mod.TASKS[_n0:]
from specs.C01 import *  # noqa: E402,F401,F403
from specs.C01 import G, has_G, _sim_setup, LOOP_USES, spec_lt, same_instant, is_inf, wf_instant, trunc_ns  # noqa: E402
from happysimulator.core.simulation import Simulation  # noqa: E402
from happysimulator.parallel.link import PartitionLink  # noqa: E402

PROPERTY = {
    "id": "C05",
    "level": "proof",
    "trusted": ["heapq contract (pyvc/bag.py)", "the contracts of Event.invoke / Clock.update / EventHeap.* proved in C01"],
    "assumptions": COMMON_ASSUMPTIONS + [
        "an entity's handler writes only objects of its own partition (what validate_partitions' cross-reference walk "
        "checks to depth 3): with it, any thread interleaving of one window equals the sequential composition; "
        "thread schedules themselves are not explored",
        "cross-partition delays respect the declared minimum (hypothesis of the statement)",
        "window arithmetic over reals (A-float); the float behaviour is cross-checked by the bounded stand-in "
        "`window-arithmetic-float` only",
        "WindowedCoordinator.run/_exchange_events (thread pool, id()-keyed maps) are not under contract; their "
        "ingredients are: the window clause (1), the arithmetic lemma (2), the link invariant (3)",
    ],
    "bounded": [],
}

# =============================================================================== 1. window execution
# the strict window loop: same delivery obligations as C01 plus "timestamp within the window"
_WIN_INVOKE = stub_of(Event, "invoke", returns=Seq(Ref(Event)), modifies="world",
                      requires=[("delivered-event-is-not-cancelled", lambda s: Not(s.self._cancelled)),
                                ("clock-equals-event-timestamp", lambda s: same_instant(G("sim")._clock._current_time, s.self.time)),
                                # (an event at Instant.Infinity carries sys.maxsize ns: inside only an unbounded window)
                                ("delivered-event-lies-within-the-window", lambda s: s.self.time.nanoseconds <= G("end_ns"))],
                      ensures=[])
_WIN_INVOKE.keeps = c01._INVOKE.keeps
c01.CONTRACTS_PEEK = fn  # (placeholder to keep linters quiet)
fn(EventHeap, "peek", label="for-window", returns=Ref(Event), modifies=[], requires=[lambda s: slen(s.self._heap) > 0], ensures=[
    ("is-a-minimum", lambda s: forall(Ref(Event), lambda x: implies(
        mk_bool(z3.Select(hcnt(s.self), x._ref) > 0), Not(mk_bool(event_key_lt(x, s.result)))))),
    ("pending", lambda s: mk_bool(z3.Select(hcnt(s.self), s.result._ref) > 0)),
    ("pure", lambda s: unchanged(s, s.self))])


from pyvc import loader as _loader_mod  # noqa: E402
_loader_mod.LOOP_SPECS[(c01.F_SIM, "Simulation._execute_until", 1)].inv.append(
    ("strict-window-keeps-the-clock-inside", lambda L: True if not (hasattr(L, "strict") and L.strict is True) else
     ((L.current_time.nanoseconds <= L.end_time_ns) | same_instant(L.current_time, L.old(L.self)._current_time))))


def _win_setup(s):
    r = _sim_setup(s)
    from pyvc import ctx as _c
    _c.cur().ghost_args["end_ns"] = s.end_time_ns
    return r


WIN_USES = LOOP_USES + [(EventHeap, "peek")]
fn(Simulation, "_execute_until", label="strict-window", args={"end_time_ns": Int, "strict": lambda: True},
   uses=WIN_USES, setup=_win_setup,
   requires=[lambda s: Not(s.self._event_heap._tracing_enabled), lambda s: wf_instant(s.self._current_time)],
   ensures=[("clock-not-past-the-window-unless-it-already-was", lambda s:
             (s.self._current_time.nanoseconds <= s.end_time_ns) | same_instant(s.self._current_time, s.old(s.self)._current_time)),
            ("time-never-decreases", lambda s: Not(spec_lt(s.self._current_time, s.old(s.self)._current_time)))])

# the coordinator's entry point for one window (what each worker thread runs)
from specs.C01 import _setup_counters, _teardown_counters  # noqa: E402
import happysimulator.core.simulation as _sim_mod  # noqa: E402


def _run_window_setup(s):
    _setup_counters(False)(s)
    r = _sim_setup(s)
    from pyvc import ctx as _c
    _c.cur().ghost_args["end_ns"] = s.window_end.nanoseconds
    return r


fn(Simulation, "_run_window", args={"window_end": TIME}, uses=WIN_USES + [(EventHeap, "set_current_time")],
   setup=_run_window_setup, teardown=_teardown_counters,
   requires=[lambda s: Not(s.self._event_heap._tracing_enabled), lambda s: wf_instant(s.self._current_time),
             lambda s: Not(s.self._is_paused)],
   ensures=[("partition-clock-not-past-the-window-end-unless-it-already-was", lambda s:
             (s.self._current_time.nanoseconds <= s.window_end.nanoseconds)
             | same_instant(s.self._current_time, s.old(s.self)._current_time))])

# =============================================================================== 2. window arithmetic


def _window_lemma():
    # window_end = current + w  (Instant.__add__ on a float: ns + trunc(w*1e9), proved in C01), clamped to end.
    # With w <= L (validate_partitions) and a cross-partition event sent at s in [start, end_w] with delay >= L:
    #   arrival_ns >= s_ns + trunc(L*1e9) >= start_ns + trunc(w*1e9) >= window_end_ns
    w, L = z3.Reals("w L")
    start, send, arrive = z3.Ints("start_ns send_ns arrive_ns")

    def trunc(x):
        return z3.If(x >= 0, z3.ToInt(x), -z3.ToInt(-x))
    wns, lns = trunc(w * 1_000_000_000), trunc(L * 1_000_000_000)
    win_end = start + wns
    assume(z3.And(w > 0, L > 0, w <= L))
    oblige("trunc-monotone", wns <= lns)
    oblige("window-no-longer-than-min-latency", win_end - start <= lns)
    assume(z3.And(send >= start, arrive >= send + lns))
    oblige("arrival-not-before-window-end", arrive >= win_end)
    # hence not in the past of any partition that executed this window (clock <= window_end by clause 1)
    clock = z3.Int("dest_clock_ns")
    assume(clock <= win_end)
    oblige("arrival-not-in-the-destinations-past", arrive >= clock)


lemma("window-arithmetic-and-lookahead", _window_lemma)

# =============================================================================== 3. links
LINK = valueclass("PartitionLink", [PartitionLink], [("source_partition", Str), ("dest_partition", Str),
                                                       ("min_latency", Real), ("latency", Any), ("packet_loss", Real)])
fn(PartitionLink, "__post_init__", self_ty=LINK, inv=False,
   ensures=[("accepted-links-have-positive-latency-and-valid-loss", lambda s: (s.self.min_latency > 0)
             & (s.self.packet_loss >= 0) & (s.self.packet_loss < 1) & (s.self.source_partition != s.self.dest_partition))],
   raises={ValueError: [("only-invalid-links", lambda s: (s.self.min_latency <= 0) | (s.self.packet_loss < 0)
                         | (s.self.packet_loss >= 1) | (s.self.source_partition == s.self.dest_partition))]})


# =============================================================================== bounded float stand-in
def _extract_window_code():
    """Mechanical extraction (every run) of the statements of WindowedCoordinator.run that compute
    `window_end` from `current_time`: the body of the `while current_time < self._end_time` loop up to
    (excluding) the first statement that touches the thread pool (`futures = {}`).  Nothing else of
    run() is executed; dropped: the pool, the barrier, the statistics."""
    import ast
    import os
    from pyvc.ctx import REPO
    path = os.path.join(REPO, "happysimulator/parallel/coordinator.py")
    tree = ast.parse(open(path).read())
    fn_ = next(n for n in ast.walk(tree) if isinstance(n, ast.FunctionDef) and n.name == "run")
    loop_ = next(n for n in ast.walk(fn_) if isinstance(n, ast.While))
    stmts = []
    for st in loop_.body:
        if isinstance(st, ast.Assign) and isinstance(st.targets[0], ast.Name) and st.targets[0].id == "futures":
            break
        stmts.append(st)
    src = "def window_end_of(self, current_time):\n" + "\n".join("    " + ln for st in stmts for ln in ast.unparse(st).splitlines()) + "\n    return window_end\n"
    return src


def _window_float(seed, tier):
    """native, floats as they are: the window end computed by the coordinator's own statements
    (extracted from the source on every run) never exceeds start_ns + trunc(w*1e9) and the window is
    never longer than trunc(L*1e9) when w == L; bound: the enumerated grid + N random pairs"""
    import random
    from types import SimpleNamespace
    from happysimulator.core.temporal import Instant
    src = _extract_window_code()
    ns_ = {"Instant": Instant}
    exec(src, ns_)
    win = ns_["window_end_of"]
    rnd = random.Random(seed)
    n = 20000 if tier == "quick" else 2_000_000
    cases, bad = 0, []
    grid_w = [0.001, 0.01, 0.1, 0.25, 0.3, 0.5, 0.6081499709991495, 1.0, 1e-6, 1e-9, 2.5e-7]
    grid_s = [0, 1, 999_999_999, 1_000_000_000, 9044410851924, 10**12 + 7, 123456789012345]
    pairs = [(s, w) for s in grid_s for w in grid_w] + [(rnd.randrange(0, 10**14), rnd.random() * rnd.choice([1e-3, 1.0, 10.0]))
                                                       for _ in range(n)]
    for s_ns, w in pairs:
        cases += 1
        me = SimpleNamespace(_window_size=w, _end_time=Instant.Infinity)
        got = win(me, Instant(s_ns)).nanoseconds
        want = s_ns + int(w * 1_000_000_000)
        if got > want:          # a longer window lets an arrival with delay == min_latency precede window_end
            bad.append({"case": "window-longer-than-trunc(w*1e9)", "start_ns": s_ns, "w": repr(w), "got": got, "want": want})
            if len(bad) > 3:
                break
    return {"evaluations": cases, "violations": bad, "extracted": src}


def _diff_models(seed, tier):
    """the coordinator itself (thread pool, barrier, exchange, termination test) is outside the verifier's reach:
    bounded differential stand-in - random partitioned models (idle gaps, multi-hop cross-partition chains, daemon
    traffic, end_time off the window grid, arrivals exactly on window boundaries) run by the real ParallelSimulation
    and by one sequential Simulation must deliver the same multiset of (time, type, token) to every entity"""
    return run_native_script("triage/c05_diff.py", 150 if tier == "quick" else 3000, seed)


PROPERTY["bounded"].append({"name": "parallel-vs-sequential-differential",
                            "bound": "150 (quick) / 3000 (thorough) seeded random models: 2-3 partitions x 1-2 entities, 1-6 tokens of 0-6 hops",
                            "fn": _diff_models})
PROPERTY["bounded"].append({"name": "window-arithmetic-float", "bound": "77 boundary pairs + 20000 (quick) / 2000000 (thorough) random (start_ns, window) pairs",
                            "fn": _window_float})

"""C02 extension (imported by the last line of specs/C02.py): combinators over inputs that are ALREADY resolved when the
combinator is built, and a bounded native stand-in for completion hooks attached while the process is in flight."""
from specs.C02 import *          # noqa: F401,F403
from specs.C02 import ME, FUT, _setup_drv, _teardown_pc, _any_val, all_of, any_of   # noqa: F401


def drive_all_of_pre_resolved(f1, f2, v2):
    c = all_of(f1, f2)          # f1 is resolved already, f2 pending
    before = c._resolved
    f2.resolve(v2)
    return c, before


def drive_all_of_all_pre_resolved(f1, f2):
    return all_of(f1, f2)       # both resolved already: the composite settles at registration, exactly once


def drive_all_of_nested_pre_resolved(f1, f2, f3, v3):
    inner = any_of(f1, f2)      # f1 resolved already: inner is resolved when the outer combinator is built
    c = all_of(inner, f3)
    before = c._resolved
    f3.resolve(v3)
    return c, before, inner


fn(ME.replace("C02", "c02_ext"), "drive_all_of_pre_resolved", kind="function", setup=_setup_drv(("f2",), ("f1",)), teardown=_teardown_pc,
   args={"f1": FUT, "f2": FUT, "v2": Any}, requires=[lambda s: Not(same(s.f1, s.f2))],
   ensures=[("not-before-the-pending-input", lambda s: Not(s.result[1])),
            ("all-values-in-argument-order-with-a-pre-resolved-input", lambda s: s.result[0]._resolved & mk_bool(
                Any.unwrap(s.result[0]._value) == Any.unwrap([s.old(s.f1)._value, s.v2])))])
fn(ME.replace("C02", "c02_ext"), "drive_all_of_all_pre_resolved", kind="function", setup=_setup_drv((), ("f1", "f2")), teardown=_teardown_pc,
   args={"f1": FUT, "f2": FUT}, requires=[lambda s: Not(same(s.f1, s.f2))],
   ensures=[("settles-at-registration-with-both-values", lambda s: s.result._resolved & mk_bool(
                Any.unwrap(s.result._value) == Any.unwrap([s.old(s.f1)._value, s.old(s.f2)._value])))])
fn(ME.replace("C02", "c02_ext"), "drive_all_of_nested_pre_resolved", kind="function", setup=_setup_drv(("f2", "f3"), ("f1",)), teardown=_teardown_pc,
   args={"f1": FUT, "f2": FUT, "f3": FUT, "v3": Any},
   requires=[lambda s: Not(same(s.f1, s.f2)) & Not(same(s.f1, s.f3)) & Not(same(s.f2, s.f3))],
   ensures=[("not-before-the-pending-input", lambda s: Not(s.result[1])),
            ("joins-the-inner-result-and-the-late-value", lambda s: s.result[0]._resolved & mk_bool(
                Any.unwrap(s.result[0]._value) == Any.unwrap([s.result[2]._value, s.v3])))])

PROPERTY.setdefault("bounded", []).append(
    {"name": "hooks-attached-in-flight-fire-once",
     "bound": "native Simulation: a generator handler that waits (delay / parks on a future / both), a completion hook added to the "
              "original event before the run, during the delay, while parked, and by the generator body itself; 0-2 hooks "
              "present at start; the hook must fire exactly once, at the completion instant",
     "fn": lambda seed, tier: run_native_script("triage/c02_inflight_hooks.py")})

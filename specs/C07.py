"""C07 - no library component emits an event into the past or spins at a frozen clock.

Part 1 (generated, library wide): the time-slice scan of specs/c07_scan.py over every function of
        happysimulator/components/** turned into two obligation families
          no-past-emission : one obligation per event-construction site whose timestamp is clock-now(+offset)
          progress         : one obligation per loop that contains a suspension
        (sites / loops the scan cannot classify are listed in evidence and are not counted as proved).
Part 2 (PyVC contracts on the real code): event-emitting handlers across families with the clauses
          every emitted event carries time >= the clock at the hand-over point (the yield/return that gives
          it to the engine);  every yielded delay is >= 0;  every loop with a suspension has a progress
          certificate (the clock advances in each iteration, or a measure decreases).
See DESIGN.md section 3-C07.
"""
from pyvc.spec import *
from pyvc.ctx import REPO as _REPO

F_MQ = "happysimulator/components/messaging/message_queue.py"

# ---------------------------------------------------------------------------- loop contracts / ghosts
# (declared before the repo modules are imported)
# the context value read by MessageQueue.handle_event is typed (A-typing for Event.context): an arbitrary str or None
ghost(F_MQ, "MessageQueue.handle_event", "message_id = event.context.get('message_id')",
      "message_id = _c07_opt_str('message_id')")


# ---- progress certificates of loops that contain a suspension ------------------------------------------------------
# measure: time left to the run's horizon (ghost Clock.g_horizon >= clock, constant during a run).  It decreases in
# an iteration exactly when the clock advances by at least 1 ns between the loop head and the back edge.


def _time_to_horizon(L):
    # + the number of wake-ups by other processes still to come in this run (ghost Clock.g_wakeups_left): a process
    # parked on a future takes no delivery until another process resolves it, which uses one of them up
    return (L.self._clock.g_horizon - now_ns(L.self)) + L.self._clock.g_wakeups_left


def _below_horizon(L):
    return (now_ns(L.self) <= L.self._clock.g_horizon) & (L.self._clock.g_wakeups_left >= 0)


# frame of the environment between loop head and back edge: fields no process writes after construction
WORLD_KEEPS = [("Entity", "_clock"), ("Entity", "name"), ("Clock", "g_horizon"), ("Condition", "_lock")]


def _wait_loop(relpath, qual, flag, ordinal=1, keeps=()):
    """`while not flag[0]: yield ...` - flag is a one-cell list set by a callback another process calls"""
    return loop(relpath, qual, ordinal, modifies="world", keeps=WORLD_KEEPS + list(keeps), types={flag: lambda: Seq(Bool)},
                inv=[("flag-is-a-one-cell-list", lambda L: slen(getattr(L, flag)) == 1),
                     ("clock-below-horizon", _below_horizon)],
                decreases=_time_to_horizon)


F_SYNC = "happysimulator/components/sync/"
_wait_loop(F_SYNC + "mutex.py", "Mutex.acquire", "acquired")
_wait_loop(F_SYNC + "semaphore.py", "Semaphore.acquire", "acquired")
_wait_loop(F_SYNC + "rwlock.py", "RWLock.acquire_read", "acquired")
_wait_loop(F_SYNC + "rwlock.py", "RWLock.acquire_write", "acquired")
_wait_loop(F_SYNC + "barrier.py", "Barrier.wait", "released")
_wait_loop(F_SYNC + "condition.py", "Condition.wait", "woken", keeps=[("Condition", "_lock")])

# ---- Topic.publish / OutboxRelay._handle_poll: a batch loop that suspends per item, then hands the whole batch over ----
from pyvc.comp import declare_filter  # noqa: E402

F_TOPIC = "happysimulator/components/messaging/topic.py"
F_OUTBOX = "happysimulator/components/microservice/outbox_relay.py"
declare_filter(F_TOPIC, "Topic.publish", 1)             # [sub for sub in self._subscriptions.values() if sub.active]
declare_filter(F_OUTBOX, "OutboxRelay._handle_poll", 1)  # [e for e in self._entries if not e.relayed]


def _restamped_so_far(var):
    """loop invariant of the re-stamping loop of the repairs (`for ev in events: ev.time = emit_time`):
    every event visited so far carries emit_time"""
    def inv(L):
        t = ns(L.emit_time)
        return forall(Int, lambda j: implies((0 <= j) & (j < L.i), mk_bool(
            z3.Select(_time_ns_array(), seq_term(L.seq)[j.t]) == num(t))), "j")
    return inv


def _remaining_items(L):
    return slen(L.seq) - L.i


loop(F_TOPIC, "Topic.publish", 1, modifies="world", keeps=WORLD_KEEPS + [("Topic", "_delivery_latency")],
     types={"delivery_events": lambda: Seq(Ref(Event)), "delivery_event": lambda: Ref(Event)},
     inv=[("configured-latency-nonneg", lambda L: L.self._delivery_latency >= 0), ("clock-below-horizon", _below_horizon)],
     decreases=_remaining_items)
# (only on the repaired tree) the hand-over loop: for delivery_event in delivery_events: delivery_event.time = emit_time
loop(F_TOPIC, "Topic.publish", 2, modifies=[("Event", "time")], types={"delivery_event": lambda: Ref(Event)},
     inv=[("restamped-so-far", _restamped_so_far("delivery_event")),
          ("emit-time-is-now", lambda L: ns(L.emit_time) == now_ns(L.self))], decreases=_remaining_items)

loop(F_OUTBOX, "OutboxRelay._handle_poll", 1, modifies="world",
     keeps=WORLD_KEEPS + [("OutboxRelay", "_relay_latency"), ("OutboxRelay", "_downstream"), ("OutboxRelay", "_poll_interval"),
                          ("OutboxRelay", "_batch_size")],
     types={"relay_events": lambda: Seq(Ref(Event)), "lag": lambda: Real},
     inv=[("configured-latency-nonneg", lambda L: L.self._relay_latency >= 0), ("clock-below-horizon", _below_horizon)],
     decreases=_remaining_items)
loop(F_OUTBOX, "OutboxRelay._handle_poll", 2, modifies=[("Event", "time")], types={"relay_event": lambda: Ref(Event)},
     inv=[("restamped-so-far", _restamped_so_far("relay_event")),
          ("emit-time-is-now", lambda L: ns(L.emit_time) == now_ns(L.self))], decreases=_remaining_items)

# ---- ConnectionPool._handle_warmup: creates the minimum connections one by one (each takes the connect latency) --------
F_POOL = "happysimulator/components/client/connection_pool.py"
loop(F_POOL, "ConnectionPool._handle_warmup", 1, modifies="world",
     keeps=WORLD_KEEPS + [("ConnectionPool", f) for f in ("_target", "_min_connections", "_max_connections",
                                                          "_connection_timeout", "_idle_timeout", "_connection_latency")],
     types={"events": lambda: Seq(Ref(Event)), "connection": lambda: Ref(_K["Connection"]), "timeout_event": lambda: Ref(Event)},
     inv=[("idle-timeout-positive", lambda L: L.self._idle_timeout > 0)])
# (only on the repaired tree) for timeout_event in events: if timeout_event.time < emit_time: timeout_event.time = emit_time
loop(F_POOL, "ConnectionPool._handle_warmup", 2, modifies=[("Event", "time")], types={"timeout_event": lambda: Ref(Event)},
     inv=[("clamped-so-far", lambda L: forall(Int, lambda j: implies((0 <= j) & (j < L.i), mk_bool(
              z3.Select(_time_ns_array(), seq_term(L.seq)[j.t]) >= num(ns(L.emit_time)))), "j")),
          ("emit-time-is-now", lambda L: ns(L.emit_time) == now_ns(L.self))], decreases=_remaining_items)
_K = {}

from specs.common import *  # noqa: E402,F401
from specs.c07_scan import scan as _scan  # noqa: E402
from pyvc.sym import num_term  # noqa: E402

import happysimulator.components.messaging.message_queue as _mq_mod  # noqa: E402
from happysimulator.components.messaging.message_queue import MessageQueue, Message  # noqa: E402
from happysimulator.components.messaging.dlq import DeadLetterQueue  # noqa: E402

PROPERTY = {
    "id": "C07",
    "level": "proof",
    "task_timeout": 900,       # refuting an obligation under quantified facts (unrepaired tree) runs into solver timeouts
    "trusted": ["heap typing of the fields declared in specs/C07.py and specs/common.py",
                "specs/c07_scan.py: the AST abstract interpretation that classifies construction sites and loops "
                "(its verdicts are turned into SMT obligations by the lemmas scan.*; the classification itself is trusted)"],
    "assumptions": COMMON_ASSUMPTIONS + [
        "clock rely at a suspension: a process that yields the delay d is resumed with the clock at exactly "
        "clock_at_yield + trunc(d * 1e9) ns (contract of ProcessContinuation.invoke, proved in C02, plus 'the clock equals "
        "the timestamp of the delivered event', proved in C01); a process parked on a future is resumed no earlier",
        "hand-over point: events returned by a handler / generator or yielded as side effects `(delay, events)` are pushed "
        "by the engine at that instant (C01/C02); an event is 'in the past' iff its time is below the clock then",
        "durations added to the clock at construction sites of class clock-now(+offset) are non-negative "
        "(configured latencies / intervals / timeouts; validated by the constructors where they validate, else configuration)",
        "MessageQueue.delivery_latency >= 0 (the constructor does not validate it) - configuration assumption",
        "event context entries have the type their handler expects (A-typing for Event.context): 'message_id' is a str or "
        "absent; the typed value is re-bound by a ghost statement right after the context read",
    ],
}


def _opt_str(name):
    """a context value typed `str | None` (arbitrary)"""
    return Opt(Str).fresh(name)


_mq_mod._c07_opt_str = _opt_str


# Constructors of entities are verified "as attached": Entity.__init__ leaves `_clock = None` until the simulation
# injects the clock, while specs/common.py types `_clock` as a present Clock (COMMON_ASSUMPTIONS).  The setup
# replaces Entity.__init__ by its first statement only.
_ENTITY_INIT = [Entity.__init__]


def _attached(s):
    def _init(self, name):
        self.name = name
    Entity.__init__ = _init
    return []


def _detach(s):
    Entity.__init__ = _ENTITY_INIT[0]


# ============================================================================ shared clause helpers
def delay_of(y):
    """the delay of a yielded value: `d` or `(d, side_effect_events)`"""
    return y[0] if isinstance(y, tuple) else y


def is_delay(y):
    d = delay_of(y)
    return isinstance(d, (int, float)) or hasattr(d, "t")


def delay_ns(d):
    """trunc(d * 1e9) for a non-negative delay in seconds (what the engine adds to the clock)"""
    t, is_real = num_term(d)
    if not is_real:
        t = z3.ToReal(t)
    return mk_num(z3.ToInt(t * 1000000000))


def clock_rely(s, b, y):
    """the environment between a yield and the resumption: exactly the yielded delay elapses
    (a future: some non-negative time)"""
    now1 = ns(s.self._clock._current_time)
    now0 = ns(b.pre(s.self._clock)._current_time)
    w1, w0 = s.self._clock.g_wakeups_left, b.pre(s.self._clock).g_wakeups_left
    if is_delay(y):
        return (now1 == now0 + delay_ns(delay_of(y))) & (w1 <= w0)
    # parked on a future: resumed by a resolve() of another process (one of the finitely many of the run), not earlier
    return (now1 >= now0) & (w1 < w0)


def delay_nonneg(s, y):
    if not is_delay(y):
        return True
    return delay_of(y) >= 0


def not_in_past(s, e):
    return ns(e.time) >= now_ns(s.self)


def side_effects_not_in_past(s, y):
    """events handed over with a yield `(delay, events)`"""
    if not isinstance(y, tuple) or len(y) < 2 or y[1] is None:
        return True
    evs = y[1] if isinstance(y[1], (list, tuple)) else [y[1]]
    out = True
    for e in evs:
        out = out & not_in_past(s, e)
    return out


AT_YIELD = [("delay-nonnegative", delay_nonneg), ("side-effect-events-not-in-the-past", side_effects_not_in_past)]
STABLE_CORE = [("Entity", "_clock"), ("Entity", "name")]


def result_not_in_past(s):
    """every event of a returned list / a returned event carries time >= the clock at the return"""
    r = s.result
    if r is None:
        return True
    if isinstance(r, (list, tuple)):
        out = True
        for e in r:
            out = out & not_in_past(s, e)
        return out
    if isinstance(r, SymList):
        return forall(Int, lambda j: implies((0 <= j) & (j < slen(r)), mk_bool(
            z3.Select(_time_ns_array(), seq_term(r)[j.t]) >= num(now_ns(s.self)))), "j")
    return not_in_past(s, r)


def _time_ns_array():
    """Array(Ref -> ns) of Event.time in the current state"""
    from pyvc import ctx as _ctx
    a = _ctx.cur().heap.array(("Event", "time"), TIME)
    r = z3.Int("c07_r")
    return z3.Lambda([r], TIME.dt.nanoseconds(z3.Select(a, r)))


# ============================================================================ 1. the library-wide scan
SCAN = _scan(_REPO)


def _family(relfile):
    parts = relfile.split("/")
    return parts[1] if len(parts) > 2 else parts[1].removesuffix(".py")


def _site_name(c):
    return f'{c["file"]}::{c["function"]}#{c["ordinal"]}'


def _loop_name(c):
    return f'{c["file"]}::{c["function"]}#loop{c["ordinal"]}'


_SITES_BY_FAMILY, _LOOPS_BY_FAMILY = {}, {}
for _c in SCAN["sites"]:
    if _c["class"] == "clock-now(+offset)":
        _SITES_BY_FAMILY.setdefault(_family(_c["file"]), []).append(_c)
for _c in SCAN["loops"]:
    if _c["cert_kind"] in ("bounded", "positive-literal"):
        _LOOPS_BY_FAMILY.setdefault(_family(_c["file"]), []).append(_c)

PROPERTY["scan"] = {
    "census": SCAN["census"],
    "stale_now_sites": [{k: c[k] for k in ("file", "function", "line", "handed_over_line", "time", "why") if k in c}
                        | {"obligation": _site_name(c)} for c in SCAN["stale"]],
    "spin_loops": [{k: c[k] for k in ("file", "function", "line", "head", "yields", "why")} | {"obligation": _loop_name(c)}
                   for c in SCAN["spin"]],
    "loops_with_a_suspension": [{k: c[k] for k in ("file", "function", "line", "kind", "head", "yields", "certificate")}
                                for c in SCAN["loops"]],
    # not proved by the scan (no obligation generated): time expressions that are not clock-now(+offset) - constructor
    # pass-throughs, completion hooks stamped with the hook's finish_time, start events built before the run - and
    # loops whose delay is computed / that wait on a sub-generator
    "sites_not_classified": [f'{c["file"]}:{c["line"]} {c["function"]}: time={c["time"]}'
                             for c in SCAN["sites"] if c["class"] == "other"],
    "loops_needing_a_contract": [f'{c["file"]}:{c["line"]} {c["function"]}: while {c["head"]}: {", ".join(c["yields"])}'
                                 for c in SCAN["loops"] if c["cert_kind"] == "needs-contract"],
    "loops_needing_a_contract_covered_in_part_2": ["ConnectionPool._handle_warmup (emission clause only)"],
}


def _emission_lemma(sites):
    def body():
        for c in sites:
            stamp = fresh(Int, "clock_when_stamped")
            offset = fresh(Int, "offset_ns")            # the `+ offset` of the time expression (0 if none)
            elapsed = fresh(Int, "elapsed_until_handover_ns")
            assume((offset >= 0) & (elapsed >= 0))
            if c["class"] != "stale":
                # the scan found no suspension that may take time between the clock read and the hand-over
                assume(elapsed == 0)
            oblige(_site_name(c), stamp + offset >= stamp + elapsed)
    return body


def _progress_lemma(loops):
    def body():
        for c in loops:
            now0 = fresh(Int, "clock_at_loop_head")
            m0 = fresh(Int, "measure_at_loop_head")
            assume(m0 >= 1)
            if c["cert_kind"] == "bounded":
                # `for` over a finite collection: the number of remaining items is the measure
                now1, m1 = now0 + 0, m0 - 1
            elif c["cert_kind"] == "positive-literal":
                d = min(float(y.strip("()").split()[-1]) for y in c["yields"])
                now1, m1 = now0 + int(d * 1e9), m0
            else:
                # every suspension is `yield 0.0` and the body changes nothing the exit test reads
                now1, m1 = now0 + 0, m0
            oblige(_loop_name(c), (now1 > now0) | ((m1 < m0) & (m1 >= 0)))
    return body


for _fam in sorted(_SITES_BY_FAMILY):
    lemma(f"scan.no-past-emission[{_fam}]", _emission_lemma(_SITES_BY_FAMILY[_fam]))
for _fam in sorted(_LOOPS_BY_FAMILY):
    lemma(f"scan.progress[{_fam}]", _progress_lemma(_LOOPS_BY_FAMILY[_fam]))
# every offending site is its own task (a refuted obligation is assumed afterwards: it must not mask the next one)
def _modname(c):
    return c["file"].removeprefix("components/").removesuffix(".py").replace("/", ".")


for _c in SCAN["stale"]:
    lemma(f"scan.stale-now[{_modname(_c)}::{_c['function']}#{_c['ordinal']}]", _emission_lemma([_c]))
for _c in SCAN["spin"]:
    lemma(f"scan.spin-loop[{_modname(_c)}::{_c['function']}#loop{_c['ordinal']}]", _progress_lemma([_c]))


# ============================================================================ 2. contracts on the real handlers
# ---- messaging: MessageQueue ---------------------------------------------------------------------------------
cls(Message, fields={"id": Str, "payload": Ref(Event), "created_at": TIME, "state": Any, "delivery_count": Int,
                     "last_delivered_at": Opt(TIME), "consumer": OptRef(Entity)})
cls(DeadLetterQueue, fields={})
stub_of(DeadLetterQueue, "add_message", returns=Bool, modifies=[], ensures=[])
cls(MessageQueue, fields={
    "_delivery_latency": Real, "_redelivery_delay": Real, "_max_redeliveries": Int, "_capacity": Opt(Int),
    "_dead_letter_queue": OptRef(DeadLetterQueue),"_messages": Map(Str, Ref(Message)), "_pending_queue": Seq(Str),
    "_in_flight": Map(Str, Ref(Message)), "_consumers": Seq(Ref(Entity)), "_consumer_index": Int,
    "_redelivery_scheduled": Set(Str), "_messages_published": Int, "_messages_delivered": Int,
    "_messages_acknowledged": Int, "_messages_rejected": Int, "_messages_redelivered": Int,
    "_messages_dead_lettered": Int, "_delivery_latencies": Seq(Real)},
    const=["_delivery_latency", "_redelivery_delay", "_max_redeliveries", "_capacity"],
    inv=[("delivery-latency-nonneg", lambda o: o._delivery_latency >= 0),
         ("redelivery-delay-positive", lambda o: o._redelivery_delay > 0)])

MQ_YIELDS = dict(at_yield=AT_YIELD, rely=[clock_rely], stable=STABLE_CORE)


def _nonneg_delay(s):
    """what a stubbed generator callee yields: one suspension of arbitrary non-negative length (covers 'no suspension':
    a zero delay whose environment step changes nothing)"""
    d = Real.fresh("callee_delay")
    assume(d >= 0)
    return d


# modular: poll and handle_event use the contract of _deliver_message (proved right here) instead of inlining it
MQ_DELIVERY_WRITES = ["_pending_queue", "_in_flight", "_consumer_index", "_messages_delivered", "_messages_redelivered",
                      "_delivery_latencies"]
_DM = fn(MessageQueue, "_deliver_message", args={"message_id": Str}, yields=Yields(**MQ_YIELDS), returns=OptRef(Event),
         modifies=MQ_DELIVERY_WRITES, ensures=[("delivery-not-in-the-past", result_not_in_past)])
_DM.stub_yield = _nonneg_delay
_POLL = fn(MessageQueue, "poll", uses=[(MessageQueue, "_deliver_message")], yields=Yields(**MQ_YIELDS), returns=OptRef(Event),
           modifies=MQ_DELIVERY_WRITES, ensures=[("delivery-not-in-the-past", result_not_in_past)])
_POLL.stub_yield = _nonneg_delay
fn(MessageQueue, "publish", args={"message": Ref(Event)}, yields=Yields(**MQ_YIELDS), ensures=[],
   raises={RuntimeError: [("only-when-full", lambda s: s.self._capacity is not None)]})
fn(MessageQueue, "schedule_redelivery", args={"message_id": Str}, uses=[(DeadLetterQueue, "add_message")], ensures=[
    ("redelivery-not-in-the-past", result_not_in_past)])
fn(MessageQueue, "handle_event", args={"event": Ref(Event)}, uses=[(MessageQueue, "_deliver_message"), (MessageQueue, "poll")],
   yields=Yields(**MQ_YIELDS), ensures=[
    ("deliveries-not-in-the-past", result_not_in_past)])

# ---- rate limiter: DistributedRateLimiter.handle_event ----------------------------------------------------------
from happysimulator.components.rate_limiter.distributed import DistributedRateLimiter  # noqa: E402

PROPERTY["assumptions"] += [
    "handlers are entered with the clock equal to the timestamp of the delivered event (proved in C01): precondition "
    "`event.time == now` of the handle_event contracts",
    "DistributedRateLimiter.check_and_increment (drives the backing store's get/put generators with next()) is replaced by a "
    "stub: it suspends for a non-negative time (the store's latencies) and returns an arbitrary bool, writing only the "
    "limiter's own counters",
]

cls(DistributedRateLimiter, fields={
    "_downstream": Ref(Entity), "_backing_store": Ref(Entity), "_global_limit": Int, "_window_size": Real,
    "_key_prefix": Str, "_local_threshold": Real, "_local_window_id": Opt(Int), "_local_count": Int,
    "_last_known_global_count": Int, "_requests_received": Int, "_requests_forwarded": Int, "_requests_dropped": Int,
    "_store_reads": Int, "_store_writes": Int, "_local_rejections": Int, "_global_rejections": Int,
    "received_times": Seq(TIME), "forwarded_times": Seq(TIME), "dropped_times": Seq(TIME),
    "global_counts": Seq(Tuple(TIME, Int))},
    const=["_downstream", "_backing_store", "_global_limit", "_window_size", "_key_prefix", "_local_threshold"])


_CAI = stub_of(DistributedRateLimiter, "check_and_increment", returns=Bool,
               modifies=["_local_window_id", "_local_count", "_last_known_global_count", "_local_rejections",
                         "_global_rejections", "_store_reads", "_store_writes", "global_counts"], ensures=[])
_CAI.stub_yield = _nonneg_delay

ENTERED_AT_EVENT_TIME = ("entered-at-event-time", lambda s: ns(s.event.time) == now_ns(s.self))

fn(DistributedRateLimiter, "handle_event", args={"event": Ref(Event)}, requires=[ENTERED_AT_EVENT_TIME],
   uses=[(DistributedRateLimiter, "check_and_increment")],
   yields=Yields(at_yield=AT_YIELD, rely=[clock_rely],
                 stable=STABLE_CORE + [("DistributedRateLimiter", "_downstream"), ("Event", "time")]),
   ensures=[("forwarded-request-not-in-the-past", result_not_in_past),
            ("at-most-one-forward", lambda s: len(s.result) <= 1)])

# ---- sync: blocking acquire loops (progress certificate = loop `decreases`, see the loop contracts at the top) --------
import happysimulator.components.sync.mutex as _mutex_mod  # noqa: E402
import happysimulator.components.sync.semaphore as _sem_mod  # noqa: E402
import happysimulator.components.sync.rwlock as _rw_mod  # noqa: E402
import happysimulator.components.sync.barrier as _bar_mod  # noqa: E402
import happysimulator.components.sync.condition as _cond_mod  # noqa: E402
from happysimulator.components.sync.mutex import Mutex  # noqa: E402
from happysimulator.components.sync.semaphore import Semaphore  # noqa: E402
from happysimulator.components.sync.rwlock import RWLock  # noqa: E402
from happysimulator.components.sync.barrier import Barrier  # noqa: E402
from happysimulator.components.sync.condition import Condition  # noqa: E402

PROPERTY["assumptions"] += [
    "finite horizon: during a run the clock never exceeds a fixed instant (ghost Clock.g_horizon: the end_time, or the "
    "timestamp of the last event of a finite workload); 'time left to the horizon' is the termination measure of loops "
    "that suspend",
    "finite workload: the number of wake-ups (SimFuture.resolve by another process) still to come in a run is finite "
    "(ghost Clock.g_wakeups_left >= 0) and a process parked on a future is resumed only by such a resolve (each future "
    "resumes its process once: C02), which uses one up; the measure of a loop that suspends is time-left + wakeups-left "
    "(a loop that yields a future which is already resolved would resume at once and is not covered by this rely)",
    "wake-up callbacks stored in waiter records are only called by other processes (release / notify / barrier break)",
]

cls(Clock, ghost={"g_horizon": Int, "g_wakeups_left": Int}, const=["g_horizon"],
    inv=[("clock-below-horizon", lambda o: o._current_time.nanoseconds <= o.g_horizon),
         ("wakeups-left-nonneg", lambda o: o.g_wakeups_left >= 0)])

WAKE = Fn(None, "wake")
cls(_mutex_mod._Waiter, fields={"callback": WAKE, "enqueue_time_ns": Int})
cls(_sem_mod._Waiter, fields={"count": Int, "callback": WAKE, "enqueue_time_ns": Int})
cls(_rw_mod._Waiter, fields={"waiter_type": Any, "callback": WAKE, "enqueue_time_ns": Int})
cls(_bar_mod._BarrierWaiter, fields={"callback": WAKE, "enqueue_time_ns": Int})
cls(_cond_mod._Waiter, fields={"callback": WAKE, "enqueue_time_ns": Int})

cls(Mutex, fields={"_locked": Bool, "_waiters": Seq(Ref(_mutex_mod._Waiter)), "_owner": Opt(Str), "_acquisitions": Int,
                   "_contentions": Int, "_releases": Int, "_total_wait_time_ns": Int})
cls(Semaphore, fields={"_count": Int, "_capacity": Int, "_waiters": Seq(Ref(_sem_mod._Waiter)), "_acquisitions": Int,
                       "_releases": Int, "_contentions": Int, "_total_wait_time_ns": Int, "_peak_waiters": Int},
    const=["_capacity"])
cls(RWLock, fields={"_max_readers": Opt(Int), "_active_readers": Int, "_write_locked": Bool,
                    "_waiters": Seq(Ref(_rw_mod._Waiter)), "_read_acquisitions": Int, "_write_acquisitions": Int,
                    "_read_releases": Int, "_write_releases": Int, "_read_contentions": Int, "_write_contentions": Int,
                    "_total_read_wait_ns": Int, "_total_write_wait_ns": Int, "_peak_readers": Int}, const=["_max_readers"])
cls(Barrier, fields={"_parties": Int, "_waiters": Seq(Ref(_bar_mod._BarrierWaiter)), "_generation": Int, "_broken": Bool,
                     "_wait_calls": Int, "_barrier_breaks": Int, "_resets": Int, "_total_wait_time_ns": Int},
    const=["_parties"])
cls(Condition, fields={"_lock": Ref(Mutex), "_waiters": Seq(Ref(_cond_mod._Waiter)), "_waits": Int, "_notifies": Int,
                       "_notify_alls": Int, "_wakeups": Int, "_total_wait_time_ns": Int}, const=["_lock"],
    # Condition.set_clock hands the same clock to its mutex
    inv=[("lock-shares-the-clock", lambda o: same(o._lock._clock, o._clock))])

SYNC_YIELDS = dict(at_yield=AT_YIELD, rely=[clock_rely], stable=STABLE_CORE)
CLOCK_FOCUS = lambda s: [s.self._clock]  # noqa: E731

fn(Mutex, "acquire", args={"owner": Opt(Str)}, focus=CLOCK_FOCUS, yields=Yields(**SYNC_YIELDS), ensures=[])
fn(Semaphore, "acquire", args={"count": Int}, focus=CLOCK_FOCUS, yields=Yields(**SYNC_YIELDS), ensures=[],
   raises={ValueError: [("only-bad-count", lambda s: (s.count < 1) | (s.count > s.self._capacity))]})
fn(RWLock, "acquire_write", focus=CLOCK_FOCUS, yields=Yields(**SYNC_YIELDS), ensures=[])
# (`any(w.waiter_type == WRITER for w in self._waiters)`: a read-only scan of the queue, replaced by an arbitrary bool)
stub_of(RWLock, "_has_waiting_writer", returns=Bool, modifies=[], ensures=[])
fn(RWLock, "acquire_read", focus=CLOCK_FOCUS, uses=[(RWLock, "_has_waiting_writer")], yields=Yields(**SYNC_YIELDS), ensures=[])
# (_break_barrier pops every waiter and calls its wake-up callback - flags of other processes - then bumps the generation)
stub_of(Barrier, "_break_barrier", modifies=["_waiters", "_barrier_breaks", "_total_wait_time_ns", "_generation"], ensures=[])
fn(Barrier, "wait", focus=CLOCK_FOCUS, uses=[(Barrier, "_break_barrier")], yields=Yields(**SYNC_YIELDS), ensures=[],
   raises={RuntimeError: [("only-when-broken", lambda s: True)]})
fn(Condition, "wait", focus=CLOCK_FOCUS, yields=Yields(**SYNC_YIELDS), ensures=[],
   raises={RuntimeError: [("only-without-the-lock", lambda s: True)]})

# ---- queueing pipeline (clean sample): Queue, QueueDriver, Server -----------------------------------------------------
# (typing and the QueuePolicy interface contract as in specs/C08.py, where the conservation clauses are proved;
#  here only the time clauses)
from happysimulator.components.queue_policy import QueuePolicy  # noqa: E402
from happysimulator.components.queue import Queue, QueuePollEvent, QueueNotifyEvent, QueueDeliverEvent  # noqa: E402
from happysimulator.components.queue_driver import QueueDriver  # noqa: E402
from happysimulator.components.server.server import Server  # noqa: E402
from happysimulator.components.server.concurrency import WeightedConcurrency  # noqa: E402
from happysimulator.distributions.latency_distribution import LatencyDistribution  # noqa: E402

PROPERTY["assumptions"] += [
    "QueuePolicy implementations meet the interface contract proved in C08 (is_empty/len/capacity/push/pop); "
    "LatencyDistribution.get_latency returns a non-negative Duration (stub; the distributions clamp at 0); "
    "Entity.has_capacity of a downstream entity is a side-effect free predicate",
    "the Server is configured with a WeightedConcurrency-shaped model (any ConcurrencyModel meets the same acquire/release "
    "interface, proved in C08) and request weights are >= 1",
]

cls(QueuePollEvent, fields={"requestor": OptRef(Entity)})
cls(QueueNotifyEvent, fields={"queue_entity": OptRef(Entity)})
cls(QueueDeliverEvent, fields={"payload": OptRef(Event, variants=[Event]), "queue_entity": OptRef(Entity)})
ANY_EVENT = Ref(Event, variants=[Event, QueuePollEvent, QueueNotifyEvent, QueueDeliverEvent])


def _within(n, cap):
    return True if isinstance(cap, float) else n <= cap


def _full(o):
    return False if isinstance(o.g_cap, float) else o.g_size >= o.g_cap


cls(QueuePolicy, ghost={"g_size": Int, "g_cap": IntInf},
    inv=[("size-in-range", lambda o: (o.g_size >= 0) & _within(o.g_size, o.g_cap))])
stub_of(QueuePolicy, "is_empty", returns=Bool, modifies=[], ensures=[lambda s: iff(s.result, s.self.g_size == 0)])
stub_of(QueuePolicy, "__len__", returns=Int, modifies=[], ensures=[lambda s: s.result == s.self.g_size])
stub_of(QueuePolicy, "push", returns=Bool, modifies=["g_size"], ensures=[
    lambda s: iff(s.result, Not(_full(s.old(s.self)))),
    lambda s: s.self.g_size == s.old(s.self).g_size + ite(s.result, 1, 0)])
stub_of(QueuePolicy, "pop", returns=OptRef(Event, variants=[Event]), modifies=["g_size"], ensures=[
    lambda s: iff(s.result is None, s.old(s.self).g_size == 0),
    lambda s: s.self.g_size == s.old(s.self).g_size - (0 if s.result is None else 1)])
POLICY_IFACE = [(QueuePolicy, n) for n in ("is_empty", "__len__", "push", "pop")]
stub_of(Entity, "has_capacity", returns=Bool, modifies=[], ensures=[])

cls(Queue, fields={"egress": Ref(Entity), "policy": Ref(QueuePolicy), "stats_dropped": Int, "stats_accepted": Int})
cls(QueueDriver, fields={"queue": Ref(Entity), "target": Ref(Entity)})

fn(Queue, "_handle_enqueue", args={"event": ANY_EVENT}, uses=POLICY_IFACE, focus=lambda s: [s.self.policy], ensures=[
    ("notification-not-in-the-past", result_not_in_past)])
fn(Queue, "_handle_poll", args={"event": Ref(QueuePollEvent)}, uses=POLICY_IFACE,
   requires=[lambda s: s.event.requestor is not None], focus=lambda s: [s.self.policy], ensures=[
    ("delivery-not-in-the-past", result_not_in_past)])
fn(QueueDriver, "_handle_notify", args={"_": Ref(QueueNotifyEvent)}, uses=[(Entity, "has_capacity")], ensures=[
    ("poll-not-in-the-past", result_not_in_past)])
fn(QueueDriver, "_handle_work_payload", args={"payload": Ref(Event)}, uses=[(Entity, "has_capacity")], ensures=[
    ("re-emitted-payload-not-in-the-past", result_not_in_past)])
fn(QueueDriver, "_handle_delivery", args={"event": Ref(QueueDeliverEvent)}, uses=[(Entity, "has_capacity")], ensures=[
    ("forwarded-payload-not-in-the-past", result_not_in_past)])

cls(LatencyDistribution, fields={"_mean_latency": Real})
stub_of(LatencyDistribution, "get_latency", returns=DURATION, modifies=[], ensures=[lambda s: s.result.nanoseconds >= 0])
cls(WeightedConcurrency, fields={"_total_capacity": Int, "_used_capacity": Int}, const=["_total_capacity"],
    inv=[("bounds", lambda o: (0 <= o._used_capacity) & (o._used_capacity <= o._total_capacity)),
         ("cap", lambda o: o._total_capacity >= 1)])
cls(Server, fields={"_concurrency_model": Ref(WeightedConcurrency), "_service_time": Ref(LatencyDistribution),
                    "_downstream": OptRef(Entity), "_requests_completed": Int, "_requests_rejected": Int,
                    "_total_service_time": Real, "_service_times": Seq(Real)})


def _weight(e):
    m = e.context.get("metadata", None)
    if m is None:
        return 1
    return m.get("weight", 1)


fn(Server, "handle_queued_event", args={"event": Ref(Event)},
   requires=[("request-weight-positive", lambda s: _weight(s.event) >= 1)],
   uses=[(LatencyDistribution, "get_latency")], focus=lambda s: [s.self._concurrency_model],
   yields=Yields(at_yield=AT_YIELD, rely=[clock_rely],
                 stable=STABLE_CORE + [("Server", "_concurrency_model"), ("Server", "_service_time"), ("Server", "_downstream"),
                                       ("Event", "event_type"), ("Event", "context")]),
   ensures=[("completion-not-in-the-past", result_not_in_past)])

# ---- messaging: Topic.publish ---------------------------------------------------------------------------------------
from happysimulator.components.messaging.topic import Topic, Subscription  # noqa: E402

PROPERTY["assumptions"] += [
    "Topic: message retention is not configured (_retain_messages is False): the bounded deque(maxlen) history is outside "
    "the modelled fragment",
]
cls(Subscription, fields={"subscriber": Ref(Entity), "subscribed_at": TIME, "messages_received": Int, "active": Bool})
cls(Topic, fields={"_delivery_latency": Real, "_max_subscribers": Opt(Int),
                   "_subscriptions": Map(Ref(Entity), Ref(Subscription), ordered=True), "_message_history": Seq(Ref(Event)),
                   "_retain_messages": Bool, "_messages_published": Int, "_messages_delivered": Int, "_subscribers_added": Int,
                   "_subscribers_removed": Int, "_delivery_latencies": Seq(Real)},
    const=["_delivery_latency", "_max_subscribers"],
    inv=[("delivery-latency-nonneg", lambda o: o._delivery_latency >= 0)])       # validated by the constructor (ctor below)

ctor(Topic, args={"name": Str, "delivery_latency": Real, "max_subscribers": Opt(Int)}, setup=lambda s: _attached(s),
     teardown=lambda s: _detach(s), ensures=[("latency-stored", lambda s: s.self._delivery_latency == s.delivery_latency)],
     raises={ValueError: [("only-negative-latency", lambda s: s.delivery_latency < 0)]})

BATCH_YIELDS = dict(at_yield=AT_YIELD, rely=[clock_rely], stable=STABLE_CORE)
fn(Topic, "publish", args={"message": Ref(Event)}, requires=[("no-retention", lambda s: Not(s.self._retain_messages))],
   focus=CLOCK_FOCUS, yields=Yields(**BATCH_YIELDS), ensures=[
    ("deliveries-not-in-the-past", result_not_in_past)])

# ---- microservice: OutboxRelay --------------------------------------------------------------------------------------
from happysimulator.components.microservice.outbox_relay import OutboxRelay, OutboxEntry  # noqa: E402

cls(OutboxEntry, fields={"entry_id": Int, "payload": Any, "written_at": TIME, "relayed": Bool})
cls(OutboxRelay, fields={"_downstream": Ref(Entity), "_poll_interval": Real, "_batch_size": Int, "_relay_latency": Real,
                         "_entries": Seq(Ref(OutboxEntry)), "_next_entry_id": Int, "_poll_scheduled": Bool,
                         "_entries_written": Int, "_entries_relayed": Int, "_relay_failures": Int, "_poll_cycles": Int,
                         "_relay_lag_sum": Real, "_relay_lag_max": Real},
    const=["_downstream", "_poll_interval", "_batch_size", "_relay_latency"],
    inv=[("poll-interval-positive", lambda o: o._poll_interval > 0), ("batch-size-positive", lambda o: o._batch_size >= 1),
         ("relay-latency-nonneg", lambda o: o._relay_latency >= 0)])             # all validated by the constructor

ctor(OutboxRelay, args={"name": Str, "downstream": Ref(Entity), "poll_interval": Real, "batch_size": Int, "relay_latency": Real},
     setup=lambda s: _attached(s), teardown=lambda s: _detach(s), ensures=[],
     raises={ValueError: [("only-bad-config", lambda s: (s.poll_interval <= 0) | (s.batch_size < 1) | (s.relay_latency < 0))]})
fn(OutboxRelay, "_schedule_poll", ensures=[("next-poll-not-in-the-past", result_not_in_past)])
# (`sum(1 for e in self._entries if not e.relayed)`: a read-only count, replaced by an arbitrary non-negative int)
stub_of(OutboxRelay, "pending_count", returns=Int, modifies=[], ensures=[lambda s: s.result >= 0])
fn(OutboxRelay, "_handle_poll", args={"event": Ref(Event)}, focus=CLOCK_FOCUS, uses=[(OutboxRelay, "pending_count")],
   yields=Yields(**BATCH_YIELDS), ensures=[
    ("relayed-events-and-next-poll-not-in-the-past", result_not_in_past)])

# ---- client: ConnectionPool warm-up ----------------------------------------------------------------------------------
from happysimulator.components.client.connection_pool import ConnectionPool, Connection  # noqa: E402

_K["Connection"] = Connection
cls(Connection, fields={"id": Int, "created_at": TIME, "last_used_at": TIME, "is_active": Bool})
POOL_HOOK = Opt(Fn(None, "pool_hook"))
cls(ConnectionPool, fields={
    "_target": Ref(Entity), "_min_connections": Int, "_max_connections": Int, "_connection_timeout": Real,
    "_idle_timeout": Real, "_connection_latency": Ref(LatencyDistribution), "_on_acquire": POOL_HOOK, "_on_release": POOL_HOOK,
    "_on_timeout": POOL_HOOK, "_idle_connections": Seq(Ref(Connection)), "_active_connections": Map(Int, Ref(Connection)),
    "_next_connection_id": Int, "_total_connections": Int, "_waiters": Seq(Any), "_next_waiter_id": Int,
    "_connections_created": Int, "_connections_closed": Int, "_acquisitions": Int, "_releases": Int, "_timeouts": Int,
    "_total_wait_time": Real},
    const=["_target", "_min_connections", "_max_connections", "_connection_timeout", "_idle_timeout", "_connection_latency"],
    inv=[("idle-timeout-positive", lambda o: o._idle_timeout > 0),            # validated by the constructor
         ("connection-timeout-positive", lambda o: o._connection_timeout > 0)])
fn(ConnectionPool, "_create_connection", uses=[(LatencyDistribution, "get_latency")],
   yields=Yields(at_yield=AT_YIELD, rely=[clock_rely], stable=STABLE_CORE), ensures=[])
fn(ConnectionPool, "_handle_warmup", args={"event": Ref(Event)}, uses=[(LatencyDistribution, "get_latency")],
   yields=Yields(at_yield=AT_YIELD, rely=[clock_rely], stable=STABLE_CORE), ensures=[
    ("idle-timeout-checks-not-in-the-past", result_not_in_past)])
fn(ConnectionPool, "warmup", ensures=[("warmup-event-not-in-the-past", result_not_in_past)])

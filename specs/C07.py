"""C07 - no library component emits an event into the past or spins at a frozen clock.

Part 1 (generated, library wide): the time-slice scan of specs/c07_scan.py over every function of
        happysimulator/components/** turned into two obligation families
          no-past-emission : one obligation per event-construction site whose timestamp is clock-now(+offset)
          progress         : one obligation per loop that contains a suspension
        (sites / loops the scan cannot classify are listed in evidence and are not counted as proved).
Part 2 (PyVC contracts on the real code): event-emitting handlers across families with the clauses
          every emitted event carries time >= the clock at the hand-over point (the yield/return that gives
          it to the engine);  every yielded delay is >= 0;  every loop with a suspension has a progress
          certificate (the clock advances in each iteration, or a measure decreases).
Extension: the scan covers components/**, load/**, faults/**, instrumentation/** with the classes completion-hook-time,
        caller-now / interface-now (least fixpoint over the library's call sites), start-time, pre-run-absolute, and
        the loop certificate `delegation`; every site / loop it still cannot classify must be under a contract
        (lemma scan.every-unclassified-site-and-loop-is-under-contract).
Part 2 additionally: ConnectionPool.acquire, Condition.wait_for, CPUScheduler.execute (+ FairShare / PriorityPreemptive),
        PageCache._evict_one / _ensure_space  - progress certificates as loop `decreases`.
Part 3 load generation: ArrivalTimeProvider.next_arrival_time (constant-rate path), SimpleEventProvider.get_events,
        Source.handle_event / start; clause next-arrival-strictly-later only with fixes/C07_source-min-inter-arrival.diff.
Part 4 self-rescheduling daemons: the period parameter is rejected at construction when <= 0 (table PERIODIC; 15
        parameters of 12 components only with fixes/C07_daemon-interval-validation.diff).
Bounded stand-ins (triage/c07_bounded.py): tcp-send-progress, source-profile-path.
See DESIGN.md section 3-C07.
"""
from pyvc.spec import *
from pyvc.ctx import REPO as _REPO

F_MQ = "happysimulator/components/messaging/message_queue.py"

# ---------------------------------------------------------------------------- loop contracts / ghosts
# (declared before the repo modules are imported)
# the context value read by MessageQueue.handle_event is typed (A-typing for Event.context): an arbitrary str or None
ghost(F_MQ, "MessageQueue.handle_event", "message_id = event.context.get('message_id')",
      "message_id = _c07_opt_str('message_id')")


# ---- progress certificates of loops that contain a suspension ------------------------------------------------------
# measure: time left to the run's horizon (ghost Clock.g_horizon >= clock, constant during a run).  It decreases in
# an iteration exactly when the clock advances by at least 1 ns between the loop head and the back edge.


def _time_to_horizon(L):
    # + the number of wake-ups by other processes still to come in this run (ghost Clock.g_wakeups_left): a process
    # parked on a future takes no delivery until another process resolves it, which uses one of them up
    return (L.self._clock.g_horizon - now_ns(L.self)) + L.self._clock.g_wakeups_left


def _below_horizon(L):
    return (now_ns(L.self) <= L.self._clock.g_horizon) & (L.self._clock.g_wakeups_left >= 0)


# frame of the environment between loop head and back edge: fields no process writes after construction
WORLD_KEEPS = [("Entity", "_clock"), ("Entity", "name"), ("Clock", "g_horizon"), ("Condition", "_lock")]


def _wait_loop(relpath, qual, flag, ordinal=1, keeps=()):
    """`while not flag[0]: yield ...` - flag is a one-cell list set by a callback another process calls"""
    return loop(relpath, qual, ordinal, modifies="world", keeps=WORLD_KEEPS + list(keeps), types={flag: lambda: Seq(Bool)},
                inv=[("flag-is-a-one-cell-list", lambda L: slen(getattr(L, flag)) == 1),
                     ("clock-below-horizon", _below_horizon)],
                decreases=_time_to_horizon)


F_SYNC = "happysimulator/components/sync/"
_wait_loop(F_SYNC + "mutex.py", "Mutex.acquire", "acquired")
_wait_loop(F_SYNC + "semaphore.py", "Semaphore.acquire", "acquired")
_wait_loop(F_SYNC + "rwlock.py", "RWLock.acquire_read", "acquired")
_wait_loop(F_SYNC + "rwlock.py", "RWLock.acquire_write", "acquired")
_wait_loop(F_SYNC + "barrier.py", "Barrier.wait", "released")
_wait_loop(F_SYNC + "condition.py", "Condition.wait", "woken", keeps=[("Condition", "_lock")])

# ---- Topic.publish / OutboxRelay._handle_poll: a batch loop that suspends per item, then hands the whole batch over ----
from pyvc.comp import declare_filter  # noqa: E402

F_TOPIC = "happysimulator/components/messaging/topic.py"
F_OUTBOX = "happysimulator/components/microservice/outbox_relay.py"
declare_filter(F_TOPIC, "Topic.publish", 1)             # [sub for sub in self._subscriptions.values() if sub.active]
declare_filter(F_OUTBOX, "OutboxRelay._handle_poll", 1)  # [e for e in self._entries if not e.relayed]


def _restamped_so_far(var):
    """loop invariant of the re-stamping loop of the repairs (`for ev in events: ev.time = emit_time`):
    every event visited so far carries emit_time"""
    def inv(L):
        t = ns(L.emit_time)
        return forall(Int, lambda j: implies((0 <= j) & (j < L.i), mk_bool(
            z3.Select(_time_ns_array(), seq_term(L.seq)[j.t]) == num(t))), "j")
    return inv


def _remaining_items(L):
    return slen(L.seq) - L.i


loop(F_TOPIC, "Topic.publish", 1, modifies="world", keeps=WORLD_KEEPS + [("Topic", "_delivery_latency")],
     types={"delivery_events": lambda: Seq(Ref(Event)), "delivery_event": lambda: Ref(Event)},
     inv=[("configured-latency-nonneg", lambda L: L.self._delivery_latency >= 0), ("clock-below-horizon", _below_horizon)],
     decreases=_remaining_items)
# (only on the repaired tree) the hand-over loop: for delivery_event in delivery_events: delivery_event.time = emit_time
loop(F_TOPIC, "Topic.publish", 2, modifies=[("Event", "time")], types={"delivery_event": lambda: Ref(Event)},
     inv=[("restamped-so-far", _restamped_so_far("delivery_event")),
          ("emit-time-is-now", lambda L: ns(L.emit_time) == now_ns(L.self))], decreases=_remaining_items)

loop(F_OUTBOX, "OutboxRelay._handle_poll", 1, modifies="world",
     keeps=WORLD_KEEPS + [("OutboxRelay", "_relay_latency"), ("OutboxRelay", "_downstream"), ("OutboxRelay", "_poll_interval"),
                          ("OutboxRelay", "_batch_size")],
     types={"relay_events": lambda: Seq(Ref(Event)), "lag": lambda: Real},
     inv=[("configured-latency-nonneg", lambda L: L.self._relay_latency >= 0), ("clock-below-horizon", _below_horizon)],
     decreases=_remaining_items)
loop(F_OUTBOX, "OutboxRelay._handle_poll", 2, modifies=[("Event", "time")], types={"relay_event": lambda: Ref(Event)},
     inv=[("restamped-so-far", _restamped_so_far("relay_event")),
          ("emit-time-is-now", lambda L: ns(L.emit_time) == now_ns(L.self))], decreases=_remaining_items)

# ---- ConnectionPool._handle_warmup: creates the minimum connections one by one (each takes the connect latency) --------
F_POOL = "happysimulator/components/client/connection_pool.py"
loop(F_POOL, "ConnectionPool._handle_warmup", 1, modifies="world",
     keeps=WORLD_KEEPS + [("ConnectionPool", f) for f in ("_target", "_min_connections", "_max_connections",
                                                          "_connection_timeout", "_idle_timeout", "_connection_latency")],
     types={"events": lambda: Seq(Ref(Event)), "connection": lambda: Ref(_K["Connection"]), "timeout_event": lambda: Ref(Event)},
     inv=[("idle-timeout-positive", lambda L: L.self._idle_timeout > 0)])
# (only on the repaired tree) for timeout_event in events: if timeout_event.time < emit_time: timeout_event.time = emit_time
loop(F_POOL, "ConnectionPool._handle_warmup", 2, modifies=[("Event", "time")], types={"timeout_event": lambda: Ref(Event)},
     inv=[("clamped-so-far", lambda L: forall(Int, lambda j: implies((0 <= j) & (j < L.i), mk_bool(
              z3.Select(_time_ns_array(), seq_term(L.seq)[j.t]) >= num(ns(L.emit_time)))), "j")),
          ("emit-time-is-now", lambda L: ns(L.emit_time) == now_ns(L.self))], decreases=_remaining_items)

# ---- loops with a computed delay / a suspension inside a sub-generator (extension) ---------------------------------
_POOL_CONSTS = [("ConnectionPool", f) for f in ("_target", "_min_connections", "_max_connections", "_connection_timeout",
                                                 "_idle_timeout", "_connection_latency")]


class Lex:
    """lexicographic measure (major, minor) for `decreases`: the harness evaluates `after < before` and `before >= 0`"""

    def __init__(self, major, minor):
        self.major, self.minor = major, minor

    def __lt__(self, other):
        return (self.major < other.major) | ((self.major == other.major) & (self.minor < other.minor))

    def __ge__(self, zero):
        return (self.major >= zero) & (self.minor >= zero)


# ConnectionPool.acquire: `while elapsed < self._connection_timeout: yield poll_interval; elapsed += poll_interval; ...`
# the poll interval min(0.1, timeout/10) is positive because the constructor validates connection_timeout > 0: the clock
# advances in every iteration (and `elapsed` runs into the timeout: C09 proves that bound)
loop(F_POOL, "ConnectionPool.acquire", 1, modifies="world", keeps=WORLD_KEEPS + _POOL_CONSTS,
     types={"received": lambda: Seq(Bool), "result": lambda: Seq(OptRef(_K["Connection"])),
            "connection": lambda: OptRef(_K["Connection"])},
     inv=[("flags-are-one-cell-lists", lambda L: (slen(L.received) == 1) & (slen(L.result) == 1)),
          ("poll-interval-positive", lambda L: L.poll_interval > 0),
          ("clock-below-horizon", _below_horizon)],
     decreases=_time_to_horizon)

# Condition.wait_for: `while not predicate(): ...; yield from self.wait()` - wait() parks on a future at least once
loop(F_SYNC + "condition.py", "Condition.wait_for", 1, modifies="world", keeps=WORLD_KEEPS,
     inv=[("clock-below-horizon", _below_horizon)], decreases=_time_to_horizon)

# CPUScheduler.execute: every path through the body suspends for a positive time (a quantum, 1 ms, or the slice
# min(quantum, remaining) with remaining > 0 from the loop test)
F_CPU = "happysimulator/components/infrastructure/cpu_scheduler.py"
loop(F_CPU, "CPUScheduler.execute", 1, modifies="world",
     keeps=WORLD_KEEPS + [("CPUScheduler", "_policy"), ("CPUScheduler", "_context_switch_s")],
     types={"ready": lambda: Seq(Ref(_K["CPUTask"])), "selected": lambda: OptRef(_K["CPUTask"]), "quantum": lambda: Real,
            "run_time": lambda: Real},
     inv=[("context-switch-cost-nonneg", lambda L: L.self._context_switch_s >= 0), ("clock-below-horizon", _below_horizon)],
     decreases=_time_to_horizon)

# PageCache._ensure_space: `while len(self._pages) >= self._capacity: yield from self._evict_one()` - an iteration either
# waits for the write-back of a dirty page (the clock advances) or removes a clean page without suspending
F_PC = "happysimulator/components/infrastructure/page_cache.py"
loop(F_PC, "PageCache._ensure_space", 1, modifies="world",
     keeps=WORLD_KEEPS + [("PageCache", f) for f in ("_capacity", "_disk_write_latency_s", "_disk_read_latency_s")],
     inv=[("write-back-latency-positive", lambda L: L.self._disk_write_latency_s > 0),
          ("capacity-positive", lambda L: L.self._capacity >= 1), ("clock-below-horizon", _below_horizon)],
     decreases=lambda L: Lex(_time_to_horizon(L), slen(L.self._pages)))
_K = {}

from specs.common import *  # noqa: E402,F401
from specs.c07_scan import scan as _scan  # noqa: E402
from pyvc.sym import num_term  # noqa: E402

import happysimulator.components.messaging.message_queue as _mq_mod  # noqa: E402
from happysimulator.components.messaging.message_queue import MessageQueue, Message  # noqa: E402
from happysimulator.components.messaging.dlq import DeadLetterQueue  # noqa: E402

PROPERTY = {
    "id": "C07",
    "level": "proof",
    "task_timeout": 900,       # refuting an obligation under quantified facts (unrepaired tree) runs into solver timeouts
    "trusted": ["heap typing of the fields declared in specs/C07.py and specs/common.py",
                "specs/c07_scan.py: the AST abstract interpretation that classifies construction sites and loops "
                "(its verdicts are turned into SMT obligations by the lemmas scan.*; the classification itself is trusted)"],
    "assumptions": COMMON_ASSUMPTIONS + [
        "clock rely at a suspension: a process that yields the delay d is resumed with the clock at exactly "
        "clock_at_yield + trunc(d * 1e9) ns (contract of ProcessContinuation.invoke, proved in C02, plus 'the clock equals "
        "the timestamp of the delivered event', proved in C01); a process parked on a future is resumed no earlier",
        "hand-over point: events returned by a handler / generator or yielded as side effects `(delay, events)` are pushed "
        "by the engine at that instant (C01/C02); an event is 'in the past' iff its time is below the clock then",
        "durations added to the clock at construction sites of class clock-now(+offset) are non-negative "
        "(configured latencies / intervals / timeouts; validated by the constructors where they validate, else configuration)",
        "MessageQueue.delivery_latency >= 0 (the constructor does not validate it) - configuration assumption",
        "event context entries have the type their handler expects (A-typing for Event.context): 'message_id' is a str or "
        "absent; the typed value is re-bound by a ghost statement right after the context read",
    ],
}


def _opt_str(name):
    """a context value typed `str | None` (arbitrary)"""
    return Opt(Str).fresh(name)


_mq_mod._c07_opt_str = _opt_str


# Constructors of entities are verified "as attached": Entity.__init__ leaves `_clock = None` until the simulation
# injects the clock, while specs/common.py types `_clock` as a present Clock (COMMON_ASSUMPTIONS).  The setup
# replaces Entity.__init__ by its first statement only.
_ENTITY_INIT = [Entity.__init__]


def _attached(s):
    def _init(self, name):
        self.name = name
    Entity.__init__ = _init
    return []


def _detach(s):
    Entity.__init__ = _ENTITY_INIT[0]


# ============================================================================ shared clause helpers
def delay_of(y):
    """the delay of a yielded value: `d` or `(d, side_effect_events)`"""
    return y[0] if isinstance(y, tuple) else y


def is_delay(y):
    d = delay_of(y)
    return isinstance(d, (int, float)) or hasattr(d, "t")


def delay_ns(d):
    """trunc(d * 1e9) for a non-negative delay in seconds (what the engine adds to the clock)"""
    t, is_real = num_term(d)
    if not is_real:
        t = z3.ToReal(t)
    return mk_num(z3.ToInt(t * 1000000000))


def clock_rely(s, b, y):
    """the environment between a yield and the resumption: exactly the yielded delay elapses
    (a future: some non-negative time)"""
    now1 = ns(s.self._clock._current_time)
    now0 = ns(b.pre(s.self._clock)._current_time)
    w1, w0 = s.self._clock.g_wakeups_left, b.pre(s.self._clock).g_wakeups_left
    if is_delay(y):
        return (now1 == now0 + delay_ns(delay_of(y))) & (w1 <= w0)
    # parked on a future: resumed by a resolve() of another process (one of the finitely many of the run), not earlier
    return (now1 >= now0) & (w1 < w0)


def clock_rely_tick(s, b, y):
    """clock_rely for loops whose certificate is 'every iteration suspends for a positive delay': a positive delay
    advances the clock by at least one tick (a positive delay below 1 ns - which the engine truncates to 0 ns - is
    modelled as 1 ns: sub-nanosecond quanta / intervals are outside the modelled configurations, assumption listed)"""
    now1 = ns(s.self._clock._current_time)
    now0 = ns(b.pre(s.self._clock)._current_time)
    w1, w0 = s.self._clock.g_wakeups_left, b.pre(s.self._clock).g_wakeups_left
    if is_delay(y):
        d = delay_of(y)
        step = delay_ns(d)
        return (now1 == now0 + ite((d > 0) & (step < 1), 1, step)) & (w1 <= w0)
    return (now1 >= now0) & (w1 < w0)


def delay_nonneg(s, y):
    if not is_delay(y):
        return True
    return delay_of(y) >= 0


def not_in_past(s, e):
    return ns(e.time) >= now_ns(s.self)


def side_effects_not_in_past(s, y):
    """events handed over with a yield `(delay, events)`"""
    if not isinstance(y, tuple) or len(y) < 2 or y[1] is None:
        return True
    evs = y[1] if isinstance(y[1], (list, tuple)) else [y[1]]
    out = True
    for e in evs:
        out = out & not_in_past(s, e)
    return out


AT_YIELD = [("delay-nonnegative", delay_nonneg), ("side-effect-events-not-in-the-past", side_effects_not_in_past)]
STABLE_CORE = [("Entity", "_clock"), ("Entity", "name")]


def result_not_in_past(s):
    """every event of a returned list / a returned event carries time >= the clock at the return"""
    r = s.result
    if r is None:
        return True
    if isinstance(r, (list, tuple)):
        out = True
        for e in r:
            out = out & not_in_past(s, e)
        return out
    if isinstance(r, SymList):
        return forall(Int, lambda j: implies((0 <= j) & (j < slen(r)), mk_bool(
            z3.Select(_time_ns_array(), seq_term(r)[j.t]) >= num(now_ns(s.self)))), "j")
    return not_in_past(s, r)


def _time_ns_array():
    """Array(Ref -> ns) of Event.time in the current state"""
    from pyvc import ctx as _ctx
    a = _ctx.cur().heap.array(("Event", "time"), TIME)
    r = z3.Int("c07_r")
    return z3.Lambda([r], TIME.dt.nanoseconds(z3.Select(a, r)))


# ============================================================================ 1. the library-wide scan
def _scan_cached(repo):
    """the scan is a pure function of the library sources and of specs/c07_scan.py: keep its result per content
    fingerprint (the scan interprets the whole library several times for the caller rule: ~6 s)"""
    import hashlib
    import json
    import os
    import tempfile
    h = hashlib.sha256()
    for dirpath, dirs, files in os.walk(os.path.join(repo, "happysimulator")):
        dirs.sort()
        for f in sorted(files):
            if f.endswith(".py"):
                p = os.path.join(dirpath, f)
                h.update(p.encode())
                h.update(open(p, "rb").read())
    h.update(open(os.path.join(os.path.dirname(__file__), "c07_scan.py"), "rb").read())
    path = os.path.join(tempfile.gettempdir(), f"pyvc_c07_scan_{h.hexdigest()[:24]}.json")
    try:
        return json.load(open(path, encoding="utf-8"))
    except (OSError, ValueError):
        pass
    result = _scan(repo)
    try:
        fd, tmp = tempfile.mkstemp(dir=tempfile.gettempdir(), suffix=".json")
        with os.fdopen(fd, "w", encoding="utf-8") as out:
            json.dump(result, out)
        os.replace(tmp, path)
    except OSError:
        pass
    return result


SCAN = _scan_cached(_REPO)


def _family(relfile):
    parts = relfile.split("/")
    if parts[0] != "components":
        return parts[0]                 # load / faults / instrumentation
    return parts[1] if len(parts) > 2 else parts[1].removesuffix(".py")


def _site_name(c):
    return f'{c["file"]}::{c["function"]}#{c["ordinal"]}'


def _loop_name(c):
    return f'{c["file"]}::{c["function"]}#loop{c["ordinal"]}'


# classes of time expressions that give an obligation (the other classes - ctor-pass-through, user-supplied-time - are not
# emissions of a component: the first is counted at its call sites, the second is stamped by the user's workload script)
NOW_CLASSES = ("clock-now(+offset)", "caller-now(+offset)", "interface-now(+offset)", "start-time(+offset)",
               "completion-hook-time(+offset)")
PROVED_CLASSES = NOW_CLASSES + ("pre-run-absolute",)
HOOK_CALLS_OK = bool(SCAN["hook_calls"]) and all(h["ok"] for h in SCAN["hook_calls"])

_SITES_BY_FAMILY, _LOOPS_BY_FAMILY = {}, {}
for _c in SCAN["sites"]:
    if _c["class"] in PROVED_CLASSES:
        _SITES_BY_FAMILY.setdefault(_family(_c["file"]), []).append(_c)
for _c in SCAN["loops"]:
    if _c["cert_kind"] in ("bounded", "positive-literal", "delegation"):
        _LOOPS_BY_FAMILY.setdefault(_family(_c["file"]), []).append(_c)

PROPERTY["scan"] = {
    "census": SCAN["census"],
    "stale_now_sites": [{k: c[k] for k in ("file", "function", "line", "handed_over_line", "time", "why") if k in c}
                        | {"obligation": _site_name(c)} for c in SCAN["stale"]],
    "spin_loops": [{k: c[k] for k in ("file", "function", "line", "head", "yields", "why")} | {"obligation": _loop_name(c)}
                   for c in SCAN["spin"]],
    "loops_with_a_suspension": [{k: c[k] for k in ("file", "function", "line", "kind", "head", "yields", "certificate")}
                                for c in SCAN["loops"]],
    # not proved by the scan (no obligation generated): time expressions that are not clock-now(+offset) - constructor
    # pass-throughs, completion hooks stamped with the hook's finish_time, start events built before the run - and
    # loops whose delay is computed / that wait on a sub-generator
    "sites_not_classified": [f'{c["file"]}:{c["line"]} {c["function"]}: time={c["time"]}'
                             for c in SCAN["sites"] if c["class"] == "other"],
    "sites_that_are_not_component_emissions": [f'{c["file"]}:{c["line"]} {c["function"]}: time={c["time"]} [{c["class"]}]'
                                               for c in SCAN["sites"] if c["class"] in ("ctor-pass-through", "user-supplied-time")],
    "records_with_a_time_field_not_events": SCAN["non_events"],
    "completion_hook_call_sites": [f'{h["file"]}:{h["line"]} {h["function"]}: hook({h["arg"]}) '
                                   f'[{"clock now" if h["ok"] else "NOT the clock now"}]' for h in SCAN["hook_calls"]],
    "parameters_that_equal_the_clock_at_entry": SCAN["entry_classes"],
    "pre_run_builders": sorted({f'{c["file"]} {c["function"]}' for c in SCAN["sites"]
                                if c["class"] in ("pre-run-absolute", "start-time(+offset)")}),
    "loops_needing_a_contract": [f'{c["file"]}:{c["line"]} {c["function"]}: while {c["head"]}: {", ".join(c["yields"])}'
                                 for c in SCAN["loops"] if c["cert_kind"] == "needs-contract"],
    "loops_progress_not_proved_deductively": ["ConnectionPool._handle_warmup (emission clause only)",
                                              "TCPConnection.send (bounded stand-in tcp-send-progress only)"],
}


def _emission_lemma(sites):
    def body():
        for c in sites:
            stamp = fresh(Int, "clock_when_stamped")
            offset = fresh(Int, "offset_ns")            # the `+ offset` of the time expression (0 if none)
            elapsed = fresh(Int, "elapsed_until_handover_ns")
            assume((offset >= 0) & (elapsed >= 0))
            if c["class"] != "stale":
                # the scan found no suspension that may take time between the clock read and the hand-over
                assume(elapsed == 0)
            if c["class"] == "pre-run-absolute":
                # Instant.from_seconds(<configured seconds>) / Instant.Epoch handed to sim.schedule before the run: the
                # clock then is the start time (Epoch, assumption); the configured absolute time is >= 0 (assumption)
                cfg = fresh(Real, "configured_seconds")
                assume(cfg >= 0)
                t_ns = mk_num(z3.ToInt(num_term(cfg)[0] * 1000000000))
                clock_at_schedule = 0
                oblige(_site_name(c), t_ns + 0 >= clock_at_schedule + elapsed)
                continue
            value = stamp
            if c["class"] == "completion-hook-time(+offset)":
                # the stamp is the hook's argument: it equals the clock iff every hook call site passes the clock now
                value = fresh(Int, "hook_argument")
                if HOOK_CALLS_OK:
                    assume(value == stamp)
            oblige(_site_name(c), value + offset >= stamp + elapsed)
    return body


def _progress_lemma(loops):
    def body():
        for c in loops:
            now0 = fresh(Int, "clock_at_loop_head")
            m0 = fresh(Int, "measure_at_loop_head")
            assume(m0 >= 1)
            if c["cert_kind"] == "bounded":
                # `for` over a finite collection: the number of remaining items is the measure
                now1, m1 = now0 + 0, m0 - 1
            elif c["cert_kind"] == "positive-literal":
                d = min(float(y.strip("()").split()[-1]) for y in c["yields"])
                now1, m1 = now0 + int(d * 1e9), m0
            elif c["cert_kind"] == "delegation":
                # measure: suspensions the driven sub-generator still has to make (finite: its own loops are in this
                # census); one iteration consumes exactly one and re-yields its (non-negative) delay
                d = fresh(Int, "sub_generator_delay_ns")
                assume(d >= 0)
                now1, m1 = now0 + d, m0 - 1
            else:
                # every suspension is `yield 0.0` and the body changes nothing the exit test reads
                now1, m1 = now0 + 0, m0
            oblige(_loop_name(c), (now1 > now0) | ((m1 < m0) & (m1 >= 0)))
    return body


for _fam in sorted(_SITES_BY_FAMILY):
    lemma(f"scan.no-past-emission[{_fam}]", _emission_lemma(_SITES_BY_FAMILY[_fam]))
for _fam in sorted(_LOOPS_BY_FAMILY):
    lemma(f"scan.progress[{_fam}]", _progress_lemma(_LOOPS_BY_FAMILY[_fam]))
# every offending site is its own task (a refuted obligation is assumed afterwards: it must not mask the next one)
def _modname(c):
    return c["file"].removeprefix("components/").removesuffix(".py").replace("/", ".")


def _hook_calls_lemma():
    """every place of the library that calls a completion hook passes the clock now (the premise of the class
    completion-hook-time): one obligation per call site, from the scan's syntactic verdict"""
    for h in SCAN["hook_calls"]:
        arg, clock = fresh(Int, "hook_argument"), fresh(Int, "clock_at_call")
        if h["ok"]:
            assume(arg == clock)        # `self.now`, or `self.time` of the event being invoked (C01: clock == its time)
        oblige(f'{h["file"]}::{h["function"]}@{h["arg"]}', arg == clock)
    oblige("some-hook-call-site-found", mk_bool(z3.BoolVal(bool(SCAN["hook_calls"]))))


lemma("scan.completion-hooks-called-with-clock-now", _hook_calls_lemma)

# sites / loops the scan cannot classify must be under a PyVC contract (parts 2-3) or a bounded stand-in: a change that
# turns a classified site into an unclassified one (a caller that stops passing the clock, a hook registered differently,
# a new construction with a computed time) fails the obligation below instead of silently leaving the census
COVERED_SITES = {     # (file, function) -> where the emission clause is proved
    ("load/source.py", "Source.handle_event"): "fn Source.handle_event / payloads-and-next-tick-not-in-the-past",
    ("load/source.py", "Source.start"): "fn Source.start / first-tick-not-before-the-start",
}
COVERED_LOOPS = {     # (file, function) -> where the progress certificate is proved
    ("components/client/connection_pool.py", "ConnectionPool.acquire"): "loop contract: decreases time-to-horizon",
    ("components/infrastructure/cpu_scheduler.py", "CPUScheduler.execute"): "loop contract: decreases time-to-horizon",
    ("components/infrastructure/page_cache.py", "PageCache._ensure_space"): "loop contract: decreases (time-to-horizon, pages)",
    ("components/sync/condition.py", "Condition.wait_for"): "loop contract: decreases time-to-horizon + wake-ups",
    ("components/sync/condition.py", "Condition.wait"): "loop contract (_wait_loop)",
    ("components/sync/barrier.py", "Barrier.wait"): "loop contract (_wait_loop)",
    ("components/sync/mutex.py", "Mutex.acquire"): "loop contract (_wait_loop)",
    ("components/sync/rwlock.py", "RWLock.acquire_read"): "loop contract (_wait_loop)",
    ("components/sync/rwlock.py", "RWLock.acquire_write"): "loop contract (_wait_loop)",
    ("components/sync/semaphore.py", "Semaphore.acquire"): "loop contract (_wait_loop)",
    # progress NOT proved deductively (listed in evidence):
    ("components/client/connection_pool.py", "ConnectionPool._handle_warmup"):
        "emission clause only; every iteration opens one connection towards min_connections (C09: warmed-up-to-min)",
    ("components/infrastructure/tcp_connection.py", "TCPConnection.send"): "bounded stand-in tcp-send-progress only",
}
PROPERTY["scan"]["unclassified_sites_covered_by_contracts"] = {f"{k[0]}::{k[1]}": v for k, v in COVERED_SITES.items()}
PROPERTY["scan"]["loops_needing_a_contract_covered"] = {f"{k[0]}::{k[1]}": v for k, v in COVERED_LOOPS.items()}


def _coverage_lemma():
    for c in SCAN["sites"]:
        if c["class"] == "other":
            oblige(f'site-under-contract:{_site_name(c)}', mk_bool(z3.BoolVal((c["file"], c["function"]) in COVERED_SITES)))
    for c in SCAN["loops"]:
        if c["cert_kind"] == "needs-contract":
            oblige(f'loop-under-contract:{_loop_name(c)}', mk_bool(z3.BoolVal((c["file"], c["function"]) in COVERED_LOOPS)))
    oblige("census-not-empty", mk_bool(z3.BoolVal(len(SCAN["sites"]) > 150 and len(SCAN["loops"]) > 30)))


lemma("scan.every-unclassified-site-and-loop-is-under-contract", _coverage_lemma)

for _c in SCAN["stale"]:
    lemma(f"scan.stale-now[{_modname(_c)}::{_c['function']}#{_c['ordinal']}]", _emission_lemma([_c]))
for _c in SCAN["spin"]:
    lemma(f"scan.spin-loop[{_modname(_c)}::{_c['function']}#loop{_c['ordinal']}]", _progress_lemma([_c]))


# ============================================================================ 2. contracts on the real handlers
# ---- messaging: MessageQueue ---------------------------------------------------------------------------------
cls(Message, fields={"id": Str, "payload": Ref(Event), "created_at": TIME, "state": Any, "delivery_count": Int,
                     "last_delivered_at": Opt(TIME), "consumer": OptRef(Entity)})
cls(DeadLetterQueue, fields={})
stub_of(DeadLetterQueue, "add_message", returns=Bool, modifies=[], ensures=[])
cls(MessageQueue, fields={
    "_delivery_latency": Real, "_redelivery_delay": Real, "_max_redeliveries": Int, "_capacity": Opt(Int),
    "_dead_letter_queue": OptRef(DeadLetterQueue),"_messages": Map(Str, Ref(Message)), "_pending_queue": Seq(Str),
    "_in_flight": Map(Str, Ref(Message)), "_consumers": Seq(Ref(Entity)), "_consumer_index": Int,
    "_redelivery_scheduled": Set(Str), "_messages_published": Int, "_messages_delivered": Int,
    "_messages_acknowledged": Int, "_messages_rejected": Int, "_messages_redelivered": Int,
    "_messages_dead_lettered": Int, "_delivery_latencies": Seq(Real)},
    const=["_delivery_latency", "_redelivery_delay", "_max_redeliveries", "_capacity"],
    inv=[("delivery-latency-nonneg", lambda o: o._delivery_latency >= 0),
         ("redelivery-delay-positive", lambda o: o._redelivery_delay > 0)])

MQ_YIELDS = dict(at_yield=AT_YIELD, rely=[clock_rely], stable=STABLE_CORE)


def _nonneg_delay(s):
    """what a stubbed generator callee yields: one suspension of arbitrary non-negative length (covers 'no suspension':
    a zero delay whose environment step changes nothing)"""
    d = Real.fresh("callee_delay")
    assume(d >= 0)
    return d


# modular: poll and handle_event use the contract of _deliver_message (proved right here) instead of inlining it
MQ_DELIVERY_WRITES = ["_pending_queue", "_in_flight", "_consumer_index", "_messages_delivered", "_messages_redelivered",
                      "_delivery_latencies"]
_DM = fn(MessageQueue, "_deliver_message", args={"message_id": Str}, yields=Yields(**MQ_YIELDS), returns=OptRef(Event),
         modifies=MQ_DELIVERY_WRITES, ensures=[("delivery-not-in-the-past", result_not_in_past)])
_DM.stub_yield = _nonneg_delay
_POLL = fn(MessageQueue, "poll", uses=[(MessageQueue, "_deliver_message")], yields=Yields(**MQ_YIELDS), returns=OptRef(Event),
           modifies=MQ_DELIVERY_WRITES, ensures=[("delivery-not-in-the-past", result_not_in_past)])
_POLL.stub_yield = _nonneg_delay
fn(MessageQueue, "publish", args={"message": Ref(Event)}, yields=Yields(**MQ_YIELDS), ensures=[],
   raises={RuntimeError: [("only-when-full", lambda s: s.self._capacity is not None)]})
fn(MessageQueue, "schedule_redelivery", args={"message_id": Str}, uses=[(DeadLetterQueue, "add_message")], ensures=[
    ("redelivery-not-in-the-past", result_not_in_past)])
fn(MessageQueue, "handle_event", args={"event": Ref(Event)}, uses=[(MessageQueue, "_deliver_message"), (MessageQueue, "poll")],
   yields=Yields(**MQ_YIELDS), ensures=[
    ("deliveries-not-in-the-past", result_not_in_past)])

# ---- rate limiter: DistributedRateLimiter.handle_event ----------------------------------------------------------
from happysimulator.components.rate_limiter.distributed import DistributedRateLimiter  # noqa: E402

PROPERTY["assumptions"] += [
    "handlers are entered with the clock equal to the timestamp of the delivered event (proved in C01): precondition "
    "`event.time == now` of the handle_event contracts",
    "DistributedRateLimiter.check_and_increment (drives the backing store's get/put generators with next()) is replaced by a "
    "stub: it suspends for a non-negative time (the store's latencies) and returns an arbitrary bool, writing only the "
    "limiter's own counters",
]

cls(DistributedRateLimiter, fields={
    "_downstream": Ref(Entity), "_backing_store": Ref(Entity), "_global_limit": Int, "_window_size": Real,
    "_key_prefix": Str, "_local_threshold": Real, "_local_window_id": Opt(Int), "_local_count": Int,
    "_last_known_global_count": Int, "_requests_received": Int, "_requests_forwarded": Int, "_requests_dropped": Int,
    "_store_reads": Int, "_store_writes": Int, "_local_rejections": Int, "_global_rejections": Int,
    "received_times": Seq(TIME), "forwarded_times": Seq(TIME), "dropped_times": Seq(TIME),
    "global_counts": Seq(Tuple(TIME, Int))},
    const=["_downstream", "_backing_store", "_global_limit", "_window_size", "_key_prefix", "_local_threshold"])


_CAI = stub_of(DistributedRateLimiter, "check_and_increment", returns=Bool,
               modifies=["_local_window_id", "_local_count", "_last_known_global_count", "_local_rejections",
                         "_global_rejections", "_store_reads", "_store_writes", "global_counts"], ensures=[])
_CAI.stub_yield = _nonneg_delay

ENTERED_AT_EVENT_TIME = ("entered-at-event-time", lambda s: ns(s.event.time) == now_ns(s.self))

fn(DistributedRateLimiter, "handle_event", args={"event": Ref(Event)}, requires=[ENTERED_AT_EVENT_TIME],
   uses=[(DistributedRateLimiter, "check_and_increment")],
   yields=Yields(at_yield=AT_YIELD, rely=[clock_rely],
                 stable=STABLE_CORE + [("DistributedRateLimiter", "_downstream"), ("Event", "time")]),
   ensures=[("forwarded-request-not-in-the-past", result_not_in_past),
            ("at-most-one-forward", lambda s: len(s.result) <= 1)])

# ---- sync: blocking acquire loops (progress certificate = loop `decreases`, see the loop contracts at the top) --------
import happysimulator.components.sync.mutex as _mutex_mod  # noqa: E402
import happysimulator.components.sync.semaphore as _sem_mod  # noqa: E402
import happysimulator.components.sync.rwlock as _rw_mod  # noqa: E402
import happysimulator.components.sync.barrier as _bar_mod  # noqa: E402
import happysimulator.components.sync.condition as _cond_mod  # noqa: E402
from happysimulator.components.sync.mutex import Mutex  # noqa: E402
from happysimulator.components.sync.semaphore import Semaphore  # noqa: E402
from happysimulator.components.sync.rwlock import RWLock  # noqa: E402
from happysimulator.components.sync.barrier import Barrier  # noqa: E402
from happysimulator.components.sync.condition import Condition  # noqa: E402

PROPERTY["assumptions"] += [
    "finite horizon: during a run the clock never exceeds a fixed instant (ghost Clock.g_horizon: the end_time, or the "
    "timestamp of the last event of a finite workload); 'time left to the horizon' is the termination measure of loops "
    "that suspend",
    "finite workload: the number of wake-ups (SimFuture.resolve by another process) still to come in a run is finite "
    "(ghost Clock.g_wakeups_left >= 0) and a process parked on a future is resumed only by such a resolve (each future "
    "resumes its process once: C02), which uses one up; the measure of a loop that suspends is time-left + wakeups-left "
    "(a loop that yields a future which is already resolved would resume at once and is not covered by this rely)",
    "wake-up callbacks stored in waiter records are only called by other processes (release / notify / barrier break)",
]

cls(Clock, ghost={"g_horizon": Int, "g_wakeups_left": Int}, const=["g_horizon"],
    inv=[("clock-below-horizon", lambda o: o._current_time.nanoseconds <= o.g_horizon),
         ("wakeups-left-nonneg", lambda o: o.g_wakeups_left >= 0)])

WAKE = Fn(None, "wake")
cls(_mutex_mod._Waiter, fields={"callback": WAKE, "enqueue_time_ns": Int})
cls(_sem_mod._Waiter, fields={"count": Int, "callback": WAKE, "enqueue_time_ns": Int})
cls(_rw_mod._Waiter, fields={"waiter_type": Any, "callback": WAKE, "enqueue_time_ns": Int})
cls(_bar_mod._BarrierWaiter, fields={"callback": WAKE, "enqueue_time_ns": Int})
cls(_cond_mod._Waiter, fields={"callback": WAKE, "enqueue_time_ns": Int})

cls(Mutex, fields={"_locked": Bool, "_waiters": Seq(Ref(_mutex_mod._Waiter)), "_owner": Opt(Str), "_acquisitions": Int,
                   "_contentions": Int, "_releases": Int, "_total_wait_time_ns": Int})
cls(Semaphore, fields={"_count": Int, "_capacity": Int, "_waiters": Seq(Ref(_sem_mod._Waiter)), "_acquisitions": Int,
                       "_releases": Int, "_contentions": Int, "_total_wait_time_ns": Int, "_peak_waiters": Int},
    const=["_capacity"])
cls(RWLock, fields={"_max_readers": Opt(Int), "_active_readers": Int, "_write_locked": Bool,
                    "_waiters": Seq(Ref(_rw_mod._Waiter)), "_read_acquisitions": Int, "_write_acquisitions": Int,
                    "_read_releases": Int, "_write_releases": Int, "_read_contentions": Int, "_write_contentions": Int,
                    "_total_read_wait_ns": Int, "_total_write_wait_ns": Int, "_peak_readers": Int}, const=["_max_readers"])
cls(Barrier, fields={"_parties": Int, "_waiters": Seq(Ref(_bar_mod._BarrierWaiter)), "_generation": Int, "_broken": Bool,
                     "_wait_calls": Int, "_barrier_breaks": Int, "_resets": Int, "_total_wait_time_ns": Int},
    const=["_parties"])
cls(Condition, fields={"_lock": Ref(Mutex), "_waiters": Seq(Ref(_cond_mod._Waiter)), "_waits": Int, "_notifies": Int,
                       "_notify_alls": Int, "_wakeups": Int, "_total_wait_time_ns": Int}, const=["_lock"],
    # Condition.set_clock hands the same clock to its mutex
    inv=[("lock-shares-the-clock", lambda o: same(o._lock._clock, o._clock))])

SYNC_YIELDS = dict(at_yield=AT_YIELD, rely=[clock_rely], stable=STABLE_CORE)
CLOCK_FOCUS = lambda s: [s.self._clock]  # noqa: E731

fn(Mutex, "acquire", args={"owner": Opt(Str)}, focus=CLOCK_FOCUS, yields=Yields(**SYNC_YIELDS), ensures=[])
fn(Semaphore, "acquire", args={"count": Int}, focus=CLOCK_FOCUS, yields=Yields(**SYNC_YIELDS), ensures=[],
   raises={ValueError: [("only-bad-count", lambda s: (s.count < 1) | (s.count > s.self._capacity))]})
fn(RWLock, "acquire_write", focus=CLOCK_FOCUS, yields=Yields(**SYNC_YIELDS), ensures=[])
# (`any(w.waiter_type == WRITER for w in self._waiters)`: a read-only scan of the queue, replaced by an arbitrary bool)
stub_of(RWLock, "_has_waiting_writer", returns=Bool, modifies=[], ensures=[])
fn(RWLock, "acquire_read", focus=CLOCK_FOCUS, uses=[(RWLock, "_has_waiting_writer")], yields=Yields(**SYNC_YIELDS), ensures=[])
# (_break_barrier pops every waiter and calls its wake-up callback - flags of other processes - then bumps the generation)
stub_of(Barrier, "_break_barrier", modifies=["_waiters", "_barrier_breaks", "_total_wait_time_ns", "_generation"], ensures=[])
fn(Barrier, "wait", focus=CLOCK_FOCUS, uses=[(Barrier, "_break_barrier")], yields=Yields(**SYNC_YIELDS), ensures=[],
   raises={RuntimeError: [("only-when-broken", lambda s: True)]})
_CW = fn(Condition, "wait", focus=CLOCK_FOCUS, yields=Yields(**SYNC_YIELDS), ensures=[],
         modifies=["_waiters", "_waits", "_notifies", "_notify_alls", "_wakeups", "_total_wait_time_ns"],
         raises={RuntimeError: [("only-without-the-lock", lambda s: True)]})


class _Parked:
    """what a caller of Condition.wait sees it yield: a future it parks on (not a delay)"""


# wait_for uses the contract of wait (proved right above): wait() suspends on its wake-up future at least once (its flag
# starts False), i.e. the caller is resumed by a notify of another process - one of the finitely many of the run
_CW.stub_yield = lambda s: _Parked()
_CW.returns_none_ok = True          # the generator's return value is None (annotated Generator[float])
PROPERTY["assumptions"] += ["Condition.wait_for: the predicate is an opaque callable without effect on modelled state"]
fn(Condition, "wait_for", args={"predicate": Fn(Bool, "predicate"), "timeout": Opt(Real)}, uses=[(Condition, "wait")],
   focus=CLOCK_FOCUS, yields=Yields(**SYNC_YIELDS), ensures=[],
   raises={RuntimeError: [("only-without-the-lock", lambda s: Not(s.old(s.self._lock)._locked))]})

# ---- queueing pipeline (clean sample): Queue, QueueDriver, Server -----------------------------------------------------
# (typing and the QueuePolicy interface contract as in specs/C08.py, where the conservation clauses are proved;
#  here only the time clauses)
from happysimulator.components.queue_policy import QueuePolicy  # noqa: E402
from happysimulator.components.queue import Queue, QueuePollEvent, QueueNotifyEvent, QueueDeliverEvent  # noqa: E402
from happysimulator.components.queue_driver import QueueDriver  # noqa: E402
from happysimulator.components.server.server import Server  # noqa: E402
from happysimulator.components.server.concurrency import WeightedConcurrency  # noqa: E402
from happysimulator.distributions.latency_distribution import LatencyDistribution  # noqa: E402

PROPERTY["assumptions"] += [
    "QueuePolicy implementations meet the interface contract proved in C08 (is_empty/len/capacity/push/pop); "
    "LatencyDistribution.get_latency returns a non-negative Duration (stub; the distributions clamp at 0); "
    "Entity.has_capacity of a downstream entity is a side-effect free predicate",
    "the Server is configured with a WeightedConcurrency-shaped model (any ConcurrencyModel meets the same acquire/release "
    "interface, proved in C08) and request weights are >= 1",
]

cls(QueuePollEvent, fields={"requestor": OptRef(Entity)})
cls(QueueNotifyEvent, fields={"queue_entity": OptRef(Entity)})
cls(QueueDeliverEvent, fields={"payload": OptRef(Event, variants=[Event]), "queue_entity": OptRef(Entity)})
ANY_EVENT = Ref(Event, variants=[Event, QueuePollEvent, QueueNotifyEvent, QueueDeliverEvent])


def _within(n, cap):
    return True if isinstance(cap, float) else n <= cap


def _full(o):
    return False if isinstance(o.g_cap, float) else o.g_size >= o.g_cap


cls(QueuePolicy, ghost={"g_size": Int, "g_cap": IntInf},
    inv=[("size-in-range", lambda o: (o.g_size >= 0) & _within(o.g_size, o.g_cap))])
stub_of(QueuePolicy, "is_empty", returns=Bool, modifies=[], ensures=[lambda s: iff(s.result, s.self.g_size == 0)])
stub_of(QueuePolicy, "__len__", returns=Int, modifies=[], ensures=[lambda s: s.result == s.self.g_size])
stub_of(QueuePolicy, "push", returns=Bool, modifies=["g_size"], ensures=[
    lambda s: iff(s.result, Not(_full(s.old(s.self)))),
    lambda s: s.self.g_size == s.old(s.self).g_size + ite(s.result, 1, 0)])
stub_of(QueuePolicy, "pop", returns=OptRef(Event, variants=[Event]), modifies=["g_size"], ensures=[
    lambda s: iff(s.result is None, s.old(s.self).g_size == 0),
    lambda s: s.self.g_size == s.old(s.self).g_size - (0 if s.result is None else 1)])
POLICY_IFACE = [(QueuePolicy, n) for n in ("is_empty", "__len__", "push", "pop")]
stub_of(Entity, "has_capacity", returns=Bool, modifies=[], ensures=[])

cls(Queue, fields={"egress": Ref(Entity), "policy": Ref(QueuePolicy), "stats_dropped": Int, "stats_accepted": Int})
cls(QueueDriver, fields={"queue": Ref(Entity), "target": Ref(Entity)})

fn(Queue, "_handle_enqueue", args={"event": ANY_EVENT}, uses=POLICY_IFACE, focus=lambda s: [s.self.policy], ensures=[
    ("notification-not-in-the-past", result_not_in_past)])
fn(Queue, "_handle_poll", args={"event": Ref(QueuePollEvent)}, uses=POLICY_IFACE,
   requires=[lambda s: s.event.requestor is not None], focus=lambda s: [s.self.policy], ensures=[
    ("delivery-not-in-the-past", result_not_in_past)])
fn(QueueDriver, "_handle_notify", args={"_": Ref(QueueNotifyEvent)}, uses=[(Entity, "has_capacity")], ensures=[
    ("poll-not-in-the-past", result_not_in_past)])
fn(QueueDriver, "_handle_work_payload", args={"payload": Ref(Event)}, uses=[(Entity, "has_capacity")], ensures=[
    ("re-emitted-payload-not-in-the-past", result_not_in_past)])
fn(QueueDriver, "_handle_delivery", args={"event": Ref(QueueDeliverEvent)}, uses=[(Entity, "has_capacity")], ensures=[
    ("forwarded-payload-not-in-the-past", result_not_in_past)])

cls(LatencyDistribution, fields={"_mean_latency": Real})
stub_of(LatencyDistribution, "get_latency", returns=DURATION, modifies=[], ensures=[lambda s: s.result.nanoseconds >= 0])
cls(WeightedConcurrency, fields={"_total_capacity": Int, "_used_capacity": Int}, const=["_total_capacity"],
    inv=[("bounds", lambda o: (0 <= o._used_capacity) & (o._used_capacity <= o._total_capacity)),
         ("cap", lambda o: o._total_capacity >= 1)])
cls(Server, fields={"_concurrency_model": Ref(WeightedConcurrency), "_service_time": Ref(LatencyDistribution),
                    "_downstream": OptRef(Entity), "_requests_completed": Int, "_requests_rejected": Int,
                    "_total_service_time": Real, "_service_times": Seq(Real)})


def _weight(e):
    m = e.context.get("metadata", None)
    if m is None:
        return 1
    return m.get("weight", 1)


fn(Server, "handle_queued_event", args={"event": Ref(Event)},
   requires=[("request-weight-positive", lambda s: _weight(s.event) >= 1)],
   uses=[(LatencyDistribution, "get_latency")], focus=lambda s: [s.self._concurrency_model],
   yields=Yields(at_yield=AT_YIELD, rely=[clock_rely],
                 stable=STABLE_CORE + [("Server", "_concurrency_model"), ("Server", "_service_time"), ("Server", "_downstream"),
                                       ("Event", "event_type"), ("Event", "context")]),
   ensures=[("completion-not-in-the-past", result_not_in_past)])

# ---- messaging: Topic.publish ---------------------------------------------------------------------------------------
from happysimulator.components.messaging.topic import Topic, Subscription  # noqa: E402

PROPERTY["assumptions"] += [
    "Topic: message retention is not configured (_retain_messages is False): the bounded deque(maxlen) history is outside "
    "the modelled fragment",
]
cls(Subscription, fields={"subscriber": Ref(Entity), "subscribed_at": TIME, "messages_received": Int, "active": Bool})
cls(Topic, fields={"_delivery_latency": Real, "_max_subscribers": Opt(Int),
                   "_subscriptions": Map(Ref(Entity), Ref(Subscription), ordered=True), "_message_history": Seq(Ref(Event)),
                   "_retain_messages": Bool, "_messages_published": Int, "_messages_delivered": Int, "_subscribers_added": Int,
                   "_subscribers_removed": Int, "_delivery_latencies": Seq(Real)},
    const=["_delivery_latency", "_max_subscribers"],
    inv=[("delivery-latency-nonneg", lambda o: o._delivery_latency >= 0)])       # validated by the constructor (ctor below)

ctor(Topic, args={"name": Str, "delivery_latency": Real, "max_subscribers": Opt(Int)}, setup=lambda s: _attached(s),
     teardown=lambda s: _detach(s), ensures=[("latency-stored", lambda s: s.self._delivery_latency == s.delivery_latency)],
     raises={ValueError: [("only-negative-latency", lambda s: s.delivery_latency < 0)]})

BATCH_YIELDS = dict(at_yield=AT_YIELD, rely=[clock_rely], stable=STABLE_CORE)
fn(Topic, "publish", args={"message": Ref(Event)}, requires=[("no-retention", lambda s: Not(s.self._retain_messages))],
   focus=CLOCK_FOCUS, yields=Yields(**BATCH_YIELDS), ensures=[
    ("deliveries-not-in-the-past", result_not_in_past)])

# ---- microservice: OutboxRelay --------------------------------------------------------------------------------------
from happysimulator.components.microservice.outbox_relay import OutboxRelay, OutboxEntry  # noqa: E402

cls(OutboxEntry, fields={"entry_id": Int, "payload": Any, "written_at": TIME, "relayed": Bool})
cls(OutboxRelay, fields={"_downstream": Ref(Entity), "_poll_interval": Real, "_batch_size": Int, "_relay_latency": Real,
                         "_entries": Seq(Ref(OutboxEntry)), "_next_entry_id": Int, "_poll_scheduled": Bool,
                         "_entries_written": Int, "_entries_relayed": Int, "_relay_failures": Int, "_poll_cycles": Int,
                         "_relay_lag_sum": Real, "_relay_lag_max": Real},
    const=["_downstream", "_poll_interval", "_batch_size", "_relay_latency"],
    inv=[("poll-interval-positive", lambda o: o._poll_interval > 0), ("batch-size-positive", lambda o: o._batch_size >= 1),
         ("relay-latency-nonneg", lambda o: o._relay_latency >= 0)])             # all validated by the constructor

ctor(OutboxRelay, args={"name": Str, "downstream": Ref(Entity), "poll_interval": Real, "batch_size": Int, "relay_latency": Real},
     setup=lambda s: _attached(s), teardown=lambda s: _detach(s), ensures=[],
     raises={ValueError: [("only-bad-config", lambda s: (s.poll_interval <= 0) | (s.batch_size < 1) | (s.relay_latency < 0))]})
fn(OutboxRelay, "_schedule_poll", ensures=[("next-poll-not-in-the-past", result_not_in_past)])
# (`sum(1 for e in self._entries if not e.relayed)`: a read-only count, replaced by an arbitrary non-negative int)
stub_of(OutboxRelay, "pending_count", returns=Int, modifies=[], ensures=[lambda s: s.result >= 0])
fn(OutboxRelay, "_handle_poll", args={"event": Ref(Event)}, focus=CLOCK_FOCUS, uses=[(OutboxRelay, "pending_count")],
   yields=Yields(**BATCH_YIELDS), ensures=[
    ("relayed-events-and-next-poll-not-in-the-past", result_not_in_past)])

# ---- client: ConnectionPool warm-up ----------------------------------------------------------------------------------
from happysimulator.components.client.connection_pool import ConnectionPool, Connection  # noqa: E402

_K["Connection"] = Connection
cls(Connection, fields={"id": Int, "created_at": TIME, "last_used_at": TIME, "is_active": Bool})
POOL_HOOK = Opt(Fn(None, "pool_hook"))
cls(ConnectionPool, fields={
    "_target": Ref(Entity), "_min_connections": Int, "_max_connections": Int, "_connection_timeout": Real,
    "_idle_timeout": Real, "_connection_latency": Ref(LatencyDistribution), "_on_acquire": POOL_HOOK, "_on_release": POOL_HOOK,
    "_on_timeout": POOL_HOOK, "_idle_connections": Seq(Ref(Connection)), "_active_connections": Map(Int, Ref(Connection)),
    "_next_connection_id": Int, "_total_connections": Int,
    "_waiters": Seq(Tuple(Int, TIME, Fn(None, "on_connection_available"))), "_next_waiter_id": Int,
    "_connections_created": Int, "_connections_closed": Int, "_acquisitions": Int, "_releases": Int, "_timeouts": Int,
    "_total_wait_time": Real},
    const=["_target", "_min_connections", "_max_connections", "_connection_timeout", "_idle_timeout", "_connection_latency"],
    inv=[("idle-timeout-positive", lambda o: o._idle_timeout > 0),            # validated by the constructor
         ("connection-timeout-positive", lambda o: o._connection_timeout > 0)])
fn(ConnectionPool, "_create_connection", uses=[(LatencyDistribution, "get_latency")],
   yields=Yields(at_yield=AT_YIELD, rely=[clock_rely], stable=STABLE_CORE), ensures=[])
fn(ConnectionPool, "_handle_warmup", args={"event": Ref(Event)}, uses=[(LatencyDistribution, "get_latency")],
   yields=Yields(at_yield=AT_YIELD, rely=[clock_rely], stable=STABLE_CORE), ensures=[
    ("idle-timeout-checks-not-in-the-past", result_not_in_past)])
fn(ConnectionPool, "warmup", ensures=[("warmup-event-not-in-the-past", result_not_in_past)])

# ---- client: ConnectionPool.acquire (the poll loop of a caller waiting for a released connection) --------------------
PROPERTY["assumptions"] += [
    "progress of loops that suspend for a computed positive delay (ConnectionPool.acquire, CPUScheduler.execute, "
    "PageCache._ensure_space): a positive delay advances the clock by at least one tick - a positive delay below 1 ns "
    "(truncated to 0 ns by the engine) is modelled as 1 ns; sub-nanosecond quanta / poll intervals / latencies are outside "
    "the modelled configurations",
    "ConnectionPool._remove_waiter (a generator expression over the waiter queue) is replaced by a stub that writes only "
    "_waiters; the hooks on_acquire / on_release / on_timeout are opaque callables without effect on modelled state",
]
# body: `deque(t for t in self._waiters if t[0] != waiter_id)` - out of reach; assumed to write only the waiter queue
stub_of(ConnectionPool, "_remove_waiter", modifies=["_waiters"], ensures=[])
TICK_YIELDS = dict(at_yield=AT_YIELD, rely=[clock_rely_tick], stable=STABLE_CORE)
fn(ConnectionPool, "acquire", uses=[(LatencyDistribution, "get_latency"), (ConnectionPool, "_remove_waiter")], focus=CLOCK_FOCUS,
   yields=Yields(**TICK_YIELDS), ensures=[], raises={TimeoutError: [("only-after-the-wait-loop", lambda s: True)]})

# ---- infrastructure: CPUScheduler.execute (time-sliced task loop) ----------------------------------------------------
from happysimulator.components.infrastructure.cpu_scheduler import (  # noqa: E402
    CPUScheduler, CPUTask, SchedulingPolicy, FairShare, PriorityPreemptive)

_K["CPUTask"] = CPUTask
PROPERTY["assumptions"] += [
    "CPUScheduler: context_switch_s >= 0 (the constructor does not validate it) - configuration assumption; the policy "
    "meets the SchedulingPolicy interface: select_next is side-effect free and time_quantum_s returns a positive quantum "
    "(proved for FairShare and PriorityPreemptive, whose constructors reject quantum_s <= 0); a CPUTask record is written "
    "only by the execute() call that created it (its remaining_s is stable across that call's suspensions)",
]
cls(CPUTask, fields={"task_id": Str, "priority": Int, "remaining_s": Real, "wait_time_s": Real})
cls(SchedulingPolicy, fields={})
stub_of(SchedulingPolicy, "select_next", args={"tasks": Seq(Ref(CPUTask))}, returns=OptRef(CPUTask), modifies=[], ensures=[])
stub_of(SchedulingPolicy, "time_quantum_s", args={"task": Ref(CPUTask)}, returns=Real, modifies=[],
        ensures=[lambda s: s.result > 0])
for _P in (FairShare, PriorityPreemptive):
    cls(_P, fields={"_quantum_s": Real}, const=["_quantum_s"], inv=[("quantum-positive", lambda o: o._quantum_s > 0)])
    ctor(_P, args={"quantum_s": Real}, ensures=[("quantum-stored", lambda s: s.self._quantum_s == s.quantum_s)],
         raises={ValueError: [("only-a-non-positive-quantum", lambda s: s.quantum_s <= 0)]})
    fn(_P, "time_quantum_s", args={"task": Ref(CPUTask)}, ensures=[("quantum-positive", lambda s: s.result > 0)])
cls(CPUScheduler, fields={"_policy": Ref(SchedulingPolicy), "_context_switch_s": Real, "_ready_queue": Seq(Ref(CPUTask)),
                          "_running": OptRef(CPUTask), "_tasks_completed": Int, "_context_switches": Int,
                          "_total_cpu_time_s": Real, "_total_cs_overhead_s": Real, "_total_wait_time_s": Real,
                          "_peak_queue_depth": Int},
    const=["_policy", "_context_switch_s"], inv=[("context-switch-cost-nonneg", lambda o: o._context_switch_s >= 0)])
fn(CPUScheduler, "execute", args={"task_id": Str, "cpu_time_s": Real, "priority": Int},
   uses=[(SchedulingPolicy, "select_next"), (SchedulingPolicy, "time_quantum_s")], focus=CLOCK_FOCUS,
   yields=Yields(at_yield=AT_YIELD, rely=[clock_rely_tick],
                 stable=STABLE_CORE + [("CPUTask", "remaining_s"), ("CPUScheduler", "_policy"), ("CPUScheduler", "_context_switch_s")]),
   ensures=[])

# ---- infrastructure: PageCache._ensure_space (evict until there is room) -----------------------------------------------
from pyvc.omap import OMap  # noqa: E402
from happysimulator.components.infrastructure.page_cache import PageCache, _CachedPage  # noqa: E402

PROPERTY["assumptions"] += [
    "PageCache: disk_write_latency_s > 0 and disk_read_latency_s >= 0 (the constructor validates only capacity_pages >= 1) - "
    "configuration assumption; _pages is an OrderedDict[int, _CachedPage] modelled by pyvc/omap.py (as in C16)",
]
cls(_CachedPage, fields={"page_id": Int, "dirty": Bool})
cls(PageCache, fields={"_capacity": Int, "_page_size": Int, "_readahead": Int, "_disk_read_latency_s": Real,
                       "_disk_write_latency_s": Real, "_pages": OMap(Int, Ref(_CachedPage)), "_hits": Int, "_misses": Int,
                       "_evictions": Int, "_dirty_writebacks": Int, "_readaheads": Int},
    const=["_capacity", "_page_size", "_readahead", "_disk_read_latency_s", "_disk_write_latency_s"],
    inv=[("capacity-positive", lambda o: o._capacity >= 1),
         ("write-back-latency-positive", lambda o: o._disk_write_latency_s > 0),
         ("read-latency-nonneg", lambda o: o._disk_read_latency_s >= 0)])
PC_YIELDS = dict(at_yield=AT_YIELD, rely=[clock_rely_tick],
                 stable=STABLE_CORE + [("PageCache", f) for f in ("_capacity", "_disk_write_latency_s", "_disk_read_latency_s")])
fn(PageCache, "_evict_one", focus=CLOCK_FOCUS, yields=Yields(**PC_YIELDS), ensures=[])
fn(PageCache, "_ensure_space", focus=CLOCK_FOCUS, yields=Yields(**PC_YIELDS), ensures=[])

# ============================================================================ 3. load generation: Source and its providers
# (happysimulator/load/**: the scan classifies the payload stamps `time=time` as interface-now; the tick stamp
#  `time=next_time` comes out of the arrival-time provider and needs the contract below)
from happysimulator.load.source import Source, SimpleEventProvider  # noqa: E402
from happysimulator.load.source_event import SourceEvent  # noqa: E402
from happysimulator.load.event_provider import EventProvider  # noqa: E402
from happysimulator.load.arrival_time_provider import ArrivalTimeProvider  # noqa: E402
from happysimulator.load.profile import Profile  # noqa: E402

F_ATP = "happysimulator/load/arrival_time_provider.py"
# the repair C07_source-min-inter-arrival.diff clamps the next arrival to at least 1 ns after the previous one
ATP_REPAIRED = "_MIN_INTER_ARRIVAL_NS" in open(f"{_REPO}/{F_ATP}", encoding="utf-8").read()

PROPERTY["assumptions"] += [
    "ArrivalTimeProvider: only the constant-rate fast path of next_arrival_time is under contract (precondition "
    "_is_constant_rate; the profile path integrates the rate numerically and finds the root with brentq: outside the "
    "modelled fragment, covered by the bounded stand-in `source-profile-path`); _get_target_integral_value returns a "
    "non-negative area (1.0 for constant arrivals, -log(1-U) >= 0 for Poisson arrivals) - stub",
    "a Source is driven only by its own ticks: when a SourceEvent is delivered the provider's current_time is that "
    "tick's timestamp (it was returned by the previous next_arrival_time call and nobody else advances the provider)",
    "EventProvider.get_events(time) returns events stamped no earlier than `time` (interface stub; the library's "
    "implementations stamp exactly `time`: SimpleEventProvider.get_events is verified, the others are scan sites)",
]

cls(Profile, fields={})
cls(ArrivalTimeProvider, fields={"profile": Ref(Profile), "current_time": TIME, "_is_constant_rate": Bool,
                                 "_constant_rate": Real}, const=["profile", "_is_constant_rate", "_constant_rate"])
stub_of(ArrivalTimeProvider, "_get_target_integral_value", returns=Real, modifies=[], ensures=[lambda s: s.result >= 0])

_ATP_ENSURES = [
    ("next-arrival-not-before-the-previous-one", lambda s: ns(s.result) >= ns(s.old(s.self).current_time)),
    ("provider-remembers-the-arrival-it-returned", lambda s: ns(s.self.current_time) == ns(s.result)),
]
if ATP_REPAIRED:
    # progress of every source / probe: at most one tick per instant, whatever the rate (inf, > 1e9/s, tiny Poisson gap)
    _ATP_ENSURES.append(("next-arrival-strictly-later", lambda s: ns(s.result) > ns(s.old(s.self).current_time)))
fn(ArrivalTimeProvider, "next_arrival_time", requires=[("constant-rate-path", lambda s: s.self._is_constant_rate),
                                                       ("provider-time-nonneg", lambda s: ns(s.self.current_time) >= 0)],
   uses=[(ArrivalTimeProvider, "_get_target_integral_value")], returns=TIME, modifies=["current_time"], ensures=_ATP_ENSURES,
   raises={RuntimeError: [("only-without-a-positive-rate", lambda s: s.self._constant_rate <= 0),
                          ("provider-time-unchanged", lambda s: ns(s.self.current_time) == ns(s.old(s.self).current_time))]})

cls(EventProvider, fields={})
cls(SimpleEventProvider, fields={"_target": Ref(Entity), "_event_type": Str, "_stop_after": Opt(TIME),
                                 "_context_fn": Opt(Fn(Map(Str, Any), "context_fn")), "_generated": Int})
cls(SourceEvent, fields={})
cls(Source, fields={"_event_provider": Ref(EventProvider), "_time_provider": Ref(ArrivalTimeProvider), "_generated_count": Int},
    const=["_event_provider", "_time_provider"])


def all_of(clauses):
    out = True
    for c in clauses:
        out = out & c
    return out


def _all_not_before(lst, t_ns):
    return forall(Int, lambda j: implies((0 <= j) & (j < slen(lst)), mk_bool(
        z3.Select(_time_ns_array(), seq_term(lst)[j.t]) >= num(t_ns))), "j")


class _FewEvents:
    """result type of the EventProvider.get_events stub: a plain list of 0, 1 or 2 arbitrary events (the source
    star-unpacks the list, which needs a concrete length; the library's providers return at most one event)"""

    @staticmethod
    def fresh(name):
        n = Int.fresh(name + "_len")
        if n <= 0:
            return []
        if n == 1:
            return [Ref(Event).fresh(name + "_0")]
        return [Ref(Event).fresh(name + "_0"), Ref(Event).fresh(name + "_1")]


stub_of(EventProvider, "get_events", args={"time": TIME}, returns=_FewEvents, modifies=[],
        ensures=[lambda s: all_of([ns(e.time) >= ns(s.time) for e in s.result])])
fn(SimpleEventProvider, "get_events", args={"time": TIME}, requires=[("no-context-callback", lambda s: s.self._context_fn is None)],
   ensures=[("payload-stamped-with-the-tick-time", lambda s: all_of([ns(e.time) == ns(s.time) for e in s.result])),
            ("at-most-one-payload", lambda s: len(s.result) <= 1)])

_TICK_ENSURES = [("payloads-and-next-tick-not-in-the-past", result_not_in_past)]
fn(Source, "handle_event", args={"event": Ref(Event, variants=[SourceEvent])},
   requires=[ENTERED_AT_EVENT_TIME,
             ("driven-by-its-own-tick", lambda s: ns(s.self._time_provider.current_time) == ns(s.event.time)),
             ("constant-rate-path", lambda s: s.self._time_provider._is_constant_rate),
             ("time-nonneg", lambda s: now_ns(s.self) >= 0)],
   uses=[(EventProvider, "get_events"), (ArrivalTimeProvider, "next_arrival_time")],
   focus=lambda s: [s.self._time_provider], ensures=_TICK_ENSURES)
fn(Source, "start", args={"start_time": TIME},
   requires=[("constant-rate-path", lambda s: s.self._time_provider._is_constant_rate),
             ("started-at-the-clock", lambda s: ns(s.start_time) == now_ns(s.self)), ("time-nonneg", lambda s: ns(s.start_time) >= 0)],
   uses=[(ArrivalTimeProvider, "next_arrival_time")], focus=lambda s: [s.self._time_provider],
   ensures=[("first-tick-not-before-the-start", result_not_in_past)])

# ---- bounded native stand-ins for code outside the engine's reach ------------------------------------------------------
def _tcp_standin(seed, tier):
    """TCPConnection.send: random.random(), int() of the float window, a nested `for` with a suspension and a non-linear
    RTT keep it out of reach; seeded configurations run through the public API in a clean interpreter"""
    return run_native_script("triage/c07_bounded.py", "tcp", 60 if tier == "quick" else 3000, seed,
                             timeout=200 if tier == "quick" else 3000)


def _profile_standin(seed, tier):
    """the profile path of ArrivalTimeProvider.next_arrival_time (adaptive Simpson + brentq)"""
    return run_native_script("triage/c07_bounded.py", "profile", 3 if tier == "quick" else 40, seed)


PROPERTY.setdefault("bounded", [])
PROPERTY["bounded"].append({"name": "tcp-send-progress",
                            "bound": "60 (quick) / 3000 (thorough) seeded configurations: 3 congestion controls x loss 0..0.9 x "
                                     "1 B..500 kB x cwnd 1..64 x base RTT 0..50 ms x RTO 0..1 s; transfer finishes, nothing "
                                     "discarded as time travel, 8 s wall watchdog per case",
                            "fn": _tcp_standin})
PROPERTY["bounded"].append({"name": "source-profile-path",
                            "bound": "3 (quick) / 40 (thorough) seeded ramp / spike profiles, Poisson and constant arrivals, 1.5 s "
                                     "simulated (15 s wall per case): ticks never go back, nothing discarded as time travel, at most "
                                     "5000 arrivals per instant",
                            "fn": _profile_standin})

# ============================================================================ 4. self-rescheduling daemons
# A periodic daemon re-arms its own tick at now + period: with period == 0 the tick is re-delivered at the same instant
# forever (native survey of every periodic component: triage/c07_daemon_intervals.py - 14 components accepted 0 and spun).
# Certificate: the constructor refuses a non-positive period (`if <param> <= 0: raise ValueError`), so the re-armed tick
# is strictly later (clock-now(+offset) sites of part 1 with offset > 0).  One obligation per (class, parameter) from the
# syntactic check c07_scan.ctor_rejects_nonpositive.  Rows marked repair=True are validated only by
# fixes/C07_daemon-interval-validation.diff: they are obligations once the constructor carries the check (per-row source
# test), and are listed as open findings in evidence until then.
from specs.c07_scan import ctor_rejects_nonpositive as _rejects  # noqa: E402

PERIODIC = [   # (file under happysimulator/, class, constructor parameter, needs the repair?)
    ("components/scheduling/job_scheduler.py", "JobScheduler", "tick_interval", False),
    ("components/microservice/outbox_relay.py", "OutboxRelay", "poll_interval", False),
    ("components/microservice/idempotency_store.py", "IdempotencyStore", "cleanup_interval", False),
    ("components/load_balancer/health_check.py", "HealthChecker", "interval", False),
    ("instrumentation/probe.py", "_ProbeProfile", "interval_seconds", False),
    ("components/resilience/hedge.py", "Hedge", "hedge_delay", False),
    ("components/client/connection_pool.py", "ConnectionPool", "idle_timeout", False),
    ("components/client/connection_pool.py", "ConnectionPool", "connection_timeout", False),
    ("components/infrastructure/cpu_scheduler.py", "FairShare", "quantum_s", False),
    ("components/infrastructure/cpu_scheduler.py", "PriorityPreemptive", "quantum_s", False),
    ("components/advertising.py", "Advertiser", "evaluation_interval", True),
    ("components/consensus/flexible_paxos.py", "FlexiblePaxosNode", "heartbeat_interval", True),
    ("components/consensus/leader_election.py", "LeaderElection", "election_timeout", True),
    ("components/consensus/leader_election.py", "LeaderElection", "heartbeat_interval", True),
    ("components/consensus/membership.py", "MembershipProtocol", "probe_interval", True),
    ("components/consensus/raft.py", "RaftNode", "heartbeat_interval", True),
    ("components/consensus/raft.py", "RaftNode", "election_timeout_min", True),
    ("components/deployment/auto_scaler.py", "AutoScaler", "evaluation_interval", True),
    ("components/deployment/canary_deployer.py", "CanaryDeployer", "evaluation_interval", True),
    ("components/industrial/perishable_inventory.py", "PerishableInventory", "spoilage_check_interval_s", True),
    ("components/industrial/breakdown.py", "BreakdownScheduler", "mean_time_to_failure", True),
    ("components/industrial/breakdown.py", "BreakdownScheduler", "mean_repair_time", True),
    ("components/infrastructure/garbage_collector.py", "ConcurrentGC", "interval_s", True),
    ("components/streaming/event_log.py", "EventLog", "retention_check_interval", True),
    ("components/streaming/stream_processor.py", "StreamProcessor", "watermark_interval_s", True),
]
_PERIODIC_ROWS = [(f, k, p, repair, _rejects(_REPO, f, k, p)) for f, k, p, repair in PERIODIC]
PROPERTY["scan"]["periodic_daemons"] = {
    "validated_at_construction": [f"{k}.{p}" for f, k, p, repair, ok in _PERIODIC_ROWS if ok],
    "open_findings_accept_zero_and_spin (fixes/C07_daemon-interval-validation.diff)":
        [f"{f}: {k}.{p}" for f, k, p, repair, ok in _PERIODIC_ROWS if repair and not ok],
    "zero_means_disabled (guard `<= 0` at the first tick, no obligation)":
        ["Agent.heartbeat_interval", "CRDTStore.gossip_interval", "LeaderNode.anti_entropy_interval"],
    "survey": "triage/c07_daemon_intervals.py",
}
PROPERTY["assumptions"] += [
    "the table PERIODIC of self-rescheduling daemons (class, period parameter) comes from the native survey "
    "triage/c07_daemon_intervals.py and is trusted to be complete; periods below 1 ns (accepted by every `<= 0` check, "
    "truncated to 0 ns by the engine) are outside the modelled configurations",
]


def _periodic_lemma():
    for f, k, p, repair, ok in _PERIODIC_ROWS:
        if repair and not ok:
            continue                    # open finding (reported): becomes an obligation with the repair
        period = fresh(Real, "period_s")
        constructed = fresh(Bool, "constructor_returned")
        if ok:
            assume(implies(constructed, period > 0))        # `if <param> <= 0: raise ValueError` in __init__
        now0 = fresh(Int, "clock_at_tick")
        assume(constructed)
        # the re-armed tick: now + period, with a positive period at least one clock tick later (assumption above)
        oblige(f"{k}.{p}: re-armed tick strictly later", now0 + ite(period > 0, 1, 0) > now0)


lemma("daemons.period-validated-at-construction", _periodic_lemma)

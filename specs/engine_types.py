"""Shared typing of the engine core (Event with possibly-infinite time, EventHeap as a multiset
ordered by the event key, Clock, counters).  Declarations only - no verification tasks; the
contracts themselves are proved in specs/C01.py.  Import after every loop()/ghost() declaration."""
import sys

from pyvc.spec import *
from specs.common import *  # noqa: F401,F403
from happysimulator.core.temporal import _InfiniteInstant
from happysimulator.core.event_heap import EventHeap
from happysimulator.core.event import ProcessContinuation

cls(Event, fields={"time": INSTANT})
cls(Clock, fields={"_current_time": INSTANT})
I_DT = INSTANT.dt


def is_inf(t):
    return isinstance(t, _InfiniteInstant)


def wf_instant(t):
    return True if not is_inf(t) else t.nanoseconds == MAXSIZE


def spec_lt(a, b):
    """Infinity is greater than every finite instant and not less than itself"""
    if is_inf(a):
        return False
    if is_inf(b):
        return True
    return a.nanoseconds < b.nanoseconds


def spec_eq(a, b):
    if is_inf(a) or is_inf(b):
        return is_inf(a) and is_inf(b)
    return a.nanoseconds == b.nanoseconds


same_instant = spec_eq


def key_lt_terms(ta, ia, tb, ib):
    """(time, index) lexicographic on raw terms: ta/tb Instant datatype values"""
    inf_a, inf_b = I_DT.tag(ta) == 1, I_DT.tag(tb) == 1
    tlt = z3.And(z3.Not(inf_a), z3.Or(inf_b, I_DT.nanoseconds(ta) < I_DT.nanoseconds(tb)))
    teq = z3.Or(z3.And(inf_a, inf_b), z3.And(z3.Not(inf_a), z3.Not(inf_b), I_DT.nanoseconds(ta) == I_DT.nanoseconds(tb)))
    return z3.Or(tlt, z3.And(teq, ia < ib))


def event_key_lt(a, b, state=None):
    """spec order of two Event references in a heap state (raw terms, no forks); Event.__lt__ is
    proved equal to it in specs/C01.py"""
    return key_lt_terms(field_term(a, "time", state), field_term(a, "_sort_index", state),
                        field_term(b, "time", state), field_term(b, "_sort_index", state))


def _heap_lt(a, b):
    return event_key_lt(ObjProxy(a, Event), ObjProxy(b, Event))


EHEAP = Bag(Ref(Event), _heap_lt)


class SymCounter:
    """itertools.count with a symbolic next value stored at a location (trusted: next() returns
    the stored value and stores value + 1)"""

    def __init__(self, loc):
        self.loc = loc

    @property
    def n(self):
        return mk_num(self.loc.get())

    def __next__(self):
        v = self.loc.get()
        self.loc.set(z3.simplify(v + 1))
        return mk_num(v)

    def __iter__(self):
        return self


class _CounterTy(T.Ty):
    name = "Counter"

    def sort(self):
        return z3.IntSort()

    def wrap(self, term, loc=None):
        from pyvc.heap import Box
        return SymCounter(loc if loc is not None else Box(term))

    def unwrap(self, v):
        if isinstance(v, SymCounter):
            return v.loc.get()
        raise OutOfReach(f"{type(v).__name__} stored where an itertools.count is declared")


COUNTER = _CounterTy()
cls(EventHeap, fields={"_primary_event_count": Int, "_current_time": INSTANT, "_heap": EHEAP, "_tracing_enabled": Bool,
                       "_trace": Any, "_event_counter": COUNTER},
    const=["_trace", "_tracing_enabled"])


def hcnt(o):
    """multiset view of an EventHeap: Array(Ref -> occurrences)"""
    return EHEAP.dt.cnt(o._heap.term)


ENGINE_FRAME = [  # what opaque user code (handlers, hooks) may not write: DESIGN 2.6
    ("Clock", "_current_time"), ("EventHeap", "_heap"), ("EventHeap", "_primary_event_count"),
    ("EventHeap", "_current_time"), ("EventHeap", "_tracing_enabled"), ("EventHeap", "_trace")]

"""C03 - the same model and seeds give the same run, every time and in every process.

Non-interference: every decision the library takes must be a function of the model and its seeds only,
never of the ENVIRONMENT of the interpreter:
    H  - the per-process hash seed (PYTHONHASHSEED): builtin hash() of str/bytes and the enumeration
         order of sets of such values,
    C0 - the value of the global event counter left behind by earlier activity in the process,
    id(), wall-clock reads, uuid, os.urandom.

A. relational (two-run) contracts: a driver defined in THIS module runs the real function twice on the
   same arguments, once under environment 1 and once under environment 2 (`enter_env`), and the
   postcondition demands equal results.  hash() of a symbolic str is the uninterpreted function
   py_hash_str(hash seed of the current environment, value) (pyvc/rt.py), so a function that lets it reach
   its result cannot be proved equal under two seeds.  hashlib / struct / repr are deterministic
   (uninterpreted) functions of their arguments - they do not read the environment.
B. the index source: creation order == index order for two events of one model, whatever the global
   counter held before the model was built (reset_event_counter / _next_sort_index / Event.__init__ /
   Simulation.__init__).
C. a library-wide reads-frame scan (plain AST pass, level "other"): every read of an environment source
   in happysimulator/{core,components,load,distributions,sketching,faults,parallel} is listed and
   classified; a site whose value can reach an event time, a selection among entities/events, the order
   of an emitted list or a statistics field is a named obligation.
"""
from pyvc.spec import *

# (no loop contracts: the placement functions are straight-line or run on concrete-length rings)
from specs.common import *  # noqa: E402,F401

import happysimulator.sketching.count_min_sketch as cms_mod  # noqa: E402
import happysimulator.sketching.bloom_filter as bloom_mod  # noqa: E402
import happysimulator.sketching.hyperloglog as hll_mod  # noqa: E402
from happysimulator.sketching.count_min_sketch import CountMinSketch  # noqa: E402
from happysimulator.sketching.bloom_filter import BloomFilter  # noqa: E402
from happysimulator.sketching.hyperloglog import HyperLogLog  # noqa: E402

PROPERTY = {
    "id": "C03",
    "level": "proof",
    "trusted": ["heap typing of the fields declared in specs/C03.py and specs/common.py",
                "itertools.count.__next__ returns the previous value + 1 (SymCounter)",
                "CPython: hash(int) == sign(x) * (|x| mod (2**61 - 1)), -1 mapped to -2 (pyvc/rt.py hash_)"],
    "assumptions": COMMON_ASSUMPTIONS + [
        "environment model: builtin hash() of a str / bytes value is an arbitrary function of (the process hash seed, "
        "the value) - two environments may or may not agree on any value; hash(int) does not read the environment",
        "hashlib.sha256/md5, struct.pack/unpack and repr() of str/int are deterministic functions of their arguments "
        "(uninterpreted; spec-local models _DetHashlib/_DetStruct/_det_repr patched into the sketch modules); a '>Q' "
        "unpack of 8 digest bytes is an int in [0, 2**64)",
    ],
}

ME = "specs.C03"


# ================================================================================ the environment
def _ctx_cur():
    from pyvc import ctx as _c
    return _c.cur()


def G(name):
    return _ctx_cur().ghost_args[name]


def _setup_envs(s):
    """two environments: hash seeds H1, H2 (unconstrained: equal or different)"""
    c = _ctx_cur()
    c.ghost_args["env_hash_seeds"] = (c.fresh("H1", z3.IntSort()), c.fresh("H2", z3.IntSort()))
    c.ghost_args["hash_seed"] = c.ghost_args["env_hash_seeds"][0]
    return []


def enter_env(k):
    """from here on the code runs in environment k (1 or 2)"""
    c = _ctx_cur()
    c.ghost_args["hash_seed"] = c.ghost_args["env_hash_seeds"][k - 1]


# ---- deterministic models of hashlib / struct / repr (do not read the environment) ----------------
_S, _I = z3.StringSort(), z3.IntSort()
_UF = {}


def _uf(name, *sorts):
    if name not in _UF:
        _UF[name] = z3.Function(name, *sorts)
    return _UF[name]


def _bytes_term(data):
    from pyvc.sym import SymBytes, SymStr
    if isinstance(data, (SymBytes, SymStr)):
        return data.t
    if isinstance(data, (bytes, bytearray)):
        return z3.StringVal(bytes(data).decode("latin-1"))
    raise OutOfReach(f"hash input of type {type(data).__name__}")


class _DetDigest:
    """digest of algorithm `algo` over the byte string `t`; slices and int() reads are uninterpreted functions of it"""

    def __init__(self, algo, t, lo=0):
        self.algo, self.t, self.lo = algo, t, lo

    def __getitem__(self, sl):
        return _DetDigest(self.algo, self.t, sl.start or 0)

    def u64(self):
        v = _uf(f"{self.algo}_u64", _S, _I, _I)(self.t, z3.IntVal(self.lo))
        _ctx_cur().assume(z3.And(v >= 0, v < (1 << 64)))
        return mk_num(v)

    def __sym_int__(self):           # int(hexdigest, 16)
        v = _uf(f"{self.algo}_int", _S, _I)(self.t)
        _ctx_cur().assume(v >= 0)
        return mk_num(v)


class _DetHasher:
    def __init__(self, algo, data=b""):
        self.algo, self.t = algo, _bytes_term(data)

    def update(self, data):
        self.t = z3.Concat(self.t, _bytes_term(data))

    def digest(self):
        return _DetDigest(self.algo, z3.simplify(self.t))

    hexdigest = digest


class _DetHashlib:
    @staticmethod
    def sha256(data=b""):
        return _DetHasher("sha256", data)

    @staticmethod
    def md5(data=b""):
        return _DetHasher("md5", data)


class _DetStruct:
    @staticmethod
    def pack(fmt, *args):
        from pyvc.sym import SymBytes
        assert fmt in (">Q", ">QQ"), fmt
        f = _uf("struct_pack_" + fmt.strip(">"), *([_I] * len(args) + [_S]))
        return SymBytes(f(*[num(a) for a in args]))

    @staticmethod
    def unpack(fmt, data):
        assert fmt == ">Q" and isinstance(data, _DetDigest), (fmt, data)
        return (data.u64(),)


def _det_repr(x):
    from pyvc.sym import SymStr, SymInt
    if isinstance(x, SymStr):
        return SymStr(_uf("repr_str", _S, _S)(x.t))
    if isinstance(x, SymInt):
        return SymStr(_uf("repr_int", _I, _S)(x.t))
    return repr(x)


_DET = (("hashlib", _DetHashlib), ("struct", _DetStruct), ("repr", _det_repr))


def _env_task(mods):
    """setup/teardown pair: two environments + the deterministic models patched into `mods`"""
    saved = []

    def setup(s):
        for m in mods:
            for k, v in _DET:
                saved.append((m, k, k in m.__dict__, m.__dict__.get(k)))
                m.__dict__[k] = v
        return _setup_envs(s)

    def teardown(s):
        while saved:
            m, k, had, v = saved.pop()
            if had:
                m.__dict__[k] = v
            else:
                m.__dict__.pop(k, None)
    return {"setup": setup, "teardown": teardown}


def same_in_both(s):
    """the relational postcondition: the run under environment 1 and the run under environment 2 agree"""
    a, b = s.result
    return a == b


# ================================================================================ A1. sketch hash functions
cls(CountMinSketch, fields={"_width": Int, "_depth": Int, "_seed": Int, "_hash_seeds": Seq(Int), "_total_count": Int},
    const=["_width", "_depth", "_seed", "_hash_seeds"],
    inv=[("dimensions", lambda o: (o._width >= 1) & (o._depth >= 1)),
         ("one-hash-seed-per-row", lambda o: slen(o._hash_seeds) == o._depth)])
cls(BloomFilter, fields={"_size_bits": Int, "_num_hashes": Int, "_seed": Int},
    const=["_size_bits", "_num_hashes", "_seed"],
    inv=[("dimensions", lambda o: (o._size_bits >= 1) & (o._num_hashes >= 1) & (o._seed >= 0))])
cls(HyperLogLog, fields={"_precision": Int, "_seed": Int}, const=["_precision", "_seed"],
    inv=[("seed-nonneg", lambda o: o._seed >= 0)])


def cms_hash_twice(sk, item, row):
    enter_env(1)
    a = sk._hash(item, row)
    enter_env(2)
    b = sk._hash(item, row)
    return a, b


def cms_seeds_twice(sk):
    enter_env(1)
    a = sk._generate_hash_seeds()
    enter_env(2)
    b = sk._generate_hash_seeds()
    return a, b


def bloom_hash_twice(bf, item, i):
    enter_env(1)
    a = bf._hash(item, i)
    enter_env(2)
    b = bf._hash(item, i)
    return a, b


def hll_hash_twice(h, item):
    enter_env(1)
    a = h._hash(item)
    enter_env(2)
    b = h._hash(item)
    return a, b


_ROW_OK = [lambda s: (0 <= s.row) & (s.row < s.sk._depth)]
for _label, _ty in (("str-item", Str), ("int-item", Int)):
    fn(ME, "cms_hash_twice", kind="function", label=_label, args={"sk": Ref(CountMinSketch), "item": _ty, "row": Int},
       requires=_ROW_OK, ensures=[("column-independent-of-hash-seed", same_in_both),
                                  ("column-in-range", lambda s: (0 <= s.result[0]) & (s.result[0] < s.sk._width)),
                                  ("pure", lambda s: unchanged(s, s.sk))], **_env_task([cms_mod]))
    fn(ME, "bloom_hash_twice", kind="function", label=_label, args={"bf": Ref(BloomFilter), "item": _ty, "i": Int},
       requires=[lambda s: s.i >= 0],
       ensures=[("bit-index-independent-of-hash-seed", same_in_both),
                ("bit-index-in-range", lambda s: (0 <= s.result[0]) & (s.result[0] < s.bf._size_bits)),
                ("pure", lambda s: unchanged(s, s.bf))], **_env_task([bloom_mod]))
    fn(ME, "hll_hash_twice", kind="function", label=_label, args={"h": Ref(HyperLogLog), "item": _ty},
       ensures=[("hash-independent-of-hash-seed", same_in_both),
                ("hash-is-u64", lambda s: (0 <= s.result[0]) & (s.result[0] < (1 << 64))),
                ("pure", lambda s: unchanged(s, s.h))], **_env_task([hll_mod]))


def _same_lists(a, b):
    return (len(a) == len(b)) and all_of(*[x == y for x, y in zip(a, b)])


fn(ME, "cms_seeds_twice", kind="function", args={"sk": Ref(CountMinSketch)}, requires=[lambda s: s.sk._depth <= 3],
   ensures=[("row-seeds-independent-of-environment", lambda s: _same_lists(*s.result)),
            ("one-seed-per-row", lambda s: s.sk._depth == len(s.result[0])),
            ("pure", lambda s: unchanged(s, s.sk))], **_env_task([cms_mod]))

# ================================================================================ A2. placement functions
import happysimulator.components.datastore.sharded_store as shard_mod  # noqa: E402
import happysimulator.components.load_balancer.strategies as lb_mod  # noqa: E402
import happysimulator.components.streaming.event_log as elog_mod  # noqa: E402
from happysimulator.components.datastore.sharded_store import HashSharding  # noqa: E402
from happysimulator.components.load_balancer.strategies import IPHash, ConsistentHash  # noqa: E402
from happysimulator.components.streaming.event_log import EventLog  # noqa: E402

cls(HashSharding, fields={})
cls(EventLog, fields={"_num_partitions": Int, "_sharding": Ref(HashSharding)}, const=["_num_partitions", "_sharding"],
    inv=[("has-partitions", lambda o: o._num_partitions >= 1)])
cls(IPHash, fields={"_get_key": Fn(Str, "get_key")}, const=["_get_key"])
cls(ConsistentHash, fields={"_virtual_nodes": Int})


def hash_shard_twice(sh, key, num_shards):
    enter_env(1)
    a = sh.get_shard(key, num_shards)
    enter_env(2)
    b = sh.get_shard(key, num_shards)
    return a, b


def partition_for_key_twice(log, key):
    enter_env(1)
    a = log._get_partition_for_key(key)
    enter_env(2)
    b = log._get_partition_for_key(key)
    return a, b


def ring_hash_twice(lb, key):
    enter_env(1)
    a = lb._hash(key)
    enter_env(2)
    b = lb._hash(key)
    return a, b


def ip_hash_select_twice(lb, backends, request):
    enter_env(1)
    a = lb.select(backends, request)
    enter_env(2)
    b = lb.select(backends, request)
    return a, b


fn(ME, "hash_shard_twice", kind="function", args={"sh": Ref(HashSharding), "key": Str, "num_shards": Int},
   requires=[lambda s: s.num_shards >= 1],
   ensures=[("shard-independent-of-hash-seed", same_in_both),
            ("shard-in-range", lambda s: (0 <= s.result[0]) & (s.result[0] < s.num_shards))], **_env_task([shard_mod]))
fn(ME, "partition_for_key_twice", kind="function", args={"log": Ref(EventLog), "key": Str},
   ensures=[("partition-independent-of-hash-seed", same_in_both),
            ("partition-in-range", lambda s: (0 <= s.result[0]) & (s.result[0] < s.log._num_partitions)),
            ("pure", lambda s: unchanged(s, s.log))], **_env_task([shard_mod, elog_mod]))
fn(ME, "ring_hash_twice", kind="function", args={"lb": Ref(ConsistentHash), "key": Str},
   ensures=[("ring-position-independent-of-hash-seed", same_in_both)], **_env_task([lb_mod]))


from happysimulator.components.datastore.sharded_store import RangeSharding  # noqa: E402

cls(RangeSharding, fields={"_boundaries": Seq(Str)})


def range_shard_twice(sh, key, num_shards):
    enter_env(1)
    a = sh.get_shard(key, num_shards)
    enter_env(2)
    b = sh.get_shard(key, num_shards)
    return a, b


def _range_env():
    d = _env_task([shard_mod])
    base = d["setup"]

    def setup(s):
        s.sh._boundaries = [fresh(Str, "boundary0"), fresh(Str, "boundary1"), fresh(Str, "boundary2")]
        return base(s)
    d["setup"] = setup
    return d


# (explicit boundaries, three of them: the alphabetical fallback indexes into the key string - not modelled)
fn(ME, "range_shard_twice", kind="function", label="three-boundaries", args={"sh": Ref(RangeSharding), "key": Str, "num_shards": Int},
   ensures=[("shard-independent-of-hash-seed", same_in_both),
            ("first-boundary-above-the-key", lambda s: (0 <= s.result[0]) & (s.result[0] <= 3))], **_range_env())


def _ip_hash_env():
    d = _env_task([lb_mod])
    base = d["setup"]

    def setup(s):
        # the user's key extractor is part of the model: a deterministic function of the request
        k = fresh(Str, "client_key")
        s.lb._get_key = lambda request: k
        return base(s)
    d["setup"] = setup
    return d


fn(ME, "ip_hash_select_twice", kind="function",
   args={"lb": Ref(IPHash), "backends": Seq(Ref(Entity)), "request": Ref(Event)},
   ensures=[("backend-independent-of-hash-seed", lambda s: same(s.result[0], s.result[1])),
            ("none-only-without-backends", lambda s: iff(s.result[0] is None, slen(s.backends) == 0))], **_ip_hash_env())

# ================================================================================ A3. eviction victims
# The enumeration order of a set of str is hash-randomised: list(<set of str>) is modelled as the uninterpreted
# sequence enum_order(hash seed, set value); sorted(<set of str>) as sorted_order(set value) (no environment).
# The policy's own seeded generator is part of the model ("seeds"): in the same generator state,
# Random.choice(seq) returns seq[randbelow(len(seq))] with randbelow a fixed function of its argument.
import random as _random  # noqa: E402
import happysimulator.components.datastore.eviction_policies as evict_mod  # noqa: E402
from happysimulator.components.datastore.eviction_policies import RandomEviction  # noqa: E402

SSET = Set(Str)
cls(_random.Random, fields={}).alloc = False
cls(RandomEviction, fields={"_keys": SSET, "_rng": Ref(_random.Random)}, const=["_rng"])


def _is_str_set(x):
    return isinstance(x, SymSet) and x._ty.elem is Str


class _SetListing:
    """a list made from a set of str: length = size of the set, element k = at(k) (an uninterpreted function of the
    set value, the position and - for list(), not for sorted() - the hash seed); a member of the set"""

    def __init__(self, sset, seed):
        sset._ty.assume_wf(sset.term)
        self.set_term, self.seed, self.ty = sset.term, seed, sset._ty

    def __sym_len__(self):
        return mk_num(self.ty.dt.size(self.set_term))

    def at(self, k):
        from pyvc.sym import SymStr
        if self.seed is None:
            e = _uf("sorted_order_at", SSET.sort(), _I, _S)(self.set_term, k)
        else:
            e = _uf("enum_order_at", _I, SSET.sort(), _I, _S)(self.seed, self.set_term, k)
        _ctx_cur().assume(z3.Implies(z3.And(k >= 0, k < self.ty.dt.size(self.set_term)),
                                     z3.Select(self.ty.dt.dom(self.set_term), e)))
        return SymStr(e)


def _env_list(x=()):
    from pyvc import rt
    if _is_str_set(x):
        return _SetListing(x, rt.hash_seed_term())
    return rt.list_(x)


def _env_sorted(x, key=None, reverse=False):
    from pyvc import rt
    if _is_str_set(x) and key is None and not reverse:
        return _SetListing(x, None)
    return rt.sorted_(x, key=key, reverse=reverse)


def _model_choice(self, seq):
    n = num(slen(seq))
    k = _uf("rng_randbelow", _I, _I)(n)
    _ctx_cur().assume(z3.And(k >= 0, k < n))
    return seq.at(k) if isinstance(seq, _SetListing) else seq[mk_num(k)]


def _evict_env():
    saved = []

    def setup(s):
        for k, v in (("list", _env_list), ("sorted", _env_sorted)):
            saved.append((evict_mod.__dict__, k, evict_mod.__dict__.get(k)))
            evict_mod.__dict__[k] = v
        saved.append((None, "choice", _random.Random.choice))
        _random.Random.choice = _model_choice
        return _setup_envs(s)

    def teardown(s):
        while saved:
            d, k, v = saved.pop()
            if d is None:
                _random.Random.choice = v
            else:
                d[k] = v
    return {"setup": setup, "teardown": teardown}


def random_evict_twice(pol):
    keys0 = pol._keys.copy()
    enter_env(1)
    a = pol.evict()
    pol._keys = keys0           # the same policy state again (the generator state is the same by _model_choice)
    enter_env(2)
    b = pol.evict()
    return a, b


def _same_victim(s):
    a, b = s.result
    if a is None or b is None:
        return a is None and b is None
    return a == b


fn(ME, "random_evict_twice", kind="function", args={"pol": Ref(RandomEviction)}, **_evict_env(), ensures=[
    ("victim-independent-of-hash-seed", _same_victim),
    ("none-only-when-empty", lambda s: iff(s.result[0] is None, slen(s.old(s.pol)._keys) == 0))])

# TTLEviction built WITHOUT clock_func: environment symbol `wall` (time.time() returns an arbitrary non-decreasing
# reading, unrelated between the two environments).  KNOWN DEFECT on the pinned tree (default clock is time.time; no
# small safe repair: the policy has no access to the simulation clock).
from happysimulator.components.datastore.eviction_policies import TTLEviction  # noqa: E402

cls(TTLEviction, fields={"_ttl": Real, "_clock_func": Fn(Real, "clock"), "_insert_times": Map(Str, Real, ordered=True)})


class _WallClock:
    """stand-in for the `time` module: every read is a fresh real >= the previous read of this environment"""

    def __init__(self, k):
        self.k, self.last = k, None

    def time(self):
        v = fresh(Real, f"wall{self.k}")
        if self.last is not None:
            assume(v >= self.last)
        self.last = v
        return v


def ttl_default_clock_evict_twice(ttl):
    """model: p = TTLEviction(ttl); insert a, b, then a again; evict - what is the victim?"""
    out = []
    for k in (1, 2):
        evict_mod.__dict__["time"] = _WallClock(k)
        p = TTLEviction(ttl)
        p.on_insert("a")
        p.on_insert("b")
        p.on_insert("a")
        out.append(p.evict())
    return out


def _wall_env():
    saved = []

    def setup(s):
        saved.append(evict_mod.__dict__.get("time"))
        return []

    def teardown(s):
        while saved:
            evict_mod.__dict__["time"] = saved.pop()
    return {"setup": setup, "teardown": teardown}


fn(ME, "ttl_default_clock_evict_twice", kind="function", args={"ttl": Real}, requires=[lambda s: s.ttl > 0], **_wall_env(),
   ensures=[("victim-independent-of-wall-clock", lambda s: s.result[0] == s.result[1])])


def ttl_model_clock_evict_twice(ttl, t0, t1, t2, t3):
    """the same scenario with clock_func given by the model (e.g. the simulation clock): its four readings t0..t3 are
    the same in both environments, whatever the wall clock does"""
    out = []
    for k in (1, 2):
        evict_mod.__dict__["time"] = _WallClock(k)
        readings = iter([t0, t1, t2, t3])
        p = TTLEviction(ttl, lambda: next(readings))
        p.on_insert("a")
        p.on_insert("b")
        p.on_insert("a")
        out.append(p.evict())
    return out


fn(ME, "ttl_model_clock_evict_twice", kind="function", args={"ttl": Real, "t0": Real, "t1": Real, "t2": Real, "t3": Real},
   requires=[lambda s: (s.ttl > 0) & (s.t0 <= s.t1) & (s.t1 <= s.t2) & (s.t2 <= s.t3)], **_wall_env(),
   ensures=[("victim-independent-of-wall-clock", lambda s: s.result[0] == s.result[1])])

# the lists of dirty keys handed out by the write-back machinery (the order in which write-backs are issued)
import happysimulator.components.datastore.write_policies as wpol_mod  # noqa: E402
import happysimulator.components.datastore.cached_store as cstore_mod  # noqa: E402
from happysimulator.components.datastore.write_policies import WriteBack  # noqa: E402
from happysimulator.components.datastore.cached_store import CachedStore  # noqa: E402

cls(WriteBack, fields={"_max_dirty": Int, "_dirty_keys": SSET})
cls(CachedStore, fields={"_dirty_keys": SSET})


def keys_to_flush_twice(wb):
    enter_env(1)
    a = wb.get_keys_to_flush()
    enter_env(2)
    b = wb.get_keys_to_flush()
    return a, b


def dirty_keys_twice(cs):
    enter_env(1)
    a = cs.get_dirty_keys()
    enter_env(2)
    b = cs.get_dirty_keys()
    return a, b


def _same_listing(s):
    a, b = s.result
    if not (isinstance(a, _SetListing) and isinstance(b, _SetListing)):
        raise OutOfReach("listing of dirty keys is not built by list()/sorted() of the set")
    return (slen(a) == slen(b)) & forall(Int, lambda k: implies((0 <= k) & (k < slen(a)), a.at(k.t) == b.at(k.t)))


def _listing_env(mod):
    saved = []

    def setup(s):
        for k, v in (("list", _env_list), ("sorted", _env_sorted)):
            saved.append((k, mod.__dict__.get(k)))
            mod.__dict__[k] = v
        return _setup_envs(s)

    def teardown(s):
        while saved:
            k, v = saved.pop()
            mod.__dict__[k] = v
    return {"setup": setup, "teardown": teardown}


fn(ME, "keys_to_flush_twice", kind="function", args={"wb": Ref(WriteBack)}, **_listing_env(wpol_mod), ensures=[
    ("flush-order-independent-of-hash-seed", _same_listing), ("pure", lambda s: unchanged(s, s.wb))])
fn(ME, "dirty_keys_twice", kind="function", args={"cs": Ref(CachedStore)}, **_listing_env(cstore_mod), ensures=[
    ("listing-order-independent-of-hash-seed", _same_listing), ("pure", lambda s: unchanged(s, s.cs))])

# ================================================================================ B. the index source
# Environment symbol C0: the next value of the module-global event counter when the model starts to be
# built (left behind by whatever ran earlier in the interpreter).  From the statement: the delivery
# order of one model - hence, for events with equal timestamps, the ORDER of their creation indices -
# must not depend on C0.  Together with C01's FIFO clause: index order == creation order.
from happysimulator.core import event as event_mod  # noqa: E402
from happysimulator.core import sim_future as sim_future_mod  # noqa: E402
from happysimulator.core.event_heap import EventHeap  # noqa: E402
from happysimulator.core.simulation import Simulation  # noqa: E402


class SymCounter:
    """itertools.count with a symbolic next value stored at a location (trusted: next() returns the
    stored value and stores value + 1)"""

    def __init__(self, loc):
        self.loc = loc

    @property
    def n(self):
        return mk_num(self.loc.get())

    def __next__(self):
        v = self.loc.get()
        self.loc.set(z3.simplify(v + 1))
        return mk_num(v)

    def __iter__(self):
        return self


def _mk_count(start=0):
    from pyvc.heap import Box
    from pyvc.sym import num_term
    return SymCounter(Box(num_term(start)[0]))


def _sym_count(name):
    from pyvc.heap import Box
    v = fresh(Int, name)
    assume(v >= 0)
    return SymCounter(Box(v.t))


class _CounterTy(T.Ty):
    name = "Counter"

    def sort(self):
        return z3.IntSort()

    def wrap(self, term, loc=None):
        from pyvc.heap import Box
        return SymCounter(loc if loc is not None else Box(term))

    def unwrap(self, v):
        if isinstance(v, SymCounter):
            return v.loc.get()
        raise OutOfReach(f"{type(v).__name__} stored where an itertools.count is declared")


COUNTER = _CounterTy()
_SAVED = {}


def _counter_env(active):
    """environment: the global counter holds an arbitrary C0 >= 0 (two of them, for two-run drivers: `g1`, `g2`);
    `count` of both engine modules builds symbolic counters; no run context unless `active`"""
    def setup(s):
        c = _ctx_cur()
        g1, g2 = _sym_count("C0_env1"), _sym_count("C0_env2")
        c.ghost_args.update(g1=g1, g2=g2, g1_0=g1.n, g2_0=g2.n)
        _SAVED.update(g=event_mod._global_event_counter, cnt_ev=event_mod.count, cnt_sf=sim_future_mod.count, tok=[])
        event_mod._global_event_counter = g1
        event_mod.count = _mk_count
        sim_future_mod.count = _mk_count
        if active:
            h = _sym_count("H_run")
            c.ghost_args.update(h=h, h0=h.n)
            _SAVED["tok"].append((event_mod._active_counter_var, event_mod._active_counter_var.set(h)))
        else:
            _SAVED["tok"].append((event_mod._active_counter_var, event_mod._active_counter_var.set(None)))
        _SAVED["tok"].append((sim_future_mod._active_heap_var, sim_future_mod._active_heap_var.set(None)))
        _SAVED["tok"].append((sim_future_mod._active_clock_var, sim_future_mod._active_clock_var.set(None)))
        return []
    return setup


def _counter_teardown(s):
    if "g" in _SAVED:
        event_mod._global_event_counter = _SAVED.pop("g")
        event_mod.count = _SAVED.pop("cnt_ev")
        sim_future_mod.count = _SAVED.pop("cnt_sf")
        for var, tok in reversed(_SAVED.pop("tok")):
            var.reset(tok)


def enter_counter_env(k):
    """the interpreter state left by earlier activity, variant k: global counter at C0_env<k>"""
    from pyvc.heap import Box
    g = G("g1") if k == 1 else G("g2")
    event_mod._global_event_counter = SymCounter(Box(G(f"g{k}_0").t))
    return g


EV = "happysimulator.core.event"
_CENV = {"setup": _counter_env(False), "teardown": _counter_teardown}
_CENV_RUN = {"setup": _counter_env(True), "teardown": _counter_teardown}

# (i) what Simulation.__init__ relies on: after the reset the source is at 0, whatever it held
fn(EV, "reset_event_counter", kind="function", **_CENV,
   ensures=[("source-restarts-at-zero-whatever-it-held", lambda s: event_mod._global_event_counter.n == 0)])

fn(EV, "_next_sort_index", kind="function", label="no-run-context", **_CENV,
   ensures=[("hands-out-the-counter-value", lambda s: s.result == G("g1_0")),
            ("source-advances-by-one", lambda s: event_mod._global_event_counter.n == G("g1_0") + 1)])
fn(EV, "_next_sort_index", kind="function", label="in-run-context", **_CENV_RUN,
   ensures=[("reads-only-the-run-counter", lambda s: s.result == G("h0")),
            ("global-counter-untouched", lambda s: event_mod._global_event_counter.n == G("g1_0")),
            ("run-counter-advances-by-one", lambda s: event_mod._active_counter_var.get().n == G("h0") + 1)])


def _sign_eq(a1, b1, a2, b2):
    """sign(a1 - b1) == sign(a2 - b2)"""
    return iff(a1 < b1, a2 < b2) & iff(a1 == b1, a2 == b2)


def two_indices_after_reset_twice():
    """both events created after the model's Simulation(...) was constructed"""
    out = []
    for k in (1, 2):
        enter_counter_env(k)
        event_mod.reset_event_counter()
        a = event_mod._next_sort_index()
        b = event_mod._next_sort_index()
        out.append((a, b))
    return out


_TIE_POST = [("tie-order-independent-of-earlier-activity", lambda s: _sign_eq(*s.result[0], *s.result[1]))]
_PAIR_POST = _TIE_POST + [
    ("creation-order-is-index-order", lambda s: (s.result[0][0] < s.result[0][1]) & (s.result[1][0] < s.result[1][1]))]
# (helper fact of the present design, from the code: after an explicit reset the indices themselves - not only
# their order - are environment-free; the statement only needs the order)
fn(ME, "two_indices_after_reset_twice", kind="function", **_CENV, ensures=_PAIR_POST + [
    ("indices-restart-at-zero", lambda s: (s.result[0][0] == s.result[1][0]) & (s.result[0][1] == s.result[1][1]))])


# the same two scenarios through the real constructor Simulation.__init__ (empty model: no sources/probes)
def event_before_and_after_simulation_twice(time, event_type, target):
    """the model: `pre = Event(...); sim = Simulation(); post = Event(...)` (both handed to sim.schedule later);
    returns the creation indices of (pre, post) under the two environments"""
    out = []
    for k in (1, 2):
        enter_counter_env(k)
        pre = Event(time, event_type, target)
        Simulation()
        post = Event(time, event_type, target)
        out.append((pre._sort_index, post._sort_index))
    return out


def two_events_after_simulation_twice(time, event_type, target):
    out = []
    for k in (1, 2):
        enter_counter_env(k)
        Simulation()
        e1 = Event(time, event_type, target)
        e2 = Event(time, event_type, target)
        out.append((e1._sort_index, e2._sort_index))
    return out


_EV_ARGS = {"time": TIME, "event_type": Str, "target": Ref(Entity)}
fn(ME, "two_events_after_simulation_twice", kind="function", args=_EV_ARGS, **_CENV, ensures=_PAIR_POST)
# KNOWN DEFECT on the pinned tree (no small safe repair: dropping the reset breaks 4 existing tests): the event
# built before Simulation(...) keeps an index of the previous counter epoch (C0), the later one restarts at 0.
fn(ME, "event_before_and_after_simulation_twice", kind="function", args=_EV_ARGS, **_CENV, ensures=_TIE_POST)


def events_around_the_run_boundary_twice(time, event_type, target):
    """model: sim = Simulation(); e1 scheduled before run(); e2 created by a handler inside run(); e3 created
    after run() returned (e.g. scheduled for a second run() call)"""
    out = []
    for k in (1, 2):
        enter_counter_env(k)
        sim = Simulation()
        e1 = Event(time, event_type, target)
        sim_future_mod._set_active_context(sim._event_heap, sim._clock)
        e2 = Event(time, event_type, target)
        sim_future_mod._clear_active_context()
        e3 = Event(time, event_type, target)
        out.append((e1._sort_index, e2._sort_index, e3._sort_index))
    return out


fn(ME, "events_around_the_run_boundary_twice", kind="function", args=_EV_ARGS, **_CENV, ensures=[
    ("tie-order-independent-of-earlier-activity", lambda s: _sign_eq(s.result[0][0], s.result[0][1], s.result[1][0], s.result[1][1])
     & _sign_eq(s.result[0][1], s.result[0][2], s.result[1][1], s.result[1][2])
     & _sign_eq(s.result[0][0], s.result[0][2], s.result[1][0], s.result[1][2])),
    ("creation-order-is-index-order", lambda s: all_of(*[(r[0] < r[1]) & (r[1] < r[2]) for r in s.result]))])

# Event.__init__: the delivery-relevant fields are the arguments; the only environment read is ONE value of the
# index source
ctor(Event, args=_EV_ARGS, **_CENV, ensures=[
    ("index-is-the-next-source-value", lambda s: s.self._sort_index == G("g1_0")),
    ("one-index-per-event", lambda s: event_mod._global_event_counter.n == G("g1_0") + 1),
    ("delivery-fields-are-the-arguments", lambda s: (ns(s.self.time) == ns(s.time)) & (s.self.event_type == s.event_type)
     & same(s.self.target, s.target) & Not(s.self._cancelled) & Not(s.self.daemon))])

# ---- lemmas: from the per-function contracts to "same delivery order" (induction steps; the induction over
# deliveries itself is composed on paper)


def _same_heap_order():
    # two runs; events a, b (run 1) correspond to a', b' (run 2): equal timestamps (times are functions of the model:
    # no environment read reaches a time - scan) and equal SIGN of the index difference (part B).  Then the heap key
    # order (time, index) of the pair is the same in both runs, so both heaps pop corresponding events.
    ta, tb = fresh(Int, "ta"), fresh(Int, "tb")
    ia, ib, ja, jb = fresh(Int, "ia"), fresh(Int, "ib"), fresh(Int, "ja"), fresh(Int, "jb")
    assume(_sign_eq(ia, ib, ja, jb))
    lt1 = (ta < tb) | ((ta == tb) & (ia < ib))
    lt2 = (ta < tb) | ((ta == tb) & (ja < jb))
    oblige("same-times-and-same-index-order-give-the-same-heap-order", iff(lt1, lt2))
    oblige("and-the-same-ties", iff((ta == tb) & (ia == ib), (ta == tb) & (ja == jb)))


def _epoch_shift():
    # _next_sort_index hands out consecutive values of ONE counter (contracts above): within one counter epoch the
    # k-th and the m-th index are c + k and c + m, whatever the start value c is in the two environments
    c1, c2, k, m = fresh(Int, "c1"), fresh(Int, "c2"), fresh(Int, "k"), fresh(Int, "m")
    oblige("index-order-within-an-epoch-is-creation-order-in-every-environment", _sign_eq(c1 + k, c1 + m, c2 + k, c2 + m))
    oblige("creation-order", implies(k < m, (c1 + k < c1 + m) & (c2 + k < c2 + m)))


lemma("same-index-order-gives-same-delivery-order", _same_heap_order)
lemma("index-order-is-invariant-under-the-counter-start", _epoch_shift)

# ================================================================================ C. library-wide reads-frame scan
# A plain AST pass (no SMT; evidence level "other").  SOURCES (reads of the environment):
#   hash         builtin hash(x)                         id       builtin id(x)
#   wallclock    time.time/monotonic/perf_counter/..., datetime.now (calls AND bare references such as `f or time.time`)
#   uuid         uuid.uuid1/uuid4                        os-entropy   os.urandom, secrets.*, random.SystemRandom
#   set-order    an order-sensitive use of a set (for / list() / tuple() / enumerate / iter / zip / join / *args /
#                set.pop() / list.extend / comprehension not consumed by any,all,sum,len,set,frozenset,min,max,sorted /
#                min,max,sorted WITH key=): the enumeration order of a set of str (PYTHONHASHSEED) or of objects
#                hashed by address (id) is not a function of the model
#   thread-schedule   ThreadPoolExecutor / ProcessPoolExecutor / as_completed
#   unseeded-rng      random.Random() / numpy default_rng() / RandomState() called without any argument
#   process-state     a class-level mutable container (list/dict/set/deque literal in the class body) mutated in place by a
#                     method and never rebound per instance: one object for the whole interpreter
#   process-memo      @functools.lru_cache / @functools.cache on a function whose key parameters are not all annotated
#                     int/str/bytes/bool: an interpreter-wide table that earlier simulations fill and later ones read
# Set-typed expressions are inferred from annotations (`set[...]`, `dict[..., set[...]]`, parameters, returns,
# properties) and from initialisers (`set()`, `{..}`, set comprehension, `defaultdict(set)`); `self.X` is resolved in the
# class (and its library base classes), other receivers by attribute name across the library (over-approximation).
# Sets annotated `set[int]` are skipped (hash(int) and hence their enumeration order is a function of the insertion
# history).  NOT detected: sets that reach a function through an un-annotated parameter or container element.
# Every site must be classified in SCAN_CLASSIFICATION below: "ok" (with the reason why its value cannot reach an
# event time, a selection among entities/events, the order of an emitted list or a statistics field) or "reaches".
# A reaching site and an unclassified site are violations (named `scan:<file>:<function>:<kind>`).
import ast as _ast  # noqa: E402
import os as _os  # noqa: E402

SCAN_PACKAGES = ("core", "components", "load", "distributions", "sketching", "faults", "parallel")
_WALL = {"time", "monotonic", "perf_counter", "time_ns", "monotonic_ns", "perf_counter_ns", "process_time", "process_time_ns"}
_ORDER_FREE = {"any", "all", "set", "frozenset", "sum", "len", "min", "max", "sorted"}
_ENV_MODULES = ("time", "uuid", "os", "secrets", "datetime", "random", "concurrent.futures", "numpy", "numpy.random")


def _ann_kind(a):
    """'set:<elem>' / 'dictset:<elem>' / None for an annotation node"""
    try:
        t = _ast.unparse(a)
    except Exception:      # noqa: BLE001
        return None
    t = t.replace("typing.", "").replace(" ", "").strip("'\"")
    for p in ("set[", "Set[", "frozenset[", "FrozenSet[", "MutableSet[", "AbstractSet["):
        if t.startswith(p):
            return "set:" + t[len(p):-1]
    if t in ("set", "frozenset", "Set"):
        return "set:?"
    if t.startswith(("dict[", "Dict[", "defaultdict[", "DefaultDict[")):
        for p in ("set[", "Set["):
            if p in t:
                return "dictset:" + t[t.index(p) + 4:].split("]")[0]
    return None


def _val_kind(v):
    if isinstance(v, (_ast.Set, _ast.SetComp)):
        return "set:?"
    if isinstance(v, _ast.Call) and isinstance(v.func, _ast.Name):
        if v.func.id in ("set", "frozenset"):
            return "set:?"
        if v.func.id == "defaultdict" and v.args and isinstance(v.args[0], _ast.Name) and v.args[0].id in ("set", "frozenset"):
            return "dictset:?"
    return None


class _ModuleScan(_ast.NodeVisitor):
    def __init__(self, rel, tree, attr_kinds, class_kinds, ret_kinds):
        self.rel = rel
        self.attr_kinds, self.class_kinds, self.ret_kinds = attr_kinds, class_kinds, ret_kinds
        self.alias, self.stack, self.cls_stack, self.locals, self.sites = {}, [], [], [{}], []
        self.parents = {}
        for p in _ast.walk(tree):
            for ch in _ast.iter_child_nodes(p):
                self.parents[ch] = p

    def site(self, kind, node, detail=""):
        self.sites.append({"file": self.rel, "function": ".".join(self.stack) or "<module>", "kind": kind,
                           "line": node.lineno, "code": _ast.unparse(node)[:110], "detail": detail})

    # ---- which expressions are sets
    def attr_kind(self, e):
        if isinstance(e.value, _ast.Name) and e.value.id == "self" and self.cls_stack:
            seen, todo, known = set(), [self.cls_stack[-1]], False
            while todo:
                c = todo.pop()
                if c in seen or c not in self.class_kinds:
                    continue
                seen.add(c)
                known = True
                ck = self.class_kinds[c]
                if e.attr in ck["attrs"]:
                    return ck["attrs"][e.attr]
                todo.extend(ck["bases"])
            if known:
                return None
        return self.attr_kinds.get(e.attr) or self.ret_kinds.get("@" + e.attr)

    def dict_kind(self, e):
        k = None
        if isinstance(e, _ast.Name):
            k = next((sc[e.id] for sc in reversed(self.locals) if e.id in sc), None)
        elif isinstance(e, _ast.Attribute):
            k = self.attr_kind(e)
        return k if k and k.startswith("dictset") else None

    def kind_of(self, e):
        k = self._kind_of(e)
        return k if k and k.startswith("set:") else None

    def _kind_of(self, e):
        if isinstance(e, _ast.Name):
            return next((sc[e.id] for sc in reversed(self.locals) if e.id in sc), None)
        if isinstance(e, _ast.Attribute):
            return self.attr_kind(e)
        if isinstance(e, (_ast.Set, _ast.SetComp)):
            return "set:?"
        if isinstance(e, _ast.Call):
            f = e.func
            if isinstance(f, _ast.Name):
                if f.id in ("set", "frozenset"):
                    return (self.kind_of(e.args[0]) if e.args else None) or "set:?"
                return self.ret_kinds.get(f.id)
            if isinstance(f, _ast.Attribute):
                if f.attr in ("union", "intersection", "difference", "symmetric_difference", "copy"):
                    return self.kind_of(f.value)
                if f.attr in ("get", "setdefault", "pop"):
                    dk = self.dict_kind(f.value)
                    if dk:
                        return "set:" + dk.split(":", 1)[1]
                    return self.kind_of(e.args[1]) if len(e.args) > 1 else None
                if f.attr not in ("keys", "values", "items"):
                    return self.ret_kinds.get(f.attr)
            return None
        if isinstance(e, _ast.BinOp) and isinstance(e.op, (_ast.BitOr, _ast.BitAnd, _ast.Sub, _ast.BitXor)):
            return self.kind_of(e.left) or self.kind_of(e.right)
        if isinstance(e, _ast.Subscript):
            dk = self.dict_kind(e.value)
            return ("set:" + dk.split(":", 1)[1]) if dk else None
        if isinstance(e, _ast.IfExp):
            return self.kind_of(e.body) or self.kind_of(e.orelse)
        return None

    @staticmethod
    def _int_set(k):
        return k is not None and k.split(":", 1)[1] in ("int", "bool")

    def set_site(self, node, k, how=""):
        if k and not self._int_set(k):
            self.site("set-order", node, (k + " " + how).strip())

    # ---- imports / scopes
    def visit_Import(self, n):
        for a in n.names:
            if a.name in _ENV_MODULES:
                self.alias[a.asname or a.name] = (a.name, None)

    def visit_ImportFrom(self, n):
        if n.module in _ENV_MODULES:
            for a in n.names:
                self.alias[a.asname or a.name] = (n.module, a.name)

    def _func(self, n):
        self.stack.append(n.name)
        # process-memo: functools.lru_cache / functools.cache keep a table for the life of the interpreter, shared by
        # every simulation, looked up by == / hash of the arguments.  Unless every key parameter is annotated with one of
        # the exact types int/str/bytes/bool (for which equal keys are indistinguishable to the function), an entry left
        # by EARLIER activity can answer for an equal-but-different argument (1 == 1.0 == True, (1, 5) == (1, 5.0),
        # Decimal(2) == 2.0): the result then depends on what ran before.
        for d in n.decorator_list:
            f = d.func if isinstance(d, _ast.Call) else d
            name = f.attr if isinstance(f, _ast.Attribute) else (f.id if isinstance(f, _ast.Name) else "")
            if name in ("lru_cache", "cache"):
                params = [a for a in n.args.posonlyargs + n.args.args + n.args.kwonlyargs if a.arg not in ("self", "cls")]
                exact = all(a.annotation is not None and _ast.unparse(a.annotation).strip("'\"") in ("int", "str", "bytes", "bool")
                            for a in params)
                if not exact or n.args.vararg or n.args.kwarg:
                    self.site("process-memo", n, "memo table shared by all simulations, keyed by == of "
                              + ", ".join(a.arg for a in params))
        sc = {}
        for a in n.args.posonlyargs + n.args.args + n.args.kwonlyargs:
            k = _ann_kind(a.annotation) if a.annotation is not None else None
            if k:
                sc[a.arg] = k
        self.locals.append(sc)
        self.generic_visit(n)
        self.locals.pop()
        self.stack.pop()

    visit_FunctionDef = visit_AsyncFunctionDef = _func

    def visit_ClassDef(self, n):
        self.stack.append(n.name)
        self.cls_stack.append(n.name)
        self._process_state_sites(n)
        self.generic_visit(n)
        self.cls_stack.pop()
        self.stack.pop()

    # process-state: a CLASS-LEVEL mutable container (list/dict/set/deque/... initialiser in the class body) that some
    # method mutates in place through self / cls / the class name, and that no method rebinds per instance: one object
    # shared by every instance in the interpreter, i.e. state that earlier simulations leave behind for later ones
    _MUTATORS = {"append", "extend", "pop", "popleft", "appendleft", "add", "update", "clear", "insert", "remove", "discard",
                 "setdefault", "popitem", "sort", "reverse"}

    def _process_state_sites(self, cnode):
        shared = {}
        for st in cnode.body:
            tgt = val = None
            if isinstance(st, _ast.Assign) and len(st.targets) == 1 and isinstance(st.targets[0], _ast.Name):
                tgt, val = st.targets[0].id, st.value
            elif isinstance(st, _ast.AnnAssign) and isinstance(st.target, _ast.Name) and st.value is not None:
                tgt, val = st.target.id, st.value
            if tgt is None:
                continue
            mutable = isinstance(val, (_ast.List, _ast.Dict, _ast.Set, _ast.ListComp, _ast.DictComp, _ast.SetComp)) or (
                isinstance(val, _ast.Call) and isinstance(val.func, _ast.Name)
                and val.func.id in ("list", "dict", "set", "deque", "defaultdict", "OrderedDict", "Counter", "bytearray"))
            if mutable:
                shared[tgt] = st
        if not shared:
            return
        owners = {"self", "cls", cnode.name}
        rebound, mutated = set(), {}
        for fn_ in _ast.walk(cnode):
            if not isinstance(fn_, (_ast.FunctionDef, _ast.AsyncFunctionDef)):
                continue
            for x in _ast.walk(fn_):
                def is_attr(e):
                    return (isinstance(e, _ast.Attribute) and isinstance(e.value, _ast.Name) and e.value.id in owners
                            and e.attr in shared)
                if isinstance(x, (_ast.Assign, _ast.AnnAssign, _ast.AugAssign)):
                    for t in (x.targets if isinstance(x, _ast.Assign) else [x.target]):
                        if is_attr(t) and t.value.id == "self" and not isinstance(x, _ast.AugAssign):
                            rebound.add(t.attr)
                        if isinstance(t, _ast.Subscript) and is_attr(t.value):
                            mutated.setdefault(t.value.attr, (fn_, x))
                        if isinstance(x, _ast.AugAssign) and is_attr(t):
                            mutated.setdefault(t.attr, (fn_, x))
                elif isinstance(x, _ast.Delete):
                    for t in x.targets:
                        if isinstance(t, _ast.Subscript) and is_attr(t.value):
                            mutated.setdefault(t.value.attr, (fn_, x))
                elif isinstance(x, _ast.Call) and isinstance(x.func, _ast.Attribute) and x.func.attr in self._MUTATORS \
                        and is_attr(x.func.value):
                    mutated.setdefault(x.func.value.attr, (fn_, x))
        for name, (fn_, x) in mutated.items():
            if name in rebound:
                continue
            self.stack.append(fn_.name)
            self.site("process-state", x, f"class-level mutable `{name}` of {cnode.name} shared by every instance and mutated in place")
            self.stack.pop()

    def visit_Assign(self, n):
        k = _val_kind(n.value) or self._kind_of(n.value)
        if k:
            for t in n.targets:
                if isinstance(t, _ast.Name):
                    self.locals[-1][t.id] = k
        self.generic_visit(n)

    def visit_AnnAssign(self, n):
        k = _ann_kind(n.annotation) or (n.value is not None and (_val_kind(n.value) or self._kind_of(n.value))) or None
        if k and isinstance(n.target, _ast.Name):
            self.locals[-1][n.target.id] = k
        self.generic_visit(n)

    # ---- primitive sources
    def _source(self, e):
        mod = sub = attr = None
        if isinstance(e, _ast.Attribute) and isinstance(e.value, _ast.Name) and e.value.id in self.alias:
            (mod, sub), attr = self.alias[e.value.id], e.attr
        elif isinstance(e, _ast.Attribute) and isinstance(e.value, _ast.Attribute) and isinstance(e.value.value, _ast.Name) \
                and self.alias.get(e.value.value.id) == ("datetime", None):
            mod, sub, attr = "datetime", e.value.attr, e.attr
        elif isinstance(e, _ast.Name) and e.id in self.alias and self.alias[e.id][1] is not None:
            mod, attr = self.alias[e.id]
            sub = None
        else:
            return None
        if mod == "datetime":
            return "wallclock" if attr in ("now", "utcnow", "today") and sub in ("datetime", "date") else None
        if sub is not None:
            return None
        if mod == "time" and attr in _WALL:
            return "wallclock"
        if mod == "uuid" and attr in ("uuid1", "uuid4"):
            return "uuid"
        if (mod == "os" and attr in ("urandom", "getpid", "getrandom")) or mod == "secrets" or (mod == "random" and attr == "SystemRandom"):
            return "os-entropy"
        if mod == "concurrent.futures" and attr in ("ThreadPoolExecutor", "ProcessPoolExecutor", "as_completed"):
            return "thread-schedule"
        return None

    def _source_site(self, n):
        k = self._source(n)
        if k:
            par = self.parents.get(n)
            called = isinstance(par, _ast.Call) and par.func is n
            self.site(k, par if called else n, "" if called else "reference (called elsewhere)")

    def visit_Attribute(self, n):
        self._source_site(n)
        self.generic_visit(n)

    def visit_Name(self, n):
        if isinstance(n.ctx, _ast.Load):
            self._source_site(n)

    def _is_rng_ctor(self, f):
        if isinstance(f, _ast.Name):
            return self.alias.get(f.id) in (("random", "Random"), ("numpy.random", "default_rng"), ("numpy.random", "RandomState"))
        if isinstance(f, _ast.Attribute) and isinstance(f.value, _ast.Name):
            return (self.alias.get(f.value.id) == ("random", None) and f.attr == "Random") or \
                (self.alias.get(f.value.id) in (("numpy.random", None), ("numpy", "random")) and f.attr in ("default_rng", "RandomState"))
        if isinstance(f, _ast.Attribute) and isinstance(f.value, _ast.Attribute) and isinstance(f.value.value, _ast.Name):
            return self.alias.get(f.value.value.id) == ("numpy", None) and f.value.attr == "random" and f.attr in ("default_rng", "RandomState")
        return False

    def visit_Call(self, n):
        f = n.func
        keyed = any(kw.arg == "key" for kw in n.keywords)
        if not n.args and not n.keywords and self._is_rng_ctor(f):
            self.site("unseeded-rng", n, "generator seeded from OS entropy")
        if isinstance(f, _ast.Name):
            if f.id in ("hash", "id") and len(n.args) == 1 and not n.keywords:
                self.site(f.id, n)
            elif f.id in ("list", "tuple", "enumerate", "iter", "zip", "reversed", "next"):
                for a in n.args:
                    self.set_site(n, self.kind_of(a), f"({f.id})")
            elif f.id in ("min", "max", "sorted") and n.args and keyed:
                self.set_site(n, self.kind_of(n.args[0]), f"({f.id} with key=: ties are broken by enumeration order)")
        elif isinstance(f, _ast.Attribute):
            if f.attr == "pop" and not n.args:
                self.set_site(n, self.kind_of(f.value), "(set.pop() returns an arbitrary element)")
            elif f.attr in ("join", "extend", "choice", "sample", "shuffle") and n.args:
                self.set_site(n, self.kind_of(n.args[0]), f"(.{f.attr})")
        for a in n.args:
            if isinstance(a, _ast.Starred):
                self.set_site(n, self.kind_of(a.value), "(*args)")
        self.generic_visit(n)

    def visit_For(self, n):
        self.set_site(n.iter, self.kind_of(n.iter), "(for loop)")
        it = n.iter
        if isinstance(it, _ast.Call) and isinstance(it.func, _ast.Attribute) and it.func.attr in ("items", "values"):
            dk = self.dict_kind(it.func.value)
            if dk:
                tgt = n.target
                v = tgt.elts[1] if (it.func.attr == "items" and isinstance(tgt, _ast.Tuple) and len(tgt.elts) == 2) else tgt
                if isinstance(v, _ast.Name):
                    self.locals[-1][v.id] = "set:" + dk.split(":", 1)[1]
        self.generic_visit(n)

    def _comp(self, n):
        par = self.parents.get(n)
        order_free = isinstance(n, _ast.SetComp) or (
            isinstance(par, _ast.Call) and isinstance(par.func, _ast.Name) and par.func.id in _ORDER_FREE and par.args
            and par.args[0] is n and not (par.func.id in ("min", "max", "sorted") and any(kw.arg == "key" for kw in par.keywords)))
        if not order_free:
            for g in n.generators:
                self.set_site(g.iter, self.kind_of(g.iter), f"({type(n).__name__})")
        self.generic_visit(n)

    visit_ListComp = visit_GeneratorExp = visit_DictComp = visit_SetComp = _comp


def _collect_kinds(trees):
    """(attribute name -> kind), (class -> own attribute kinds + bases), (function name / '@property name' -> returned set kind)"""
    by_name, classes, rets = {}, {}, {}

    def target_kind(n):
        if isinstance(n, _ast.AnnAssign):
            return n.target, (_ann_kind(n.annotation) or (_val_kind(n.value) if n.value is not None else None)), True
        if isinstance(n, _ast.Assign) and len(n.targets) == 1:
            return n.targets[0], _val_kind(n.value), False
        return None, None, False

    for _rel, t in trees:
        for n in _ast.walk(t):
            if isinstance(n, (_ast.FunctionDef, _ast.AsyncFunctionDef)) and n.returns is not None:
                k = _ann_kind(n.returns)
                if k and k.startswith("set:"):
                    is_prop = any(_ast.unparse(d) in ("property", "cached_property", "functools.cached_property") for d in n.decorator_list)
                    rets[("@" if is_prop else "") + n.name] = k
            tgt, k, annotated = target_kind(n)
            if k and tgt is not None:
                name = tgt.attr if isinstance(tgt, _ast.Attribute) else (tgt.id if isinstance(tgt, _ast.Name) and annotated else None)
                if name and (name not in by_name or by_name[name].endswith("?")):
                    by_name[name] = k
            if isinstance(n, _ast.ClassDef):
                attrs = {}
                for m in _ast.walk(n):
                    tgt, k, annotated = target_kind(m)
                    if not k:
                        continue
                    if isinstance(tgt, _ast.Attribute) and isinstance(tgt.value, _ast.Name) and tgt.value.id == "self":
                        name = tgt.attr
                    elif isinstance(tgt, _ast.Name) and annotated and m in n.body:
                        name = tgt.id
                    else:
                        continue
                    if name not in attrs or attrs[name].endswith("?"):
                        attrs[name] = k
                for m in n.body:
                    if isinstance(m, _ast.FunctionDef) and m.returns is not None and _ann_kind(m.returns) and \
                            any(_ast.unparse(d) in ("property", "cached_property") for d in m.decorator_list):
                        attrs.setdefault(m.name, _ann_kind(m.returns))
                bases = [b.id if isinstance(b, _ast.Name) else getattr(b, "attr", "") for b in n.bases]
                classes[n.name] = {"attrs": attrs, "bases": bases}
    return by_name, classes, rets


def scan_library(root=None):
    """-> (sites, number of functions, number of files)"""
    from pyvc.ctx import REPO
    base = _os.path.join(root or REPO, "happysimulator")
    trees = []
    for pkg in SCAN_PACKAGES:
        for dp, _dn, fns in _os.walk(_os.path.join(base, pkg)):
            for f in fns:
                if f.endswith(".py"):
                    p = _os.path.join(dp, f)
                    with open(p) as fh:
                        trees.append((_os.path.relpath(p, base), _ast.parse(fh.read())))
    trees.sort(key=lambda x: x[0])
    by_name, classes, rets = _collect_kinds(trees)
    sites, nfun = [], 0
    for rel, t in trees:
        nfun += sum(isinstance(n, (_ast.FunctionDef, _ast.AsyncFunctionDef)) for n in _ast.walk(t))
        ms = _ModuleScan(rel, t, by_name, classes, rets)
        ms.visit(t)
        sites.extend(ms.sites)
    return sites, nfun, len(trees)


_WALL_ONLY = ("feeds only wall-clock bookkeeping of the run (wall_clock_seconds, per-partition wall times, speedup / barrier "
              "overhead, control-surface state) - never a simulation time, a selection, an emitted order or a component statistic")
_ID_KEY = ("id() is the identity key of entity -> partition dicts / entity-id sets that are only probed (lookup, membership); "
           "none of these containers is enumerated in an order-sensitive way (the scan reports no set-order site in parallel/)")
_INT_HASH = "hash of an int / float field: CPython computes it from the value alone (no hash randomisation)"
_UUID_KEY = ("the uuid only names the object: it keys insertion-ordered dicts / membership sets that are never enumerated and "
             "rides in event context; it is never compared for order and selects nothing")
_ORDER_FREE_LOOP = "the loop body only accumulates with and/or over all elements (all_leq / any_lt): its result is symmetric in the enumeration"
_THREADS = ("worker completion order only decides the order in which per-partition wall times / summaries are stored in dicts keyed "
            "by partition name (mapping equality is order-insensitive; sums are over ints, max over floats); each partition runs "
            "its own event loop with its own run-context index counter")

# verdict "ok": the value cannot reach a sink;  "reaches": it can (a violation of the property on this tree)
SCAN_CLASSIFICATION = {
    # ---- reaching sites (each confirmed natively: findings/c03_hash_seed.py)
    "sketching/count_min_sketch.py:CountMinSketch._hash:hash": (
        "reaches", "hash(item) of a str item selects the counter column: table layout and estimates (statistics) vary with PYTHONHASHSEED"),
    "components/datastore/eviction_policies.py:RandomEviction.evict:set-order": (
        "reaches", "rng.choice(list(<set of str>)): the victim (a selection) is the k-th element of a hash-ordered listing"),
    "components/datastore/cached_store.py:CachedStore.flush:set-order": (
        "reaches", "write-backs are issued (time, key) in set enumeration order: order of emitted backing-store writes"),
    "components/datastore/cached_store.py:CachedStore.invalidate_all:set-order": (
        "reaches", "put_sync of the dirty entries in set enumeration order: insertion order of the backing store's dict (observable via keys())"),
    "components/datastore/cached_store.py:CachedStore.get_dirty_keys:set-order": (
        "reaches", "returns list(<set of str>): order of an emitted list"),
    "components/datastore/write_policies.py:WriteBack.get_keys_to_flush:set-order": (
        "reaches", "returns list(<set of str>) - the order in which the caller flushes: order of an emitted list"),
    "components/datastore/eviction_policies.py:TTLEviction.__init__:wallclock": (
        "reaches", "default clock_func is time.time: insert stamps and expiry tests of a TTLEviction built without clock_func read the "
                   "wall clock, so the eviction victim (a selection) depends on host speed"),
    # ---- hash
    "core/event.py:Event.__hash__:hash": ("ok", _INT_HASH),
    "core/temporal.py:Duration.__hash__:hash": ("ok", _INT_HASH),
    "core/temporal.py:Instant.__hash__:hash": ("ok", _INT_HASH),
    "core/temporal.py:_InfiniteInstant.__hash__:hash": ("ok", _INT_HASH + " (the constant float('inf'))"),
    "core/logical_clocks.py:HLCTimestamp.__hash__:hash": (
        "ok", "the tuple contains a str (node_id), so the VALUE is hash-seed dependent, but __hash__ only places the timestamp in "
              "dict/set buckets; dicts are insertion-ordered and every order-sensitive use of a set is a separate set-order site"),
    # ---- set enumeration
    "components/load_balancer/strategies.py:ConsistentHash._rebuild_ring:set-order": (
        "ok", "each iteration removes the ring points and the _backends entry of ONE stale name (order-preserving filter of the "
              "ring list, dict delete): the removals commute, the final ring and dict do not depend on the enumeration"),
    "components/replication/conflict_resolver.py:_vc_dominates:set-order": ("ok", _ORDER_FREE_LOOP),
    "components/replication/multi_leader.py:_vc_dominates:set-order": ("ok", _ORDER_FREE_LOOP),
    "core/logical_clocks.py:VectorClock.happened_before:set-order": (
        "ok", _ORDER_FREE_LOOP + " (proved by PyVC in set mode - arbitrary enumeration - in specs/C18.py)"),
    # ---- uuid
    "components/messaging/message_queue.py:MessageQueue.publish:uuid": ("ok", _UUID_KEY),
    "core/control/control.py:SimulationControl.add_breakpoint:uuid": ("ok", _UUID_KEY),
    "core/control/control.py:SimulationControl.on_event:uuid": ("ok", _UUID_KEY),
    "core/control/control.py:SimulationControl.on_time_advance:uuid": ("ok", _UUID_KEY),
    # ---- wall clock
    "core/control/control.py:SimulationControl.get_state:wallclock": ("ok", _WALL_ONLY),
    "core/simulation.py:Simulation.run:wallclock": ("ok", _WALL_ONLY),
    "core/simulation.py:Simulation._run_window:wallclock": ("ok", _WALL_ONLY),
    "core/simulation.py:Simulation._build_summary:wallclock": (
        "ok", _WALL_ONLY + " (events_per_second divides by SIMULATED duration, not by wall time)"),
    "parallel/coordinator.py:WindowedCoordinator.run:wallclock": ("ok", _WALL_ONLY),
    "parallel/coordinator.py:WindowedCoordinator._run_partition_window:wallclock": ("ok", _WALL_ONLY),
    "parallel/simulation.py:ParallelSimulation._run_independent:wallclock": ("ok", _WALL_ONLY),
    "parallel/simulation.py:ParallelSimulation._run_independent.run_one:wallclock": ("ok", _WALL_ONLY),
    # ---- generators seeded from OS entropy
    "components/behavior/social_network.py:SocialGraph.random_erdos_renyi:unseeded-rng": (
        "ok", "fallback of the optional `rng` parameter: a model that fixes its seeds passes a seeded generator (configuration assumption)"),
    "components/behavior/social_network.py:SocialGraph.small_world:unseeded-rng": (
        "ok", "fallback of the optional `rng` parameter: a model that fixes its seeds passes a seeded generator (configuration assumption)"),
    # ---- threads / processes
    "parallel/coordinator.py:WindowedCoordinator.run:thread-schedule": ("ok", _THREADS),
    "parallel/simulation.py:ParallelSimulation._run_independent:thread-schedule": ("ok", _THREADS),
    "parallel/runner.py:ParallelRunner.run_sweep:thread-schedule": (
        "ok", "independent simulations in worker processes; results are collected by submission index, not by completion order"),
    # ---- id()
    "parallel/coordinator.py:WindowedCoordinator._exchange_events:id": ("ok", _ID_KEY),
    "parallel/routing.py:make_event_router.route:id": ("ok", _ID_KEY),
    "parallel/simulation.py:ParallelSimulation._install_routers:id": ("ok", _ID_KEY),
    "parallel/simulation.py:ParallelSimulation._run_coordinated:id": ("ok", _ID_KEY),
    "parallel/validation.py:validate_partitions:id": ("ok", _ID_KEY),
    "parallel/validation.py:_check_entity_ref:id": ("ok", _ID_KEY),
    "parallel/validation.py:build_entity_sets:id": ("ok", _ID_KEY),
}


def reads_frame_scan(seed=0, tier="quick"):
    sites, nfun, nfiles = scan_library()
    report, violations, seen = [], [], set()
    for st in sites:
        key = f'{st["file"]}:{st["function"]}:{st["kind"]}'
        verdict, why = SCAN_CLASSIFICATION.get(key, ("unclassified", "environment read that specs/C03.py does not classify yet"))
        report.append(dict(st, obligation="scan:" + key, verdict=verdict, why=why))
        if verdict != "ok" and key not in seen:
            seen.add(key)
            violations.append({"case": "scan:" + key, "verdict": verdict, "site": f'{st["file"]}:{st["line"]}', "code": st["code"],
                               "why": why})
    kinds = {}
    for r in report:
        kinds[r["kind"]] = kinds.get(r["kind"], 0) + 1
    return {"evaluations": nfun, "violations": violations,
            "scan": {"level": "other", "method": "AST reads-frame inference (no SMT)", "packages": list(SCAN_PACKAGES),
                     "files": nfiles, "functions": nfun, "sites": len(report), "sites_by_kind": kinds,
                     "reaching_or_unclassified": [v["case"] for v in violations], "site_list": report}}


PROPERTY["scan"] = {"name": "reads-frame-scan", "level": "other",
                    "what": "every read of an environment source (hash, id, wall clock, uuid, os entropy, set enumeration order, "
                            "thread schedule) in happysimulator/{" + ",".join(SCAN_PACKAGES) + "} is listed and classified; "
                            "sites that reach an event time / a selection / an emitted order / a statistic are violations"}
PROPERTY["bounded"] = [{"name": "reads-frame-scan", "bound": "whole library, syntactic (AST) - level other, not a proof",
                        "fn": reads_frame_scan}]
PROPERTY["assumptions"] += [
    "enumeration order of a set of str is an arbitrary function of (hash seed, set value) [list()], sorted() of it a function of "
    "the set value only; random.Random.choice(seq) in a given generator state returns seq[randbelow(len(seq))] (spec-local "
    "models _env_list/_env_sorted/_model_choice patched into the datastore modules)",
    "the user's key extractor of IPHash is a deterministic function of the request (it is part of the model)",
    "configuration: 'same seeds' means every component that accepts a seed / rng is given one (seed=None, rng=None seed from OS "
    "entropy and are outside the statement's hypothesis); draws from random / numpy.random / a component's own seeded "
    "random.Random count as functions of the seeds",
    "reads-frame scan: the classification reasons in SCAN_CLASSIFICATION are reviewed by hand, not machine-checked; sets reaching "
    "a function through un-annotated parameters are not tracked; dynamic dispatch is not resolved (sources are recognised "
    "syntactically at the read)",
    "whole-run equality (same deliveries, same statistics) follows from the per-function non-interference contracts and the scan "
    "by induction over deliveries - composed on paper, never executed here",
]

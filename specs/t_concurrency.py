from pyvc.spec import *
from happysimulator.components.server.concurrency import FixedConcurrency, DynamicConcurrency, WeightedConcurrency

cls(WeightedConcurrency, fields={"_total_capacity": Int, "_used_capacity": Int},
    inv=[("bounds", lambda o: (0 <= o._used_capacity) & (o._used_capacity <= o._total_capacity)),
         ("cap", lambda o: o._total_capacity >= 1)])

fn(WeightedConcurrency, "acquire", args={"weight": Int},
   ensures=[("result", lambda s: iff(s.result, s.old(s.self)._used_capacity + s.weight <= s.self._total_capacity)),
            ("effect", lambda s: s.self._used_capacity == s.old(s.self)._used_capacity + ite(s.result, s.weight, 0)),
            ("cap-unchanged", lambda s: s.self._total_capacity == s.old(s.self)._total_capacity)],
   raises={ValueError: [("only-bad-weight", lambda s: s.weight < 1), ("frame", lambda s: unchanged(s, s.self))]})

fn(WeightedConcurrency, "release", args={"weight": Int},
   ensures=[("never-negative", lambda s: s.self._used_capacity >= 0),
            ("effect", lambda s: s.self._used_capacity == ite(s.old(s.self)._used_capacity - s.weight >= 0, s.old(s.self)._used_capacity - s.weight, 0)),
            ("cap-unchanged", lambda s: s.self._total_capacity == s.old(s.self)._total_capacity)],
   raises={ValueError: [("only-bad-weight", lambda s: s.weight < 1), ("frame", lambda s: unchanged(s, s.self))]})

fn(WeightedConcurrency, "has_capacity", args={"weight": Int},
   ensures=[("result", lambda s: iff(s.result, s.self._used_capacity + s.weight <= s.self._total_capacity)),
            ("frame", lambda s: unchanged(s, s.self))])

ctor(WeightedConcurrency, args={"total_capacity": Int},
     ensures=[("empty", lambda s: (s.self._used_capacity == 0) & (s.self._total_capacity == s.total_capacity))],
     raises={ValueError: [("only-bad", lambda s: s.total_capacity < 1)]})

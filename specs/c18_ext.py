"""C18 extension (imported at the end of specs/C18.py - not a property of its own): serialisation round trips,
the replicated CRDTStore (counter-typed store: local writes, gossip push / response / tick, merge of remote state),
NodeClock with its skew / drift models, the remaining clock / CRDT methods.

The loop contract of CRDTStore._handle_gossip_push is declared at the top of specs/C18.py (loop declarations must
precede the first happysimulator import).  Free functions named in fn("specs.c18_ext", ...) are drivers: they build
the serialised message / event the way the library does and call the real handler."""
from pyvc.spec import *

from specs.C18 import *     # noqa  (specs.C18 is complete at this point: this module is imported by its last line)
from specs.C18 import view, vmax, same_map, HLC_T, VMAP, PROPERTY, hlc_lt, ite_b


def gcounter_roundtrip(c):
    return GCounter.from_dict(c.to_dict())


fn("specs.c18_ext", "gcounter_roundtrip", kind="function", args={"c": Ref(GCounter)}, ensures=[
    ("a-new-replica-object", lambda s: Not(same(s.result, s.c))),
    ("same-identity", lambda s: s.result._node_id == s.c._node_id),
    ("same-counts", lambda s: forall(Str, lambda k: (view(s.result._counts, k) == view(s.c._counts, k))
                                     & iff(contains(s.result._counts, k), contains(s.c._counts, k)))),
    ("source-unchanged", lambda s: unchanged(s, s.c))])


def hlc_roundtrip(t):
    return HLCTimestamp.from_dict(t.to_dict())


fn("specs.c18_ext", "hlc_roundtrip", kind="function", args={"t": HLC_T}, inv=False, ensures=[
    ("same-timestamp", lambda s: (s.result.physical_ns == s.t.physical_ns) & (s.result.logical == s.t.logical)
        & (s.result.node_id == s.t.node_id))])


def lww_roundtrip(r):
    return LWWRegister.from_dict(r.to_dict())


def _same_ts(a, b):
    if a is None or b is None:
        return (a is None) and (b is None)
    return (a.physical_ns == b.physical_ns) & (a.logical == b.logical) & (a.node_id == b.node_id)


fn("specs.c18_ext", "lww_roundtrip", kind="function", args={"r": Ref(LWWRegister)}, ensures=[
    ("a-new-replica-object", lambda s: Not(same(s.result, s.r))),
    ("same-write", lambda s: _same_ts(s.result._timestamp, s.r._timestamp) & (s.result._value == s.r._value)
        & (s.result._node_id == s.r._node_id)),
    ("source-unchanged", lambda s: unchanged(s, s.r))])


def pn_roundtrip(c):
    return PNCounter.from_dict(c.to_dict())


fn("specs.c18_ext", "pn_roundtrip", kind="function", args={"c": Ref(PNCounter)},
   focus=lambda s: [s.c._p, s.c._n], ensures=[
    ("a-new-replica-object", lambda s: Not(same(s.result, s.c)) & Not(same(s.result._p, s.c._p)) & Not(same(s.result._n, s.c._n))
        & Not(same(s.result._p, s.result._n))),
    ("same-increments", lambda s: forall(Str, lambda k: view(s.result._p._counts, k) == view(s.c._p._counts, k))),
    ("same-decrements", lambda s: forall(Str, lambda k: view(s.result._n._counts, k) == view(s.c._n._counts, k))),
    ("same-identity", lambda s: (s.result._node_id == s.c._node_id) & (s.result._p._node_id == s.c._p._node_id)
        & (s.result._n._node_id == s.c._n._node_id)),
    ("source-unchanged", lambda s: unchanged(s, s.c) & unchanged(s, s.c._p) & unchanged(s, s.c._n))])


# ============================================================================ CRDTStore (counter-typed store)
from happysimulator.components.crdt.crdt_store import CRDTStore  # noqa: E402
from specs.common import Entity, Event, Clock, TIME, now_ns  # noqa: E402


class CounterFactory:
    """the crdt_factory of a counter store: `lambda node_id: GCounter(node_id)` (as in tests/ and examples/)"""

    def __call__(self, node_id):
        return GCounter(node_id)


cls(CounterFactory, fields={})
REPLICA = Ref(GCounter)
cls(CRDTStore, fields={"_network": Ref(Entity), "_crdt_factory": Ref(CounterFactory), "_gossip_interval": Real,
                       "_peers": Seq(Ref(Entity)), "_crdts": Map(Str, REPLICA), "_last_peer_hash": Str,
                       "_writes": Int, "_reads": Int, "_gossip_sent": Int, "_gossip_received": Int,
                       "_keys_merged": Int, "_convergence_checks": Int},
    const=["_network", "_crdt_factory", "_gossip_interval"])


def at(d, k):
    """d[k] of a Map(Str, Ref(GCounter)) without forking on presence (an unspecified object when k is absent)"""
    from pyvc.heap import ObjProxy
    kt = d._ty.key.unwrap(k)
    return ObjProxy(z3.Select(d._ty.dt.val(d.term), kt), GCounter)


def _one_replica_per_key(store):
    """the replicas a store holds are existing objects (A-typing) and no two keys share one"""
    from pyvc import ctx as _ctx
    alloc = _ctx.cur().heap.alloc           # read now (the quantifier body is instantiated lazily)

    def body(k):
        r = at(store._crdts, k)
        return implies(contains(store._crdts, k), mk_bool(z3.And(r._ref >= 1, r._ref <= alloc))
                       & forall(Str, lambda k2: implies((k2 != k) & contains(store._crdts, k2),
                                                        Not(same(r, at(store._crdts, k2)))), "k2"))
    return forall(Str, body)


def _own_replicas(store, foreign):
    """none of the store's replicas is one of `foreign` (the peer's objects)"""
    def body(k):
        r = at(store._crdts, k)
        ok = True
        for f in foreign:
            ok = ok & Not(same(r, f))
        return implies(contains(store._crdts, k), ok)
    return forall(Str, body)


cls(CRDTStore, inv=[("one-replica-object-per-key", _one_replica_per_key)])

# FINDING (triage/c18_store_adopts_remote_identity.py): on the pinned tree a key first learnt through gossip is stored
# as the SENDER's replica object state, node_id included; the next local write then increments the sender's slot
# (two nodes write one slot: increments are lost under max-merge) or mints OR-set tags in the sender's name (tag
# collisions).  The invariant below is what "counters equal increments minus decrements" needs of every replica a
# store holds; it is registered once fixes/C18_store-adopts-remote-state-under-own-identity.diff is applied.
import inspect as _inspect  # noqa: E402
import os as _os  # noqa: E402
STORE_IDENTITY_REPAIRED = "__class__(self.name)" in _inspect.getsource(CRDTStore._merge_remote_state)
if STORE_IDENTITY_REPAIRED or _os.environ.get("C18_STRICT"):      # C18_STRICT=1: show the violation on the pinned tree
    cls(CRDTStore, inv=[("every-replica-carries-this-node's-identity", lambda o: forall(Str, lambda k: implies(
        contains(o._crdts, k), at(o._crdts, k)._node_id == o.name)))])


def _old_view_at(s, key, n):
    """the store's view of counter `key` before the call: 0 everywhere when it held no replica"""
    old = s.old(s.store)
    return ite(contains(old._crdts, key), view(s.old(at(old._crdts, key))._counts, n), 0)


def store_merge_two(store, g1, g2):
    """a peer's serialised state {k1: g1, k2: g2} arrives (the peer's replicas g1, g2 are serialised here)"""
    store._merge_remote_state({"k1": g1.to_dict(), "k2": g2.to_dict()})


fn("specs.c18_ext", "store_merge_two", kind="function", args={"store": Ref(CRDTStore), "g1": REPLICA, "g2": REPLICA},
   uses=[(GCounter, "merge")],
   requires=[lambda s: Not(same(s.g1, s.g2)),
             # the store's replicas are its own objects: one per key, none of them the peer's
             lambda s: _own_replicas(s.store, [s.g1, s.g2])],
   ensures=[
    ("k1-is-the-join", lambda s: contains(s.store._crdts, "k1") & forall(Str, lambda n:
        view(at(s.store._crdts, "k1")._counts, n) == vmax(_old_view_at(s, "k1", n), view(s.old(s.g1)._counts, n)))),
    ("k2-is-the-join", lambda s: contains(s.store._crdts, "k2") & forall(Str, lambda n:
        view(at(s.store._crdts, "k2")._counts, n) == vmax(_old_view_at(s, "k2", n), view(s.old(s.g2)._counts, n)))),
    ("peer-replicas-unchanged", lambda s: unchanged(s, s.g1) & unchanged(s, s.g2)),
    ("other-keys-untouched", lambda s: _others_untouched(s, s.store, ["k1", "k2"])),
    ("merges-counted", lambda s: s.store._keys_merged == s.old(s.store)._keys_merged + 2),
   ])


def _others_untouched(s, store, keys):
    """every key except `keys`: same presence, same replica object, same counts"""
    old = s.old(store)

    def body(k):
        other = True
        for kk in keys:
            other = other & (k != kk)
        r0 = at(old._crdts, k)
        return implies(other, iff(contains(store._crdts, k), contains(old._crdts, k))
                       & implies(contains(old._crdts, k), same(at(store._crdts, k), r0)
                                 & same_map(ObjProxyNow(r0)._counts, s.old(r0)._counts)))
    return forall(Str, body)


def ObjProxyNow(p):
    from pyvc.heap import ObjProxy
    return ObjProxy(p._ref, p._cls)


# ============================================================================ NodeClock (skew / drift models)
from happysimulator.core.node_clock import NodeClock, FixedSkew, LinearDrift  # noqa: E402
from specs.common import DURATION, ns  # noqa: E402

cls(FixedSkew, fields={"_offset": DURATION}, const=["_offset"])
cls(LinearDrift, fields={"_rate_ppm": Real}, const=["_rate_ppm"])


# (ClockModel is a Protocol: the model field is one of the two shipped models or None)
cls(NodeClock, fields={"_model": OptRef(FixedSkew, variants=[FixedSkew, LinearDrift]), "_clock": OptRef(Clock)})


def _node_clock_reading(s):
    true_ns = ns(s.self._clock._current_time)
    m = s.self._model
    if m is None:
        return ns(s.result) == true_ns
    if has_class(m, FixedSkew):
        return ns(s.result) == true_ns + ns(cast(m, FixedSkew)._offset)
    # LinearDrift: true time plus the truncated drift - a function of true time and the rate only
    d = ns(s.result) - true_ns
    x = true_ns * cast(m, LinearDrift)._rate_ppm / 1000000
    return ite(x >= 0, (d <= x) & (x < d + 1), (d >= x) & (x > d - 1))


fn(NodeClock, "now", returns=TIME, ensures=[
    ("the-model's-reading-of-the-simulation-clock", _node_clock_reading),
    ("reading-does-not-move-any-clock", lambda s: unchanged(s, s.self) & unchanged(s, s.self._clock))],
   raises={RuntimeError: [("only-without-a-base-clock", lambda s: s.self._clock is None)]})


fn(FixedSkew, "read", args={"true_time": TIME}, returns=TIME, ensures=[
    ("true-time-plus-the-fixed-offset", lambda s: ns(s.result) == ns(s.true_time) + ns(s.self._offset)),
    ("pure", lambda s: unchanged(s, s.self))])


def skew_at_two_times(m, t1, t2):
    return m.read(t1), m.read(t2)


fn("specs.c18_ext", "skew_at_two_times", kind="function", args={"m": Ref(FixedSkew), "t1": TIME, "t2": TIME},
   ensures=[("strictly-monotone-in-true-time", lambda s: iff(ns(s.t1) < ns(s.t2), ns(s.result[0]) < ns(s.result[1]))),
            ("a-function-of-true-time", lambda s: implies(ns(s.t1) == ns(s.t2), ns(s.result[0]) == ns(s.result[1])))])


def drift_at_two_times(m, t1, t2):
    return m.read(t1), m.read(t2)


fn("specs.c18_ext", "drift_at_two_times", kind="function", args={"m": Ref(LinearDrift), "t1": TIME, "t2": TIME},
   requires=[lambda s: (ns(s.t1) >= 0) & (ns(s.t2) >= 0), lambda s: s.m._rate_ppm >= -1000000],
   ensures=[("monotone-in-true-time-unless-it-runs-backwards", lambda s: implies(ns(s.t1) <= ns(s.t2), ns(s.result[0]) <= ns(s.result[1]))),
            ("a-function-of-true-time", lambda s: implies(ns(s.t1) == ns(s.t2), ns(s.result[0]) == ns(s.result[1]))),
            ("no-drift-at-rate-zero", lambda s: implies(s.m._rate_ppm == 0, ns(s.result[0]) == ns(s.t1))),
            ("pure", lambda s: unchanged(s, s.m))])


# ============================================================================ remaining clock / CRDT methods
def vc_lt(a, b):
    """vector order on the views (missing keys count as 0)"""
    return forall(Str, lambda n: view(a._vector, n) <= view(b._vector, n)) \
        & exists(Str, lambda n: view(a._vector, n) < view(b._vector, n))


fn(VectorClock, "snapshot", returns=VMAP, ensures=[
    ("a-copy-of-the-vector", lambda s: same_map(s.result, s.self._vector)), ("pure", lambda s: unchanged(s, s.self))])

fn(VectorClock, "is_concurrent", args={"other": Ref(VectorClock)}, uses=[(VectorClock, "happened_before")], ensures=[
    ("iff-neither-happened-before-the-other", lambda s: iff(s.result, Not(vc_lt(s.self, s.other)) & Not(vc_lt(s.other, s.self)))),
    ("pure", lambda s: unchanged(s, s.self) & unchanged(s, s.other))])

# (VectorClock.merge - a loop over sorted(set | set) filling a new clock - is checked by the bounded stand-in)
ctor(VectorClock, args={"node_id": Str, "node_ids": Seq(Str)}, ensures=[
    ("all-zero", lambda s: forall(Str, lambda n: view(s.self._vector, n) == 0)),
    ("named", lambda s: s.self._node_id == s.node_id)])

ctor(LamportClock, args={"initial": Int}, ensures=[("starts-at-initial", lambda s: s.self._time == s.initial)])
fn(LamportClock, "time", returns=Int, ensures=[("is-the-counter", lambda s: s.result == s.self._time), ("pure", lambda s: unchanged(s, s.self))])

ctor(GCounter, args={"node_id": Str}, ensures=[
    ("zero-everywhere", lambda s: forall(Str, lambda n: view(s.self._counts, n) == 0)), ("named", lambda s: s.self._node_id == s.node_id)])
ctor(PNCounter, args={"node_id": Str}, ensures=[
    ("zero-everywhere", lambda s: forall(Str, lambda n: (view(s.self._p._counts, n) == 0) & (view(s.self._n._counts, n) == 0))),
    ("halves-named-like-the-counter", lambda s: (s.self._node_id == s.node_id) & (s.self._p._node_id == s.node_id) & (s.self._n._node_id == s.node_id))])

fn(PNCounter, "merge", args={"other": Ref(PNCounter)}, uses=[(GCounter, "merge")],
   focus=lambda s: [s.self._p, s.self._n, s.other._p, s.other._n],
   requires=[lambda s: Not(same(s.self._p, s.other._n)) & Not(same(s.self._n, s.other._p))], ensures=[
    ("increments-pointwise-max", lambda s: forall(Str, lambda k: view(s.self._p._counts, k) == vmax(
        view(s.old(s.self._p)._counts, k), view(s.old(s.other._p)._counts, k)))),
    ("decrements-pointwise-max", lambda s: forall(Str, lambda k: view(s.self._n._counts, k) == vmax(
        view(s.old(s.self._n)._counts, k), view(s.old(s.other._n)._counts, k)))),
    ("other-unchanged", lambda s: same(s.self, s.other) | (forall(Str, lambda k: view(s.other._p._counts, k) == view(s.old(s.other._p)._counts, k))
                                                            & forall(Str, lambda k: view(s.other._n._counts, k) == view(s.old(s.other._n)._counts, k)))),
    ("halves-kept", lambda s: same(s.self._p, s.old(s.self)._p) & same(s.self._n, s.old(s.self)._n))])

ctor(LWWRegister, args={"node_id": Str, "value": Any, "timestamp": Opt(HLC_T)}, ensures=[
    ("holds-the-given-write", lambda s: _same_ts(s.self._timestamp, s.timestamp) & (s.self._value == s.value) & (s.self._node_id == s.node_id))])
fn(LWWRegister, "get", returns=Any, ensures=[("the-held-value", lambda s: s.result == s.self._value), ("pure", lambda s: unchanged(s, s.self))])
fn(LWWRegister, "value", returns=Any, ensures=[("the-held-value", lambda s: s.result == s.self._value), ("pure", lambda s: unchanged(s, s.self))])


def lww_two_orders(a, b):
    """the same two writes meet in both orders (equal physical time and counter allowed: the node id decides)"""
    x = LWWRegister("x")
    y = LWWRegister("y")
    x.merge(a)
    x.merge(b)
    y.merge(b)
    y.merge(a)
    return x, y


fn("specs.c18_ext", "lww_two_orders", kind="function", args={"a": Ref(LWWRegister), "b": Ref(LWWRegister)},
   requires=[lambda s: Not(same(s.a, s.b)),
             lambda s: (s.a._timestamp is not None) and (s.b._timestamp is not None),
             # a timestamp names one write (node id + HLC value are unique per write)
             lambda s: implies(_same_ts(s.a._timestamp, s.b._timestamp), s.a._value == s.b._value)],
   ensures=[("both-orders-hold-the-same-write", lambda s: _same_ts(s.result[0]._timestamp, s.result[1]._timestamp)
             & (s.result[0]._value == s.result[1]._value)),
            ("ties-on-time-go-to-the-greater-node-id", lambda s: True if (s.a._timestamp is None or s.b._timestamp is None) else implies(
                (s.a._timestamp.physical_ns == s.b._timestamp.physical_ns) & (s.a._timestamp.logical == s.b._timestamp.logical)
                & (s.a._timestamp.node_id < s.b._timestamp.node_id),
                _same_ts(s.result[0]._timestamp, s.b._timestamp) & (s.result[0]._value == s.b._value)))])


def hlc_on_node_clock(node_id, nc):
    """an HLC built on a NodeClock takes two timestamps while the simulation clock (and the model) may do anything"""
    h = HybridLogicalClock(node_id, physical_clock=nc)
    a = h.now()
    b = h.now()
    return a, b


fn("specs.c18_ext", "hlc_on_node_clock", kind="function", args={"node_id": Str, "nc": Ref(NodeClock)},
   requires=[lambda s: s.nc._clock is not None],
   ensures=[("second-timestamp-is-later", lambda s: hlc_lt(s.result[0], s.result[1])),
            ("stamped-with-the-node", lambda s: (s.result[0].node_id == s.node_id) & (s.result[1].node_id == s.node_id)),
            # (the simulation clock does not move inside the function: both stamps see the same reading)
            ("physical-part-is-the-node-clock-reading-once-it-passed-the-last-stamp", lambda s:
                (s.result[0].physical_ns == vmax(0, ns(s.nc.now))) & (s.result[1].physical_ns == s.result[0].physical_ns)
                & (s.result[1].logical == s.result[0].logical + 1))])


# ---- local operations ------------------------------------------------------------------------------------------
def _created_or_found(s):
    old = s.old(s.self)
    r = s.result
    found = same(r, at(old._crdts, s.key)) & unchanged(s, s.self) & same_map(r._counts, s.old(r)._counts)
    created = (r._node_id == s.self.name) & forall(Str, lambda n: view(r._counts, n) == 0)
    return ite_b(contains(old._crdts, s.key), found, created)


fn(CRDTStore, "get_or_create", args={"key": Str}, returns=REPLICA, ensures=[
    ("the-key's-replica", lambda s: contains(s.self._crdts, s.key) & same(s.result, at(s.self._crdts, s.key))),
    ("found-or-a-fresh-empty-replica-of-this-node", _created_or_found),
    ("other-keys-untouched", lambda s: _others_untouched(s, s.self, [s.key]))])


class _Msg:
    """what a handler reads of an event: its type and context['metadata']"""

    def __init__(self, event_type, metadata):
        self.event_type = event_type
        self.context = {"metadata": metadata}


STORE_STABLE = [("CRDTStore", f) for f in ("_crdts", "_writes", "_reads", "_gossip_sent", "_gossip_received", "_keys_merged",
                                            "_last_peer_hash", "_peers")] + [("GCounter", "_counts"), ("GCounter", "_node_id")]


def store_write(store, key, n):
    """a client write `increment by n` on `key` delivered to the store"""
    return (yield from store.handle_event(_Msg("Write", {"key": key, "operation": "increment", "value": n})))


def _write_post(s):
    r = at(s.store._crdts, s.key)
    me = r._node_id
    return contains(s.store._crdts, s.key) \
        & (view(r._counts, me) == _old_view_at(s, s.key, me) + s.n) \
        & forall(Str, lambda k: implies(k != me, view(r._counts, k) == _old_view_at(s, s.key, k)))


fn("specs.c18_ext", "store_write", kind="function", args={"store": Ref(CRDTStore), "key": Str, "n": Int},
   yields=Yields(stable=STORE_STABLE),
   ensures=[
    ("one-increment-of-the-replica's-own-slot", _write_post),
    ("other-keys-untouched", lambda s: _others_untouched(s, s.store, [s.key])),
    ("write-counted", lambda s: s.store._writes == s.old(s.store)._writes + 1)],
   raises={ValueError: [("only-a-non-positive-amount", lambda s: s.n < 1)]})


# ---- gossip handlers ------------------------------------------------------------------------------------------
# Network.send, _serialize_state and _state_hash are replaced by opaque stubs here; the handler contracts say WHICH
# value travels (the ghost call trace of the stubs): the state handed to Network.send is the very value
# _serialize_state returned.  That _serialize_state is the full current state (every key, to_dict of its replica)
# is checked by the bounded stand-in crdt-store-gossip (dict comprehension over a symbolic dict: out of reach).
from happysimulator.components.network.network import Network  # noqa: E402
import happysimulator.components.crdt.crdt_store as _store_mod  # noqa: E402
cls(Network, fields={})
cls(CRDTStore, fields={"_network": Ref(Network)})
stub_of(Network, "send", returns=Ref(Event), modifies=[])
stub_of(CRDTStore, "_serialize_state", returns=Any, modifies=[])
stub_of(CRDTStore, "_state_hash", returns=Str, modifies=[])
WIRE_STUBS = [(Network, "send"), (CRDTStore, "_serialize_state"), (CRDTStore, "_state_hash"), (GCounter, "merge")]


def _calls(name):
    from pyvc import ctx as _ctx
    return [(vals, res) for (q, vals, res) in _ctx.cur().ghost_args.get("trace", []) if q == name]


def _sent_state_is_serialised(s, y, event_type, n_events):
    """the one message created on this path carries the value _serialize_state returned, and it is what is yielded"""
    sends, sers = _calls("Network.send"), _calls("CRDTStore._serialize_state")
    if len(sends) != 1 or len(sers) != 1 or not isinstance(y, tuple) or len(y[1]) != n_events:
        return False
    vals, ev = sends[0]
    payload = vals["payload"]
    if not isinstance(payload, dict) or payload.get("state") is not sers[0][1] or vals["event_type"] != event_type:
        return False
    return same(vals["source"], s.store) & same(y[1][0], ev) & (y[0] == 0.0)


def _join_posts():
    return [
        ("k1-is-the-join", lambda s: contains(s.store._crdts, "k1") & forall(Str, lambda n:
            view(at(s.store._crdts, "k1")._counts, n) == vmax(_old_view_at(s, "k1", n), view(s.old(s.g1)._counts, n)))),
        ("k2-is-the-join", lambda s: contains(s.store._crdts, "k2") & forall(Str, lambda n:
            view(at(s.store._crdts, "k2")._counts, n) == vmax(_old_view_at(s, "k2", n), view(s.old(s.g2)._counts, n)))),
        ("peer-replicas-unchanged", lambda s: unchanged(s, s.g1) & unchanged(s, s.g2)),
        ("other-keys-untouched", lambda s: _others_untouched(s, s.store, ["k1", "k2"])),
        ("receipt-counted", lambda s: s.store._gossip_received == s.old(s.store)._gossip_received + 1)]


def store_receive_push(store, g1, g2, source, digest):
    """a peer's GossipPush with state {k1: g1, k2: g2} is delivered"""
    md = {"source": source, "destination": store.name, "state": {"k1": g1.to_dict(), "k2": g2.to_dict()}, "state_hash": digest}
    return (yield from store.handle_event(_Msg("GossipPush", md)))


def _push_reply(s, y):
    ok = _sent_state_is_serialised(s, y, "GossipResponse", 1)
    if ok is False:
        return False
    dest = _calls("Network.send")[0][0]["destination"]
    return ok & (dest.name == s.source) & contains(s.store._peers, dest)


GOSSIP_PRE = [lambda s: Not(same(s.g1, s.g2)), lambda s: _own_replicas(s.store, [s.g1, s.g2])]
fn("specs.c18_ext", "store_receive_push", kind="function",
   args={"store": Ref(CRDTStore), "g1": REPLICA, "g2": REPLICA, "source": Str, "digest": Str},
   uses=WIRE_STUBS, requires=GOSSIP_PRE,
   yields=Yields(stable=STORE_STABLE, at_yield=[("answers-the-sender-with-its-serialised-state", _push_reply)]),
   ensures=_join_posts())


def store_receive_response(store, g1, g2, source, digest):
    """a peer's GossipResponse with state {k1: g1, k2: g2} is delivered"""
    md = {"source": source, "destination": store.name, "state": {"k1": g1.to_dict(), "k2": g2.to_dict()}, "state_hash": digest}
    return (yield from store.handle_event(_Msg("GossipResponse", md)))


fn("specs.c18_ext", "store_receive_response", kind="function",
   args={"store": Ref(CRDTStore), "g1": REPLICA, "g2": REPLICA, "source": Str, "digest": Str},
   uses=WIRE_STUBS, requires=GOSSIP_PRE, yields=Yields(stable=STORE_STABLE), ensures=_join_posts())


class _AnyChoice:
    """stand-in for the `random` module inside crdt_store.py while a task runs: choice(seq) is an arbitrary element"""

    @staticmethod
    def choice(seq):
        i = fresh(Int, "pick")
        assume((i >= 0) & (i < slen(seq)))
        return seq[i]


def _pick_env():
    saved = []

    def setup(s):
        saved.append(_store_mod.__dict__["random"])
        _store_mod.__dict__["random"] = _AnyChoice
        return []

    def teardown(s):
        while saved:
            _store_mod.__dict__["random"] = saved.pop()
    return {"setup": setup, "teardown": teardown}


def store_tick(store):
    return (yield from store.handle_event(_Msg("GossipTick", {})))


def _tick_push(s, y):
    ok = _sent_state_is_serialised(s, y, "GossipPush", 2)
    if ok is False:
        return False
    dest = _calls("Network.send")[0][0]["destination"]
    nxt = y[1][1]
    return ok & contains(s.store._peers, dest) & (nxt.event_type == "GossipTick") & same(nxt.target, s.store) \
        & (s.store._gossip_sent == s.old(s.store)._gossip_sent + 1)


fn("specs.c18_ext", "store_tick", kind="function", args={"store": Ref(CRDTStore)}, uses=WIRE_STUBS, **_pick_env(),
   yields=Yields(stable=STORE_STABLE, at_yield=[("pushes-its-serialised-state-to-a-peer-and-schedules-the-next-round", _tick_push)]),
   ensures=[("state-untouched", lambda s: unchanged(s, s.store, "_crdts", "_keys_merged")),
            ("silent-only-without-peers", lambda s: (len(_calls("Network.send")) == 1) or (slen(s.store._peers) == 0))])
